//! C22 (thorough, optional): libFuzzer on `Database::execute`.
//! The input is lossily decoded to &str (the API takes &str) and split at NUL bytes into up to 6 statements that run on
//! a small database (4 tables, ~40 rows) that is rebuilt whenever a statement may have changed it, so that a crash
//! file reproduces on its own.  Any panic (overflow-checks are on in the fuzz profile), abort or timeout is a finding.
#![no_main]
use libfuzzer_sys::fuzz_target;
use std::cell::RefCell;
use std::path::PathBuf;
use turdb::Database;

const SETUP: &[&str] = &[
    "CREATE TABLE t1 (id BIGINT PRIMARY KEY, a INT, b TEXT, c DOUBLE, d BOOLEAN)",
    "CREATE TABLE t2 (id INT PRIMARY KEY, t1_id BIGINT, name VARCHAR(40) NOT NULL, amount DECIMAL, note TEXT)",
    "CREATE TABLE t3 (id BIGINT PRIMARY KEY AUTO_INCREMENT, title TEXT, emb VECTOR(4))",
    "CREATE TABLE t4 (id INT PRIMARY KEY, dt DATE, ts TIMESTAMP, j JSONB)",
    "CREATE INDEX t1_a ON t1 (a)",
    "INSERT INTO t1 VALUES (1, 1, 'a', 1.5, TRUE), (2, NULL, '', -0.0, FALSE), (3, 2147483647, 'héllo ✓', 1e308, NULL), (9223372036854775807, -2147483648, NULL, NULL, TRUE)",
    "INSERT INTO t2 VALUES (1, 1, 'n1', 10.50, 'x'), (2, 2, 'n2', NULL, NULL), (3, NULL, 'n3', -0.01, 'note')",
    "INSERT INTO t3 (title, emb) VALUES ('d1', '[1,2,3,4]'), ('d2', '[0,0,0,1]'), ('d3', NULL)",
    "INSERT INTO t4 VALUES (1, '2024-02-29', '2024-02-29 12:34:56', '{\"a\": [1, 2, {\"b\": null}]}'), (2, NULL, NULL, '[]'), (3, '0001-01-01', '9999-12-31 23:59:59', NULL)",
];

struct State {
    dir: PathBuf,
    db: Option<Database>,
}

thread_local! {
    static STATE: RefCell<Option<State>> = RefCell::new(None);
}

fn fresh(dir: &PathBuf) -> Database {
    let _ = std::fs::remove_dir_all(dir);
    let db = Database::create(dir).expect("create");
    for s in SETUP {
        db.execute(s).expect("setup");
    }
    db
}

fn read_only(s: &str) -> bool {
    let t = s.trim_start().to_ascii_uppercase();
    t.starts_with("SELECT") || t.starts_with("EXPLAIN SELECT") || t.starts_with("WITH")
}

fuzz_target!(|data: &[u8]| {
    let text = String::from_utf8_lossy(data);
    STATE.with(|st| {
        let mut st = st.borrow_mut();
        if st.is_none() {
            // memory-backed scratch directory, removed and re-created per rebuild
            let base = if std::path::Path::new("/dev/shm").is_dir() { "/dev/shm" } else { "/verif/scratch" };
            let dir = PathBuf::from(format!("{}/tv-c22-fuzz-{}", base, std::process::id()));
            *st = Some(State { dir, db: None });
        }
        let s = st.as_mut().unwrap();
        if s.db.is_none() {
            s.db = Some(fresh(&s.dir));
        }
        let mut dirty = false;
        for stmt in text.split('\u{0}').take(6) {
            let db = s.db.as_ref().unwrap();
            if !read_only(stmt) {
                dirty = true;
            }
            let _ = db.execute(stmt);
        }
        if dirty {
            s.db = None;
        }
    });
});

//! tv — runtime monitors for kahflane/TurDB. `tv <Cxx> [--tier quick|thorough] [--seed N] [--replay P]`
#![allow(clippy::all)]
#![allow(dead_code)]

mod props;
mod report;
mod rng;
mod memstore;
mod sqlm;

pub struct Args {
    pub prop: String,
    pub tier: String,
    pub seed: u64,
    pub replay: Option<String>,
    pub rest: Vec<String>,
}

fn main() {
    let argv: Vec<String> = std::env::args().collect();
    if argv.len() < 2 {
        eprintln!("usage: tv <Cxx|subcommand> [--tier quick|thorough] [--seed N] [--replay PATH] [extra...]");
        std::process::exit(2);
    }
    let mut a = Args {
        prop: argv[1].clone(),
        tier: std::env::var("VERIF_TIER").unwrap_or_else(|_| "quick".into()),
        seed: std::env::var("VERIF_SEED").ok().and_then(|s| s.parse().ok()).unwrap_or(1),
        replay: None,
        rest: vec![],
    };
    let mut i = 2;
    while i < argv.len() {
        match argv[i].as_str() {
            "--tier" => {
                a.tier = argv[i + 1].clone();
                i += 2;
            }
            "--seed" => {
                a.seed = argv[i + 1].parse().expect("seed");
                i += 2;
            }
            "--replay" => {
                a.replay = Some(argv[i + 1].clone());
                i += 2;
            }
            _ => {
                a.rest.push(argv[i].clone());
                i += 1;
            }
        }
    }
    if a.tier != "quick" && a.tier != "thorough" {
        eprintln!("bad tier {}", a.tier);
        std::process::exit(2);
    }
    let code = props::dispatch(&a);
    std::process::exit(code);
}

//! In-memory `Storage` (lets BTree/Freelist run without mmap, incl. under Miri).
use eyre::{bail, Result};
use turdb::storage::Storage;

pub const PAGE: usize = 16384;

/// 16-byte aligned page (zerocopy views over page bytes need the alignment mmap'd pages have)
#[derive(Clone)]
#[repr(align(16))]
pub struct Page(pub [u8; PAGE]);

impl std::ops::Deref for Page {
    type Target = [u8; PAGE];
    fn deref(&self) -> &[u8; PAGE] {
        &self.0
    }
}
impl std::ops::DerefMut for Page {
    fn deref_mut(&mut self) -> &mut [u8; PAGE] {
        &mut self.0
    }
}

#[derive(Clone)]
pub struct MemStore {
    pub pages: Vec<Box<Page>>,
}

impl MemStore {
    pub fn new(n: u32) -> Self {
        let mut pages = Vec::new();
        for _ in 0..n {
            pages.push(Box::new(Page([0u8; PAGE])));
        }
        MemStore { pages }
    }
}

impl Storage for MemStore {
    fn page(&self, page_no: u32) -> Result<&[u8]> {
        match self.pages.get(page_no as usize) {
            Some(p) => Ok(&p[..]),
            None => bail!("page {} out of bounds (page_count={})", page_no, self.pages.len()),
        }
    }
    fn page_mut(&mut self, page_no: u32) -> Result<&mut [u8]> {
        let n = self.pages.len();
        match self.pages.get_mut(page_no as usize) {
            Some(p) => Ok(&mut p[..]),
            None => bail!("page {} out of bounds (page_count={})", page_no, n),
        }
    }
    fn grow(&mut self, new_page_count: u32) -> Result<()> {
        while (self.pages.len() as u32) < new_page_count {
            self.pages.push(Box::new(Page([0u8; PAGE])));
        }
        Ok(())
    }
    fn page_count(&self) -> u32 {
        self.pages.len() as u32
    }
    fn sync(&self) -> Result<()> {
        Ok(())
    }
}

//! C02: decided by the crash engine (crash.rs).
use crate::Args;

pub fn run(a: &Args) -> i32 {
    super::crash::run(a, "C02")
}

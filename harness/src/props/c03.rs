//! C03: WAL replay applies exactly the longest valid frame prefix.
//!
//! Oracle: a shadow log (per segment: list of `(file_id, page_no, image-id, kind)` in write order)
//! driven in lock-step with the real `turdb::storage::Wal`. Every 16 KiB page image is filled with
//! a unique 64-bit id, so a recovered page names the write it came from; observation storages are
//! pre-filled with a sentinel, so "untouched", "all-zero page applied" and "image X applied" differ.
//!
//! Build phase: 8 fixed minimal histories (one per defect class seen so far) + random sequences of
//! frame writes (write_frame, write_frame_with_file_id, write_frames_batch[_no_sync],
//! write_undo_frame, WalStoragePerTable::flush_wal_for_table), `rotate_segment`, `truncate`,
//! `checkpoint`, the Database-style "rotate + replay closed + remove closed" cycle, drop +
//! `Wal::open`, torn-tail crash + `Wal::open`, sync-mode changes. Each sequence enables a random
//! subset of these features. Observations: `recover_for_file`, `replay_segments_to_storage`,
//! `recover` (single-file logs), `checkpoint`, `read_page`.
//!
//! Sub-assertions: no_panic, api_ok, recover_ok, page_last_valid_image,
//! reopen_append_preserves_frames, never_written_not_replayed, no_frame_after_invalid,
//! prefix_exact, read_page_latest, closed_segments_listed. The signature is
//! `C03/<assertion>/<cause>`; the cause of a behavioural mismatch is established by an independent
//! byte-level audit of the segment files against the shadow (own CRC-64/ECMA-182): where did the
//! frames really land (cursor at 0 after reopen, zero hole after truncate, frames flushed after a
//! truncate, torn tail kept). The audit never produces a verdict by itself; it also decides which
//! logs are fit for the corruption phase.
//!
//! Corruption phase (only on logs whose bytes equal the shadow layout): every frame boundary
//! +-{0,1,31,32,33,8192} bytes is used as a truncation point of every segment file, plus sampled
//! byte flips, 4 KiB zero fills, zero tails, appended garbage and appended zeros. Expected result:
//! exactly the frames of the longest prefix (across segments, in write order) whose bytes are
//! intact. When the result differs it is compared with exact emulations of the known wrong
//! behaviours (each segment contributes its own prefix; all-zero slots count as frames) to name
//! the cause; anything else is `prefix_exact/corrupt_<kind>`.
//!
//! Debug aid: `C03_DUMP=<file>` writes one JSON line per failed case.
use crate::report::{catch, panic_site, Ctx};
use crate::rng::{fnv, Rng};
use crate::Args;
use serde_json::{json, Value};
use std::collections::{BTreeMap, BTreeSet, HashMap, HashSet};
use std::path::{Path, PathBuf};
use turdb::database::dirty_tracker::ShardedDirtyTracker;
use turdb::storage::{MmapStorage, SyncMode, Wal, WalSegment, WalStoragePerTable};

const HDR: usize = 32;
const PAGE: usize = 16384;
const FRAME: usize = HDR + PAGE;
const NFILES: u64 = 4;
const NPAGES: u32 = 8;
const SENTINEL: u64 = 0xEEEE_EEEE_EEEE_EEEE;
const UNDO_TAG: u64 = 0x02 << 56;
const LANES: u64 = 8;
const DELTAS: [i64; 11] = [0, 1, -1, 31, -31, 32, -32, 33, -33, 8192, -8192];

// ------------------------------------------------------------------------------------------------
// independent CRC-64/ECMA-182 (poly 0x42F0E1EBA9EA3693, init 0, no reflection, xorout 0)

fn crc_table() -> [u64; 256] {
    let mut t = [0u64; 256];
    for i in 0..256u64 {
        let mut c = i << 56;
        for _ in 0..8 {
            c = if c & (1 << 63) != 0 { (c << 1) ^ 0x42F0_E1EB_A9EA_3693 } else { c << 1 };
        }
        t[i as usize] = c;
    }
    t
}

fn crc64(t: &[u64; 256], mut c: u64, data: &[u8]) -> u64 {
    for b in data {
        c = t[(((c >> 56) as u8) ^ *b) as usize] ^ (c << 8);
    }
    c
}

// ------------------------------------------------------------------------------------------------
// page images

fn image(img: u64) -> Vec<u8> {
    let mut v = Vec::with_capacity(PAGE);
    for _ in 0..PAGE / 8 {
        v.extend_from_slice(&img.to_le_bytes());
    }
    v
}

#[derive(Clone, Copy, PartialEq, Eq, Debug)]
enum PObs {
    Untouched,
    Zero,
    Img(u64),
    Garbled,
}

fn decode(page: &[u8]) -> PObs {
    let first = u64::from_le_bytes(page[..8].try_into().unwrap());
    for c in page.chunks_exact(8) {
        if u64::from_le_bytes(c.try_into().unwrap()) != first {
            return PObs::Garbled;
        }
    }
    match first {
        SENTINEL => PObs::Untouched,
        0 => PObs::Zero,
        x => PObs::Img(x),
    }
}

fn pobs_str(p: PObs) -> String {
    match p {
        PObs::Untouched => "untouched".into(),
        PObs::Zero => "all-zero page".into(),
        PObs::Img(x) => format!("image {:#x}", x),
        PObs::Garbled => "garbled".into(),
    }
}

// ------------------------------------------------------------------------------------------------
// shadow log

#[derive(Clone, Debug)]
struct Fr {
    fid: u64,
    page: u32,
    db_size: u32,
    img: u64, // 0 = an all-zero frame (only used by defect emulations)
    api: u8,
    /// number of frames the segment held when the Wal instance that wrote this frame was opened
    /// (0 for created/rotated segments): slot index under "cursor at 0" = index - open_len
    open_len: usize,
}

#[derive(Default)]
struct Shadow {
    segs: BTreeMap<u64, Vec<Fr>>,
    cur: u64,
    all: HashMap<u64, (u64, u32)>,
    discarded: HashSet<u64>,
    open_seg: u64,
    open_len: usize,
    opened_by_open: bool,
    closed: Vec<u64>,
    trunc_since_open: bool,
    truncs: u64,
    zero_tail_injected: bool,
    garbage_tail_injected: bool,
    reopen_appends: u64,
    segs_at_open: usize,
    /// segments that legitimately end with bytes that are not frames (torn tail left by a crash step)
    slack: BTreeSet<u64>,
}

struct Exp {
    count: u32,
    pages: BTreeMap<u32, u64>,
}

fn expect_of<'a>(it: impl Iterator<Item = &'a Fr>, filt: Option<u64>) -> Exp {
    let mut e = Exp { count: 0, pages: BTreeMap::new() };
    for f in it {
        if let Some(id) = filt {
            if f.fid != id {
                continue;
            }
        }
        e.count += 1;
        e.pages.insert(f.page, f.img);
    }
    e
}

impl Shadow {
    fn new() -> Shadow {
        let mut s = Shadow::default();
        s.cur = 1;
        s.segs.insert(1, vec![]);
        s.open_seg = 1;
        s
    }
    fn frames(&self) -> impl Iterator<Item = &Fr> {
        self.segs.values().flat_map(|v| v.iter())
    }
    fn total(&self) -> usize {
        self.segs.values().map(|v| v.len()).sum()
    }
    fn write(&mut self, fid: u64, page: u32, db_size: u32, img: u64, api: u8) {
        let open_len = if self.cur == self.open_seg { self.open_len } else { 0 };
        if self.opened_by_open && open_len > 0 {
            self.reopen_appends += 1;
        }
        self.all.insert(img, (fid, page));
        self.segs.get_mut(&self.cur).unwrap().push(Fr { fid, page, db_size, img, api, open_len });
    }
    fn rotate(&mut self) {
        self.closed.push(self.cur);
        self.cur += 1;
        self.segs.insert(self.cur, vec![]);
    }
    fn truncate(&mut self) {
        let cur = self.cur;
        let old: Vec<u64> = self.segs.keys().copied().filter(|k| *k < cur).collect();
        for k in old {
            for f in self.segs.remove(&k).unwrap() {
                self.discarded.insert(f.img);
            }
        }
        for f in self.segs.get_mut(&cur).unwrap().drain(..) {
            self.discarded.insert(f.img);
        }
        self.slack.clear();
        self.trunc_since_open = true;
        self.truncs += 1;
        self.open_len = 0;
    }
    fn reopen(&mut self) {
        self.open_seg = self.cur;
        self.open_len = self.segs[&self.cur].len();
        self.opened_by_open = true;
        self.closed.clear();
        self.trunc_since_open = false;
        self.segs_at_open = self.segs.len();
    }
    fn remove_segments(&mut self, nums: &[u64]) {
        for n in nums {
            if *n == self.cur {
                continue;
            }
            if let Some(v) = self.segs.remove(n) {
                for f in v {
                    self.discarded.insert(f.img);
                }
            }
        }
    }
    /// last redo frame for (fid, page) among the existing segments: (image, segment)
    fn last(&self, fid: u64, page: u32) -> Option<(u64, u64)> {
        let mut r = None;
        for (s, v) in &self.segs {
            for f in v {
                if f.fid == fid && f.page == page {
                    r = Some((f.img, *s));
                }
            }
        }
        r
    }
}

// ------------------------------------------------------------------------------------------------
// observation through the recovery APIs

struct Obs {
    count: u32,
    page_count: u32,
    pages: Vec<PObs>,
}

/// An MmapStorage whose pages are pre-filled with a sentinel; run `f` on it, decode every page.
/// The storage file is reused between observations while its size is unchanged (creating and
/// faulting in a fresh mapped file costs ~10 ms here); it is re-created after `f` grew it.
struct RecStore {
    path: PathBuf,
    st: Option<MmapStorage>,
}

fn observe(rs: &mut RecStore, init_pages: u32, f: impl FnOnce(&mut MmapStorage) -> eyre::Result<u32>) -> Result<Obs, (bool, String)> {
    let mut st = match rs.st.take() {
        Some(s) if s.page_count() == init_pages => s,
        _ => match MmapStorage::create(&rs.path, init_pages) {
            Ok(s) => s,
            Err(e) => return Err((false, format!("harness: cannot create observation storage: {:#}", e))),
        },
    };
    let r = catch(|| -> eyre::Result<Obs> {
        let sent = SENTINEL.to_le_bytes();
        for p in 0..init_pages {
            for c in st.page_mut(p)?.chunks_exact_mut(8) {
                c.copy_from_slice(&sent);
            }
        }
        let count = f(&mut st)?;
        let pc = st.page_count();
        let mut pages = vec![];
        for p in 0..pc.min(64) {
            pages.push(decode(st.page(p)?));
        }
        Ok(Obs { count, page_count: pc, pages })
    });
    if r.is_ok() && st.page_count() == init_pages {
        rs.st = Some(st);
    }
    match r {
        Ok(Ok(o)) => Ok(o),
        Ok(Err(e)) => Err((false, format!("{:#}", e))),
        Err(p) => Err((true, p)),
    }
}

struct Diff {
    page: i64,
    exp: String,
    obs: String,
    cat: &'static str,
}

fn diff_json(d: &[Diff]) -> Value {
    Value::Array(d.iter().take(12).map(|x| json!({"page": x.page, "expected": x.exp, "observed": x.obs, "kind": x.cat})).collect())
}

/// compare an observation with the expectation for file `fid` (None: file ids are ignored)
fn compare(exp: &Exp, obs: &Obs, init_pages: u32, fid: Option<u64>, all: &HashMap<u64, (u64, u32)>, discarded: &HashSet<u64>) -> Vec<Diff> {
    let mut out = vec![];
    let top = (NPAGES.max(obs.page_count)).min(64);
    for p in 0..top {
        let o = if p < obs.page_count { Some(obs.pages[p as usize]) } else { None };
        let e = exp.pages.get(&p).copied();
        let want = match e {
            Some(0) => PObs::Zero,
            Some(x) => PObs::Img(x),
            None => {
                if p < init_pages {
                    PObs::Untouched
                } else {
                    PObs::Zero
                }
            }
        };
        let ok = match (e, o) {
            (Some(_), None) => false,
            (None, None) => true,
            (_, Some(o)) => o == want,
        };
        if ok {
            continue;
        }
        let cat = match o {
            None => "lost",
            Some(PObs::Untouched) => "lost",
            Some(PObs::Zero) => {
                if e.is_some() && p >= init_pages {
                    "lost"
                } else {
                    "zero"
                }
            }
            Some(PObs::Garbled) => "garbled",
            Some(PObs::Img(x)) => {
                if discarded.contains(&x) {
                    "resurrected"
                } else {
                    match all.get(&x) {
                        None => "unknown_image",
                        Some((f, pg)) => {
                            if *pg == p && fid.map(|id| id == *f).unwrap_or(true) {
                                if e.is_some() {
                                    "stale"
                                } else {
                                    "spurious"
                                }
                            } else {
                                "misplaced"
                            }
                        }
                    }
                }
            }
        };
        out.push(Diff { page: p as i64, exp: pobs_str(want), obs: o.map(pobs_str).unwrap_or_else(|| "page beyond storage end".into()), cat });
    }
    if obs.count != exp.count {
        out.push(Diff {
            page: -1,
            exp: format!("{} frames applied", exp.count),
            obs: format!("{} frames applied", obs.count),
            cat: if obs.count > exp.count { "count_high" } else { "count_low" },
        });
    }
    out
}

fn worst(d: &[Diff]) -> &'static str {
    for c in ["zero", "garbled", "unknown_image", "resurrected", "misplaced", "spurious", "lost", "stale", "count_high", "count_low"] {
        if d.iter().any(|x| x.cat == c) {
            return c;
        }
    }
    "none"
}

// ------------------------------------------------------------------------------------------------
// byte-level audit of the segment files against the shadow (cause attribution only)

struct Audit {
    ok: bool,
    /// default cause (by precedence) when the mismatch kind does not single one out
    cause: &'static str,
    cursor0: bool,
    zero_slot: bool,
    discarded: bool,
    torn: bool,
    detail: Value,
}

impl Audit {
    fn bad(cause: &'static str, detail: Value) -> Audit {
        Audit { ok: false, cause, cursor0: false, zero_slot: false, discarded: false, torn: false, detail }
    }
    /// cause consistent with the kind of behavioural mismatch that was observed
    fn cause_for(&self, kind: &str, sh: &Shadow) -> &'static str {
        if self.ok {
            return "layout_ok";
        }
        let zero_cause = if sh.truncs > 0 {
            "zero_hole_after_truncate"
        } else if sh.zero_tail_injected {
            "all_zero_frame_validates"
        } else {
            "zero_slot_in_log"
        };
        let disc_cause = if sh.truncs > 0 { "buffered_frames_flushed_after_truncate" } else { "discarded_frame_in_log" };
        match kind {
            "zero" if self.zero_slot => zero_cause,
            "resurrected" if self.discarded => disc_cause,
            "lost" | "stale" | "count_low" if self.cursor0 => "cursor_at_zero",
            "count_high" if self.zero_slot && !self.discarded => zero_cause,
            "count_high" if self.discarded && !self.zero_slot => disc_cause,
            _ => self.cause,
        }
    }
}

fn is_zero(b: &[u8]) -> bool {
    b.iter().all(|x| *x == 0)
}

fn audit(dir: &Path, sh: &Shadow, crc: &[u64; 256]) -> Audit {
    let mut on_disk = BTreeSet::new();
    if let Ok(rd) = std::fs::read_dir(dir) {
        for e in rd.flatten() {
            let n = e.file_name().to_string_lossy().to_string();
            if n.starts_with("wal.") && n.len() == 10 {
                if let Ok(k) = n[4..].parse::<u64>() {
                    on_disk.insert(k);
                }
            }
        }
    }
    let want: BTreeSet<u64> = sh.segs.keys().copied().collect();
    if on_disk != want {
        return Audit::bad("segment_files_mismatch", json!({"on_disk": on_disk, "shadow": want}));
    }
    let mut ok = true;
    let mut cursor0 = false;
    let mut zero_slot = false;
    let mut discarded = false;
    let mut torn = false;
    let mut first_bad: Option<Value> = None;
    for (k, frs) in &sh.segs {
        let bytes = match std::fs::read(dir.join(format!("wal.{:06}", k))) {
            Ok(b) => b,
            Err(_) => return Audit::bad("segment_files_mismatch", json!({"unreadable": k})),
        };
        let nslots = bytes.len() / FRAME;
        // a torn tail after the last frame is not a divergence: recovery has to ignore it
        let slack = sh.slack.contains(k) && bytes.len() > frs.len() * FRAME;
        if bytes.len() % FRAME != 0 && !slack {
            ok = false;
            torn = true;
        }
        if nslots != frs.len() && !slack {
            ok = false;
        }
        let mut slot_img: Vec<PObs> = Vec::with_capacity(nslots);
        for s in 0..nslots {
            let b = &bytes[s * FRAME..(s + 1) * FRAME];
            let pay = decode(&b[HDR..]);
            slot_img.push(pay);
            if is_zero(&b[..HDR]) && pay == PObs::Zero {
                zero_slot = true;
            }
            if let PObs::Img(x) = pay {
                if sh.discarded.contains(&x) {
                    discarded = true;
                }
            }
            let good = s < frs.len() && {
                let f = &frs[s];
                let fid = u64::from_le_bytes(b[0..8].try_into().unwrap());
                let pg = u32::from_le_bytes(b[8..12].try_into().unwrap());
                let dbs = u32::from_le_bytes(b[12..16].try_into().unwrap());
                let cs = u64::from_le_bytes(b[24..32].try_into().unwrap());
                fid == f.fid && pg == f.page && dbs == f.db_size && pay == PObs::Img(f.img) && cs == crc64(crc, crc64(crc, 0, &b[..24]), &b[HDR..])
            };
            if !good && !(slack && s >= frs.len()) {
                ok = false;
                if first_bad.is_none() {
                    first_bad = Some(json!({"segment": k, "slot": s, "holds": pobs_str(pay), "shadow_frames_in_segment": frs.len(), "file_len": bytes.len()}));
                }
            }
        }
        for (j, f) in frs.iter().enumerate() {
            if f.open_len > 0 && j >= f.open_len {
                let s = j - f.open_len;
                if s != j && s < nslots && slot_img[s] == PObs::Img(f.img) {
                    cursor0 = true;
                }
            }
        }
        if first_bad.is_none() && !ok {
            first_bad = Some(json!({"segment": k, "file_len": bytes.len(), "shadow_frames_in_segment": frs.len()}));
        }
    }
    if ok {
        return Audit { ok: true, cause: "layout_ok", cursor0: false, zero_slot: false, discarded: false, torn: false, detail: Value::Null };
    }
    let cause = if cursor0 {
        "cursor_at_zero"
    } else if zero_slot && sh.truncs > 0 {
        "zero_hole_after_truncate"
    } else if zero_slot && sh.zero_tail_injected {
        "all_zero_frame_validates"
    } else if zero_slot {
        "zero_slot_in_log"
    } else if discarded && sh.truncs > 0 {
        "buffered_frames_flushed_after_truncate"
    } else if discarded {
        "discarded_frame_in_log"
    } else if torn || sh.garbage_tail_injected {
        "append_after_torn_tail"
    } else {
        "layout_unknown"
    };
    Audit { ok: false, cause, cursor0, zero_slot, discarded, torn: torn || sh.garbage_tail_injected, detail: first_bad.unwrap_or(Value::Null) }
}

// ------------------------------------------------------------------------------------------------
// per-sequence result (collected by worker threads, merged into Ctx by the main thread)

#[derive(Default)]
struct SeqResult {
    idx: u64,
    evals: u64,
    nontrivial: Vec<u64>,
    counters: BTreeMap<String, u64>,
    viols: Vec<(String, String, Value)>,
    sample: Option<Value>,
    cor_sample: Option<Value>,
}

impl SeqResult {
    fn c(&mut self, k: &str, n: u64) {
        *self.counters.entry(k.to_string()).or_insert(0) += n;
    }
}

struct Flags {
    single: bool,
    reopen: bool,
    trunc: bool,
    rotate: bool,
    undo: bool,
    nosync: bool,
    torn: bool,
    dbckpt: bool,
}

struct Seq {
    dir: PathBuf,
    scr: PathBuf,
    wal: Option<Wal>,
    sh: Shadow,
    rng: Rng,
    next_img: u64,
    fl: Flags,
    init_pages: u32,
    src: Option<MmapStorage>,
    rec: RecStore,
    tracker: ShardedDirtyTracker,
    res: SeqResult,
    crc: [u64; 256],
    log: Vec<String>,
    stop: bool,
    read_page_failed: bool,
    compared: u64,
    t_observe: f64,
    t_corrupt: f64,
    deadline: std::time::Instant,
}

const API_NAMES: [&str; 6] = ["write_frame", "write_frame_with_file_id", "write_frames_batch", "write_frames_batch_no_sync", "write_undo_frame", "flush_wal_for_table"];

impl Seq {
    fn fail(&mut self, assertion: &str, sig: String, mut detail: Value) {
        if let Some(o) = detail.as_object_mut() {
            o.insert("ops".into(), json!(self.log));
            o.insert("sequence_index".into(), json!(self.res.idx));
        }
        self.res.viols.push((assertion.to_string(), sig, detail));
        self.stop = true;
    }

    fn api<T>(&mut self, name: &'static str, f: impl FnOnce(&mut Wal) -> eyre::Result<T>) -> Option<T> {
        let mut wal = self.wal.take()?;
        let r = catch(|| f(&mut wal));
        self.wal = Some(wal);
        match r {
            Ok(Ok(v)) => Some(v),
            Ok(Err(e)) => {
                self.fail("api_ok", format!("C03/api_ok/{}", name), json!({"error": format!("{:#}", e)}));
                None
            }
            Err(p) => {
                self.fail("no_panic", format!("C03/no_panic/{}@{}", name, panic_site(&p)), json!({"panic": p}));
                None
            }
        }
    }

    fn new_img(&mut self) -> u64 {
        self.next_img += 1;
        0x1000_0000_0000_0000 | (self.res.idx << 20) | self.next_img
    }

    fn pick_fid(&mut self) -> u64 {
        if self.fl.single {
            0
        } else {
            self.rng.below(NFILES)
        }
    }

    fn pick_dbs(&mut self, page: u32) -> u32 {
        *self.rng.pick(&[0, page + 1, NPAGES, 12])
    }

    fn open_wal(&mut self, first: bool) -> bool {
        let dir = self.dir.clone();
        let use_create = first && self.rng.chance(1, 2);
        let r = catch(|| if use_create { Wal::create(&dir) } else { Wal::open(&dir) });
        match r {
            Ok(Ok(w)) => {
                self.wal = Some(w);
                true
            }
            Ok(Err(e)) => {
                self.fail("api_ok", "C03/api_ok/Wal::open".into(), json!({"error": format!("{:#}", e)}));
                false
            }
            Err(p) => {
                self.fail("no_panic", format!("C03/no_panic/Wal::open@{}", panic_site(&p)), json!({"panic": p}));
                false
            }
        }
    }

    fn gen_op(&mut self) -> Op {
        let f = &self.fl;
        // (weight, op)
        let table: [(u64, u8); 16] = [
            (15, 0),                                                  // write_frame
            (15, 1),                                                  // write_frame_with_file_id
            (12, 2),                                                  // write_frames_batch
            (if f.nosync { 9 } else { 0 }, 3),                        // write_frames_batch_no_sync
            (if f.undo && !f.single { 6 } else { 0 }, 4),             // write_undo_frame
            (7, 5),                                                   // flush_wal_for_table
            (if f.rotate { 6 } else { 0 }, 6),                        // rotate_segment
            (if f.trunc { 5 } else { 0 }, 7),                         // truncate
            (if f.trunc && f.single { 3 } else { 0 }, 8),             // sync + checkpoint(storage)
            (if f.dbckpt { 4 } else { 0 }, 9),                        // rotate + replay closed + remove closed
            (if f.reopen { 9 } else { 0 }, 10),                       // drop + Wal::open
            (if f.nosync { 5 } else { 0 }, 11),                       // set_sync_mode
            (if f.nosync { 2 } else { 0 }, 12),                       // sync
            (3, 13),                                                  // observe
            (if f.torn { 4 } else { 0 }, 14),                         // torn tail + Wal::open
            (if f.trunc && f.single && f.nosync { 1 } else { 0 }, 15), // checkpoint(storage) with frames still buffered
        ];
        let tot: u64 = table.iter().map(|x| x.0).sum();
        let mut r = self.rng.below(tot);
        let mut op = 0u8;
        for (w, o) in table {
            if r < w {
                op = o;
                break;
            }
            r -= w;
        }
        match op {
            0 | 1 => {
                let fid = if op == 0 { 0 } else { self.pick_fid() };
                let page = self.rng.below(NPAGES as u64) as u32;
                let dbs = self.pick_dbs(page);
                Op::Write { api: op, fid, page, dbs }
            }
            2 | 3 => {
                let n = self.rng.usize(1, 4);
                let mut frames = vec![];
                for _ in 0..n {
                    let fid = self.pick_fid();
                    let page = self.rng.below(NPAGES as u64) as u32;
                    let dbs = self.pick_dbs(page);
                    frames.push((fid, page, dbs));
                }
                Op::Batch { nosync: op == 3, frames }
            }
            4 => {
                let page = self.rng.below(NPAGES as u64) as u32;
                Op::Undo { table: self.rng.below(NFILES) as u32, txn: 1 + self.rng.below(5) as u32, page, dbs: self.pick_dbs(page) }
            }
            5 => {
                let fid = self.pick_fid();
                let n = self.rng.usize(1, 3);
                let mut pages = BTreeSet::new();
                for _ in 0..n {
                    pages.insert(self.rng.below(NPAGES as u64) as u32);
                }
                Op::Flush { fid, pages: pages.into_iter().collect() }
            }
            6 => Op::Rotate,
            7 => Op::Truncate { sync_first: !self.fl.nosync || self.rng.chance(1, 2) },
            8 => Op::Checkpoint { sync_first: true },
            9 => Op::DbCkpt,
            10 => Op::Reopen,
            11 => Op::Mode(self.rng.below(3) as u8),
            12 => Op::Sync,
            13 => Op::Observe,
            14 => {
                let kind = self.rng.below(13);
                if kind >= 10 {
                    Op::Torn(Torn::FlipMid { pick: self.rng.usize(0, 64), at: *self.rng.pick(&[0usize, 8, 20, HDR, HDR + 100, FRAME - 1]) })
                } else if kind < 6 {
                    Op::Torn(Torn::Cut { back: self.rng.usize(1, 2 * FRAME) })
                } else if kind < 9 {
                    let len = *self.rng.pick(&[1usize, 31, 32, 33, 5000, FRAME - 1, FRAME, FRAME + 100]);
                    Op::Torn(Torn::Garbage { len, seed: self.rng.next() })
                } else {
                    Op::Torn(Torn::Zeros { len: *self.rng.pick(&[100usize, FRAME, 2 * FRAME + 5]) })
                }
            }
            _ => Op::Checkpoint { sync_first: false },
        }
    }

    fn exec(&mut self, op: Op) {
        match op {
            Op::Write { api, fid, page, dbs } => {
                let fid = if api == 0 { 0 } else { fid };
                let img = self.new_img();
                let data = image(img);
                self.log.push(format!("{}(file={},page={},db_size={}) img={:#x}", API_NAMES[api as usize], fid, page, dbs, img));
                let ok = if api == 0 { self.api("write_frame", |w| w.write_frame(page, dbs, &data)) } else { self.api("write_frame_with_file_id", |w| w.write_frame_with_file_id(page, dbs, &data, fid)) };
                if ok.is_some() {
                    self.sh.write(fid, page, dbs, img, api);
                }
            }
            Op::Batch { nosync, frames } => {
                let api = if nosync { 3 } else { 2 };
                let mut fr = vec![];
                for (fid, page, dbs) in frames {
                    let img = self.new_img();
                    fr.push((page, dbs, image(img), fid, img));
                }
                self.log.push(format!("{}({:?})", API_NAMES[api as usize], fr.iter().map(|x| format!("file={},page={},img={:#x}", x.3, x.0, x.4)).collect::<Vec<_>>()));
                let ok = if !nosync {
                    self.api("write_frames_batch", |w| w.write_frames_batch(fr.iter().map(|x| (x.0, x.1, &x.2[..], x.3))))
                } else {
                    self.api("write_frames_batch_no_sync", |w| w.write_frames_batch_no_sync(fr.iter().map(|x| (x.0, x.1, &x.2[..], x.3))))
                };
                if ok.is_some() {
                    for x in &fr {
                        self.sh.write(x.3, x.0, x.1, x.4, api);
                    }
                }
            }
            Op::Undo { table, txn, page, dbs } => {
                let img = self.new_img();
                let data = image(img);
                self.log.push(format!("write_undo_frame(table={},txn={},page={}) img={:#x}", table, txn, page, img));
                if self.api("write_undo_frame", |w| w.write_undo_frame(table, txn, page, dbs, &data)).is_some() {
                    self.sh.write(UNDO_TAG | ((table as u64) << 32) | txn as u64, page, dbs, img, 4);
                }
            }
            Op::Flush { fid, pages } => {
                // the production write path: dirty pages of one table drained in ascending page order
                if self.src.is_none() {
                    match MmapStorage::create(self.scr.join("src.tbd"), NPAGES) {
                        Ok(s) => self.src = Some(s),
                        Err(_) => return,
                    }
                }
                let pages: BTreeSet<u32> = pages.into_iter().collect();
                let mut imgs = vec![];
                for p in &pages {
                    let img = self.new_img();
                    let data = image(img);
                    self.src.as_mut().unwrap().page_mut(*p).unwrap().copy_from_slice(&data);
                    self.tracker.mark_dirty(fid as u32, *p);
                    imgs.push((*p, img));
                }
                self.log.push(format!("flush_wal_for_table(table={}, dirty={:?})", fid, imgs.iter().map(|x| format!("page={},img={:#x}", x.0, x.1)).collect::<Vec<_>>()));
                let src = self.src.take().unwrap();
                let tracker = std::mem::replace(&mut self.tracker, ShardedDirtyTracker::new());
                let ok = self.api("flush_wal_for_table", |w| WalStoragePerTable::flush_wal_for_table(&tracker, &src, w, fid as u32));
                self.src = Some(src);
                if ok.is_some() {
                    for (p, img) in imgs {
                        self.sh.write(fid, p, NPAGES, img, 5);
                    }
                }
            }
            Op::Rotate => {
                self.log.push("rotate_segment".into());
                if self.api("rotate_segment", |w| w.rotate_segment()).is_some() {
                    self.sh.rotate();
                }
            }
            Op::Truncate { sync_first } => {
                if sync_first {
                    self.log.push("sync".into());
                    if self.api("sync", |w| w.sync()).is_none() {
                        return;
                    }
                }
                self.log.push("truncate".into());
                if self.api("truncate", |w| w.truncate()).is_some() {
                    self.sh.truncate();
                }
            }
            Op::Checkpoint { sync_first } if sync_first || self.sh.reopen_appends > 0 || self.sh.truncs > 0 || self.sh.garbage_tail_injected || self.sh.zero_tail_injected => {
                // (the unsynced variant is only run on histories without reopen-append/truncate/crash
                // steps, so that what it reports cannot be an effect of those)
                self.log.push("sync + checkpoint(storage)".into());
                let au = match self.audit_now() {
                    Some(a) => a,
                    None => return,
                };
                let exp = expect_of(self.sh.frames(), None);
                let ip = self.init_pages;
                let wal = self.wal.take().unwrap();
                let r = observe(&mut self.rec, ip, |st| wal.checkpoint(st));
                self.wal = Some(wal);
                self.res.evals += 1;
                self.compared += exp.count as u64;
                if self.judge("checkpoint", None, &exp, r, &au) {
                    if au.ok {
                        self.sh.truncate();
                    } else {
                        self.masked(&au);
                    }
                }
            }
            Op::Checkpoint { .. } => {
                // frames may still sit in the writer's buffer (non-Full sync mode / no_sync batch).
                // Demanded: no acknowledged frame vanishes - after the checkpoint every page holds its
                // last image either in the storage or through a later recovery of what the log kept.
                self.log.push("checkpoint(storage) without a preceding sync".into());
                let exp = expect_of(self.sh.frames(), None);
                let ip = self.init_pages;
                let wal = self.wal.take().unwrap();
                let r1 = observe(&mut self.rec, ip, |st| wal.checkpoint(st));
                let r2 = observe(&mut self.rec, ip, |st| {
                    wal.sync()?;
                    wal.recover(st)
                });
                self.wal = Some(wal);
                self.res.evals += 1;
                self.compared += exp.count as u64;
                match (r1, r2) {
                    (Ok(o1), Ok(o2)) => {
                        // the truncate inside checkpoint may itself leave a zero hole in front of the
                        // frames it flushes afterwards: that is the truncate defect, not a lost frame
                        let zero_frames = o2.pages.iter().take(ip as usize).any(|p| *p == PObs::Zero) || o1.count + o2.count > exp.count;
                        if zero_frames {
                            self.sh.truncs += 1;
                            self.fail(
                                "never_written_not_replayed",
                                "C03/never_written_not_replayed/zero_hole_after_truncate".into(),
                                json!({"api": "checkpoint, then recover of what the log kept", "frames_applied_by_checkpoint": o1.count, "frames_recovered_from_log_afterwards": o2.count, "frames_in_shadow": exp.count,
                                       "pages_recovered_from_log_afterwards": o2.pages.iter().map(|p| pobs_str(*p)).collect::<Vec<_>>()}),
                            );
                            return;
                        }
                        let mut lost = vec![];
                        for (p, img) in &exp.pages {
                            let a = o1.pages.get(*p as usize).copied();
                            let b = o2.pages.get(*p as usize).copied();
                            let fin = match b {
                                Some(PObs::Untouched) | None => a,
                                x => x,
                            };
                            if fin != Some(PObs::Img(*img)) {
                                lost.push(json!({"page": p, "expected": format!("image {:#x}", img), "storage_after_checkpoint": a.map(pobs_str), "recovered_from_log_afterwards": b.map(pobs_str)}));
                            }
                        }
                        if !lost.is_empty() {
                            self.fail("page_last_valid_image", "C03/page_last_valid_image/checkpoint_drops_buffered_frames".into(), json!({"lost": lost, "frames_applied_by_checkpoint": o1.count, "frames_in_shadow": exp.count}));
                        } else if o1.count == exp.count && o2.count == 0 {
                            self.sh.truncate();
                        } else {
                            // nothing lost, but the log kept frames the shadow cannot place: stop here
                            self.res.c("checkpoint_unflushed_frames_survived_in_log", 1);
                            self.stop = true;
                        }
                    }
                    (Err((true, p)), _) | (_, Err((true, p))) => self.fail("no_panic", format!("C03/no_panic/checkpoint@{}", panic_site(&p)), json!({"panic": p})),
                    (Err((false, e)), _) | (_, Err((false, e))) => self.fail("recover_ok", "C03/recover_ok/checkpoint".into(), json!({"error": e})),
                }
            }
            Op::DbCkpt => {
                // what SharedDatabase::checkpoint does
                self.log.push("rotate_segment + replay_segments_to_storage(closed) + remove_closed_segments".into());
                if self.api("rotate_segment", |w| w.rotate_segment()).is_none() {
                    return;
                }
                self.sh.rotate();
                let closed = match self.api("get_closed_segments", |w| Ok(w.get_closed_segments())) {
                    Some(c) => c,
                    None => return,
                };
                let mut nums = vec![];
                for c in &closed {
                    let n = c.file_name().map(|x| x.to_string_lossy().to_string()).unwrap_or_default();
                    if let Ok(k) = n.get(4..).unwrap_or("").parse::<u64>() {
                        nums.push(k);
                    }
                }
                let mut want = self.sh.closed.clone();
                want.sort();
                let mut got = nums.clone();
                got.sort();
                if want != got {
                    self.fail("closed_segments_listed", "C03/closed_segments_listed/get_closed_segments".into(), json!({"expected": want, "observed": got}));
                    return;
                }
                // the closed segments are flushed (their writers were dropped) and the new one is empty
                let au = audit(&self.dir, &self.sh, &self.crc);
                let files: Vec<u64> = if self.fl.single { vec![0] } else { (0..NFILES).collect() };
                for f in files {
                    let frs: Vec<&Fr> = nums.iter().filter_map(|k| self.sh.segs.get(k)).flat_map(|v| v.iter()).collect();
                    let exp = expect_of(frs.into_iter(), Some(f));
                    let ip = self.init_pages;
                    let r = observe(&mut self.rec, ip, |st| Wal::replay_segments_to_storage(&closed, st, f));
                    self.res.evals += 1;
                    self.compared += exp.count as u64;
                    if !self.judge("replay_segments_to_storage", Some(f), &exp, r, &au) {
                        return;
                    }
                }
                if !au.ok {
                    self.masked(&au);
                    return;
                }
                if self.api("remove_closed_segments", |w| w.remove_closed_segments(&closed)).is_some() {
                    self.sh.remove_segments(&nums);
                    self.sh.closed.clear();
                }
            }
            Op::Reopen => {
                self.log.push("drop + Wal::open".into());
                self.wal = None;
                if self.open_wal(false) {
                    self.sh.reopen();
                }
            }
            Op::Mode(m) => {
                let mode = [SyncMode::Full, SyncMode::Normal, SyncMode::Off][m as usize % 3];
                self.log.push(format!("set_sync_mode({:?})", mode));
                self.api("set_sync_mode", |w| {
                    w.set_sync_mode(mode);
                    Ok(())
                });
            }
            Op::Sync => {
                self.log.push("sync".into());
                self.api("sync", |w| w.sync());
            }
            Op::Observe => {
                self.log.push("observe".into());
                self.check_state(false);
            }
            Op::Torn(t) => {
                // crash leaving a torn tail on the current segment, then reopen
                self.wal = None;
                let path = self.dir.join(format!("wal.{:06}", self.sh.cur));
                let len = std::fs::metadata(&path).map(|m| m.len()).unwrap_or(0) as usize;
                let n = self.sh.segs[&self.sh.cur].len();
                let au = audit(&self.dir, &self.sh, &self.crc);
                if !au.ok {
                    // the log is already not what was written; let the next observation report it
                    self.log.push("drop + Wal::open (crash step skipped: log bytes already differ from what was written)".into());
                    if self.open_wal(false) {
                        self.sh.reopen();
                    }
                    self.check_state(false);
                    return;
                }
                let cur = self.sh.cur;
                match t {
                    Torn::Cut { back } if n > 0 => {
                        let at = len.saturating_sub(back.max(1));
                        let keep = (at / FRAME).min(n);
                        self.log.push(format!("crash: segment {} cut from {} to {} bytes ({} whole frames left) + Wal::open", cur, len, at, keep));
                        let f = std::fs::OpenOptions::new().write(true).open(&path).unwrap();
                        f.set_len(at as u64).unwrap();
                        let gone: Vec<Fr> = self.sh.segs.get_mut(&cur).unwrap().drain(keep..).collect();
                        for g in gone {
                            self.sh.discarded.insert(g.img);
                        }
                        if at % FRAME != 0 {
                            self.sh.garbage_tail_injected = true;
                            self.sh.slack.insert(cur);
                        }
                    }
                    Torn::Cut { .. } => {
                        self.log.push("crash (nothing to cut) + Wal::open".into());
                    }
                    Torn::FlipMid { pick, at } if n >= 2 && len >= n * FRAME => {
                        let i = pick % (n - 1);
                        let off = i * FRAME + at.min(FRAME - 1);
                        let mut bytes = std::fs::read(&path).unwrap();
                        bytes[off] ^= 0x5A;
                        std::fs::write(&path, &bytes).unwrap();
                        self.log.push(format!("crash: byte {} of frame {} of segment {} damaged ({} intact frames behind it) + Wal::open", at.min(FRAME - 1), i, cur, n - 1 - i));
                        let gone: Vec<Fr> = self.sh.segs.get_mut(&cur).unwrap().drain(i..).collect();
                        for g in gone {
                            self.sh.discarded.insert(g.img);
                        }
                        // what lies behind the damaged frame is no longer part of the log; an implementation may
                        // leave those bytes in the file as long as they are never replayed
                        self.sh.garbage_tail_injected = true;
                        self.sh.slack.insert(cur);
                        self.res.c("mid_log_damage_steps", 1);
                    }
                    Torn::FlipMid { .. } => {
                        self.log.push("crash (fewer than two frames: nothing to damage) + Wal::open".into());
                    }
                    Torn::Garbage { len: l, seed } => {
                        let g = Rng::new(seed).bytes(l);
                        self.log.push(format!("crash: {} random bytes after the last frame of segment {} + Wal::open", l, cur));
                        use std::io::Write;
                        let mut f = std::fs::OpenOptions::new().append(true).open(&path).unwrap();
                        f.write_all(&g).unwrap();
                        self.sh.garbage_tail_injected = true;
                        self.sh.slack.insert(cur);
                    }
                    Torn::Zeros { len: l } => {
                        self.log.push(format!("crash: {} zero bytes after the last frame of segment {} + Wal::open", l, cur));
                        use std::io::Write;
                        let mut f = std::fs::OpenOptions::new().append(true).open(&path).unwrap();
                        f.write_all(&vec![0u8; l]).unwrap();
                        if l >= FRAME {
                            self.sh.zero_tail_injected = true;
                        } else {
                            self.sh.garbage_tail_injected = true;
                            self.sh.slack.insert(cur);
                        }
                    }
                }
                self.res.c("torn_reopen_steps", 1);
                if self.open_wal(false) {
                    self.sh.reopen();
                }
            }
        }
    }

    /// returns true if the observation equals the expectation
    fn judge(&mut self, api: &str, fid: Option<u64>, exp: &Exp, r: Result<Obs, (bool, String)>, au: &Audit) -> bool {
        let audit_detail = au.detail.clone();
        match r {
            Err((true, p)) => {
                self.fail("no_panic", format!("C03/no_panic/{}@{}", api, panic_site(&p)), json!({"panic": p, "api": api}));
                false
            }
            Err((false, e)) => {
                self.fail("recover_ok", format!("C03/recover_ok/{}/{}", api, au.cause), json!({"error": e, "api": api, "audit": audit_detail}));
                false
            }
            Ok(obs) => {
                let d = compare(exp, &obs, self.init_pages, fid, &self.sh.all, &self.sh.discarded);
                if d.is_empty() {
                    return true;
                }
                let w = worst(&d);
                let cause = au.cause_for(w, &self.sh);
                let assertion = match w {
                    "count_high" if cause == "buffered_frames_flushed_after_truncate" || cause == "discarded_frame_in_log" => "page_last_valid_image",
                    "zero" | "garbled" | "unknown_image" | "count_high" => "never_written_not_replayed",
                    "resurrected" | "misplaced" | "spurious" => "page_last_valid_image",
                    _ => {
                        if self.sh.reopen_appends > 0 && (cause == "cursor_at_zero" || cause == "append_after_torn_tail") {
                            "reopen_append_preserves_frames"
                        } else {
                            "page_last_valid_image"
                        }
                    }
                };
                let cause = if cause == "layout_ok" { format!("log_bytes_ok_{}_wrong", api) } else { cause.to_string() };
                self.fail(
                    assertion,
                    format!("C03/{}/{}", assertion, cause),
                    json!({"api": api, "file_id": fid, "mismatch_kind": w, "diffs": diff_json(&d), "frames_in_shadow": self.sh.total(), "audit": audit_detail, "storage_initial_pages": self.init_pages}),
                );
                false
            }
        }
    }

    /// flush, audit the bytes, run every recovery API and read_page against the shadow
    fn check_state(&mut self, final_: bool) {
        if self.stop || self.wal.is_none() {
            return;
        }
        let t0 = std::time::Instant::now();
        self.check_state_inner(final_);
        self.t_observe += t0.elapsed().as_secs_f64();
    }

    fn check_state_inner(&mut self, final_: bool) {
        if self.api("sync", |w| w.sync()).is_none() {
            return;
        }
        let au = audit(&self.dir, &self.sh, &self.crc);
        let cause = au.cause;
        let files: Vec<u64> = if self.fl.single { vec![0] } else { (0..NFILES).collect() };
        let seg_paths: Vec<PathBuf> = self.sh.segs.keys().map(|n| self.dir.join(format!("wal.{:06}", n))).collect();
        let ip = self.init_pages;
        // final observation: every file through one API (alternating) and one random file through both;
        // intermediate observations: two random files, one API each
        let both = self.rng.below(files.len() as u64) as usize;
        let skip = if final_ || files.len() == 1 { usize::MAX } else { self.rng.below(files.len() as u64) as usize };
        for (fi, &f) in files.iter().enumerate() {
            if !final_ && au.ok && files.len() > 1 && (fi == skip || fi == (skip + 1) % files.len()) {
                continue;
            }
            let exp = expect_of(self.sh.frames(), Some(f));
            let apis: Vec<u8> = if final_ && fi == both { vec![0, 1] } else { vec![((fi as u64 + self.res.idx) % 2) as u8] };
            for a in apis {
                let wal = self.wal.take().unwrap();
                let (name, r) = if a == 0 { ("recover_for_file", observe(&mut self.rec, ip, |st| wal.recover_for_file(st, f))) } else { ("replay_segments_to_storage", observe(&mut self.rec, ip, |st| Wal::replay_segments_to_storage(&seg_paths, st, f))) };
                self.wal = Some(wal);
                self.res.evals += 1;
                self.compared += exp.count as u64;
                if !self.judge(name, Some(f), &exp, r, &au) {
                    return;
                }
            }
        }
        {
            let wal = self.wal.take().unwrap();
            let r = observe(&mut self.rec, ip, |st| wal.recover(st));
            self.wal = Some(wal);
            self.res.evals += 1;
            if self.fl.single {
                let exp = expect_of(self.sh.frames(), None);
                if !self.judge("recover", None, &exp, r, &au) {
                    return;
                }
            } else if let Err((true, p)) = r {
                // multi-file log through the file-id-blind `recover`: only totality is demanded
                self.fail("no_panic", format!("C03/no_panic/recover@{}", panic_site(&p)), json!({"panic": p}));
                return;
            }
        }
        // read_page: newest frame of every page among the existing segments
        'rp: for &f in &files {
            for p in 0..NPAGES {
                let want = self.sh.last(f, p);
                let wal = self.wal.take().unwrap();
                let r = catch(|| wal.read_page(f, p));
                self.wal = Some(wal);
                self.res.evals += 1;
                let (good, got) = match &r {
                    Ok(Ok(Some(b))) => {
                        let o = if b.len() == PAGE { decode(b) } else { PObs::Garbled };
                        (want.map(|w| o == PObs::Img(w.0)).unwrap_or(false), pobs_str(o))
                    }
                    Ok(Ok(None)) => (want.is_none(), "None".to_string()),
                    Ok(Err(e)) => (false, format!("Err({:#})", e)),
                    Err(pn) => {
                        let pn = pn.clone();
                        self.fail("no_panic", format!("C03/no_panic/read_page@{}", panic_site(&pn)), json!({"panic": pn}));
                        return;
                    }
                };
                if !good {
                    let c = if !au.ok {
                        cause.to_string()
                    } else if self.sh.opened_by_open && want.map(|w| w.1 < self.sh.open_seg).unwrap_or(false) {
                        "older_segments_not_indexed_on_open".to_string()
                    } else if self.sh.garbage_tail_injected && self.sh.opened_by_open {
                        "index_offsets_include_torn_tail".to_string()
                    } else {
                        "log_bytes_ok_read_page_wrong".to_string()
                    };
                    // recorded, but (when the log bytes are right) the sequence goes on: read_page is a
                    // side observation and must not keep multi-segment logs out of the corruption phase
                    let stop = !au.ok;
                    self.fail(
                        "read_page_latest",
                        format!("C03/read_page_latest/{}", c),
                        json!({"file_id": f, "page": p, "expected": want.map(|w| format!("image {:#x} in segment {}", w.0, w.1)), "observed": got, "segment_open_at_Wal_open": self.sh.open_seg, "audit": au.detail}),
                    );
                    self.stop = stop;
                    self.read_page_failed = true;
                    break 'rp;
                }
            }
        }
        if !au.ok {
            self.masked(&au);
        }
    }

    /// bytes differ from what was written but no recovery API shows it on this state: stop the
    /// sequence (the shadow no longer describes the files), record, no verdict
    fn masked(&mut self, au: &Audit) {
        self.res.c(&format!("layout_divergence_without_visible_effect/{}", au.cause), 1);
        self.stop = true;
    }

    fn audit_now(&mut self) -> Option<Audit> {
        self.api("sync", |w| w.sync())?;
        Some(audit(&self.dir, &self.sh, &self.crc))
    }

    // --------------------------------------------------------------------------------------------
    // corruption phase on an audit-clean log

    fn corrupt(&mut self, samples: usize, seq_hash: u64) {
        let cdir = self.scr.join("cor");
        let _ = std::fs::remove_dir_all(&cdir);
        std::fs::create_dir_all(&cdir).unwrap();
        let segs: Vec<(u64, Vec<u8>, Vec<Fr>)> = self.sh.segs.iter().map(|(k, v)| (*k, std::fs::read(self.dir.join(format!("wal.{:06}", k))).unwrap(), v.clone())).collect();
        let paths: Vec<PathBuf> = segs.iter().map(|s| cdir.join(format!("wal.{:06}", s.0))).collect();
        for (s, p) in segs.iter().zip(&paths) {
            std::fs::write(p, &s.1).unwrap();
        }
        // (segment index, kind, mutation); truncation points in descending order so the file only shrinks
        let mut cases: Vec<(usize, String, Mutn)> = vec![];
        let mut boundaries = 0u64;
        for (si, s) in segs.iter().enumerate() {
            let mut cuts = BTreeSet::new();
            for b in 0..=s.2.len() {
                boundaries += 1;
                for d in DELTAS {
                    let at = (b * FRAME) as i64 + d;
                    if at >= 0 && at as usize <= s.1.len() {
                        cuts.insert(at as usize);
                    }
                }
            }
            for at in cuts.into_iter().rev() {
                cases.push((si, format!("cut@{}", at), Mutn::Cut(at)));
            }
        }
        self.res.c("corruption/frame_boundaries_swept", boundaries);
        let nonempty: Vec<usize> = (0..segs.len()).filter(|i| !segs[*i].2.is_empty()).collect();
        let last = segs.len() - 1;
        for _ in 0..samples {
            let k = self.rng.below(10);
            if k < 6 && !nonempty.is_empty() {
                let si = *self.rng.pick(&nonempty);
                let orig = &segs[si].1;
                let fr = self.rng.usize(0, segs[si].2.len() - 1);
                let off = fr * FRAME + if self.rng.chance(1, 3) { self.rng.usize(0, HDR - 1) } else { self.rng.usize(HDR, FRAME - 1) };
                match k {
                    0 | 1 | 2 => {
                        let bit = 1u8 << self.rng.below(8);
                        let x = orig[off] ^ if self.rng.chance(1, 2) { bit } else { 0xFF };
                        cases.push((si, format!("flip@{}", off), Mutn::Patch(off, vec![x])));
                    }
                    3 | 4 => {
                        let start = off & !4095;
                        let end = (start + 4096).min(orig.len());
                        cases.push((si, format!("zero4k@{}", start), Mutn::Patch(start, vec![0u8; end - start])));
                    }
                    _ => {
                        // zero from a point to the end of the file (lost tail of a preallocated/extended file)
                        let start = if self.rng.chance(1, 2) { fr * FRAME } else { off };
                        cases.push((si, format!("zerotail@{}{}", start, if start % FRAME == 0 { "(frame-aligned)" } else { "" }), Mutn::Patch(start, vec![0u8; orig.len() - start])));
                    }
                }
            } else if k < 8 {
                let l = *self.rng.pick(&[1usize, 32, 4096, FRAME - 1, FRAME, FRAME + 1, 2 * FRAME]);
                cases.push((last, format!("append_garbage({})", l), Mutn::Append(self.rng.bytes(l))));
            } else {
                let l = *self.rng.pick(&[1usize, 32, 4096, FRAME - 1, FRAME, FRAME + 1, 2 * FRAME]);
                cases.push((last, format!("append_zeros({})", l), Mutn::Append(vec![0u8; l])));
            }
        }
        let files: Vec<u64> = if self.fl.single { vec![0] } else { (0..NFILES).collect() };
        let ip = self.init_pages;
        // what each file in cdir holds: None = original bytes, Some(l) = original cut to (at most) l bytes
        let mut disk: Vec<Option<usize>> = vec![None; segs.len()];
        let zero_fr = Fr { fid: 0, page: 0, db_size: 0, img: 0, api: 0, open_len: 0 };
        let flen = |p: &Path| std::fs::metadata(p).map(|m| m.len() as usize).unwrap_or(0);
        for (ci, (si, kind, mutn)) in cases.iter().enumerate() {
            use std::os::unix::fs::FileExt;
            if std::time::Instant::now() > self.deadline {
                // wall budget: recorded, not a verdict (the sweep of this file is then not exhaustive)
                self.res.c("corruption/cases_skipped_at_deadline", (cases.len() - ci) as u64);
                break;
            }
            for d in 0..segs.len() {
                if d != *si && disk[d].is_some() {
                    std::fs::write(&paths[d], &segs[d].1).unwrap();
                    disk[d] = None;
                }
            }
            let orig = &segs[*si].1;
            let m: Vec<u8> = match mutn {
                Mutn::Cut(at) => {
                    if flen(&paths[*si]) >= *at {
                        std::fs::OpenOptions::new().write(true).open(&paths[*si]).unwrap().set_len(*at as u64).unwrap();
                    } else {
                        std::fs::write(&paths[*si], &orig[..*at]).unwrap();
                    }
                    disk[*si] = Some(*at);
                    orig[..*at].to_vec()
                }
                Mutn::Patch(off, b) => {
                    if disk[*si].is_some() {
                        std::fs::write(&paths[*si], orig).unwrap();
                        disk[*si] = None;
                    }
                    std::fs::OpenOptions::new().write(true).open(&paths[*si]).unwrap().write_all_at(b, *off as u64).unwrap();
                    let mut m = orig.clone();
                    m[*off..*off + b.len()].copy_from_slice(b);
                    m
                }
                Mutn::Append(b) => {
                    if disk[*si].is_some() {
                        std::fs::write(&paths[*si], orig).unwrap();
                        disk[*si] = None;
                    }
                    std::fs::OpenOptions::new().write(true).open(&paths[*si]).unwrap().write_all_at(b, orig.len() as u64).unwrap();
                    let mut m = orig.clone();
                    m.extend_from_slice(b);
                    m
                }
            };
            debug_assert!(ci > 0 || flen(&paths[*si]) == m.len());
            let m = &m;
            let orig = &segs[*si].1;
            let n = segs[*si].2.len();
            let mut v = 0usize;
            while v < n && m.len() >= (v + 1) * FRAME && m[v * FRAME..(v + 1) * FRAME] == orig[v * FRAME..(v + 1) * FRAME] {
                v += 1;
            }
            let mut z = 0usize;
            while m.len() >= (v + z + 1) * FRAME && is_zero(&m[(v + z) * FRAME..(v + z + 1) * FRAME]) {
                z += 1;
            }
            // strict: global prefix; e1: every segment contributes its own prefix; e2/e3: all-zero slots count as frames
            let mut strict: Vec<Fr> = vec![];
            let mut e1: Vec<Fr> = vec![];
            let mut e2: Vec<Fr> = vec![];
            let mut e3: Vec<Fr> = vec![];
            let broken = v < n;
            for (i, s) in segs.iter().enumerate() {
                if i < *si {
                    for l in [&mut strict, &mut e1, &mut e2, &mut e3] {
                        l.extend(s.2.iter().cloned());
                    }
                } else if i == *si {
                    for l in [&mut strict, &mut e1, &mut e2, &mut e3] {
                        l.extend(s.2[..v].iter().cloned());
                    }
                    for _ in 0..z {
                        e2.push(zero_fr.clone());
                        e3.push(zero_fr.clone());
                    }
                } else {
                    if !broken {
                        strict.extend(s.2.iter().cloned());
                        e2.extend(s.2.iter().cloned());
                    }
                    e1.extend(s.2.iter().cloned());
                    e3.extend(s.2.iter().cloned());
                }
            }
            let via_open = ci % 2 == 0;
            let mut hard_fail = false;
            let wal = if via_open {
                match catch(|| Wal::open(&cdir)) {
                    Ok(Ok(w)) => Some(w),
                    Ok(Err(e)) => {
                        self.fail_cor("recover_ok", format!("C03/recover_ok/Wal::open/corrupt_{}", kind_class(kind)), json!({"error": format!("{:#}", e), "corruption": kind, "segment": segs[*si].0}));
                        hard_fail = true;
                        None
                    }
                    Err(p) => {
                        self.fail_cor("no_panic", format!("C03/no_panic/Wal::open@{}", panic_site(&p)), json!({"panic": p, "corruption": kind, "segment": segs[*si].0}));
                        hard_fail = true;
                        None
                    }
                }
            } else {
                None
            };
            let mut verdicts = [true; 4]; // matches strict, e1, e2, e3
            let mut first_diff: Option<Value> = None;
            let mut apis: Vec<(Option<u64>, &str)> = files.iter().map(|f| (Some(*f), if via_open { "recover_for_file" } else { "replay_segments_to_storage" })).collect();
            if via_open && self.fl.single {
                apis.push((None, "recover"));
            }
            for (f, api) in apis {
                if hard_fail {
                    break;
                }
                let r = match (&wal, f) {
                    (Some(w), Some(f)) => observe(&mut self.rec, ip, |st| w.recover_for_file(st, f)),
                    (Some(w), None) => observe(&mut self.rec, ip, |st| w.recover(st)),
                    (None, f) => observe(&mut self.rec, ip, |st| Wal::replay_segments_to_storage(&paths, st, f.unwrap_or(0))),
                };
                self.res.evals += 1;
                match r {
                    Err((true, p)) => {
                        self.fail_cor("no_panic", format!("C03/no_panic/{}@{}", api, panic_site(&p)), json!({"panic": p, "corruption": kind, "segment": segs[*si].0}));
                        hard_fail = true;
                        break;
                    }
                    Err((false, e)) => {
                        self.fail_cor("recover_ok", format!("C03/recover_ok/{}/corrupt_{}", api, kind_class(kind)), json!({"error": e, "corruption": kind, "segment": segs[*si].0}));
                        hard_fail = true;
                        break;
                    }
                    Ok(obs) => {
                        for (i, l) in [&strict, &e1, &e2, &e3].iter().enumerate() {
                            if !verdicts[i] {
                                continue;
                            }
                            let exp = expect_of(l.iter(), f);
                            let d = compare(&exp, &obs, self.init_pages, f, &self.sh.all, &self.sh.discarded);
                            if !d.is_empty() {
                                verdicts[i] = false;
                                if i == 0 && first_diff.is_none() {
                                    first_diff = Some(json!({"api": api, "file_id": f, "diffs": diff_json(&d)}));
                                }
                            }
                        }
                    }
                }
            }
            drop(wal);
            // undo in place (a Wal::open that trims invalid tails may have shortened the file: then rewrite it)
            match mutn {
                Mutn::Cut(_) => {}
                Mutn::Patch(off, b) => {
                    if flen(&paths[*si]) == orig.len() {
                        std::fs::OpenOptions::new().write(true).open(&paths[*si]).unwrap().write_all_at(&orig[*off..*off + b.len()], *off as u64).unwrap();
                    } else {
                        std::fs::write(&paths[*si], orig).unwrap();
                    }
                }
                Mutn::Append(b) => {
                    if flen(&paths[*si]) == orig.len() + b.len() {
                        std::fs::OpenOptions::new().write(true).open(&paths[*si]).unwrap().set_len(orig.len() as u64).unwrap();
                    } else {
                        std::fs::write(&paths[*si], orig).unwrap();
                    }
                }
            }
            if hard_fail {
                continue;
            }
            self.res.c(&format!("corruption/{}", kind_class(kind)), 1);
            self.res.nontrivial.push(fnv(format!("{}/{}/{}", seq_hash, si, kind).as_bytes()));
            if self.res.cor_sample.is_none() && broken {
                self.res.cor_sample = Some(json!({"sequence_index": self.res.idx, "segments": segs.iter().map(|s| json!({"segment": s.0, "frames": s.2.len()})).collect::<Vec<_>>(), "corruption": kind, "of_segment": segs[*si].0, "intact_leading_frames": v, "held": verdicts[0]}));
            }
            if verdicts[0] {
                continue;
            }
            let det = json!({
                "corruption": kind, "segment": segs[*si].0, "segments": segs.iter().map(|s| json!({"segment": s.0, "frames": s.2.iter().map(|f| format!("file={},page={},img={:#x}", f.fid, f.page, f.img)).collect::<Vec<_>>()})).collect::<Vec<_>>(),
                "intact_leading_frames_of_corrupted_segment": v, "all_zero_slots_after_them": z, "observed_via": if via_open { "Wal::open + recover_for_file" } else { "replay_segments_to_storage" },
                "first_difference_from_longest_intact_prefix": first_diff,
            });
            if verdicts[2] {
                self.fail_cor("never_written_not_replayed", "C03/never_written_not_replayed/all_zero_frame_validates".into(), det);
            } else if verdicts[1] {
                let clean = kind.starts_with("cut@") && m.len() % FRAME == 0;
                self.fail_cor("no_frame_after_invalid", format!("C03/no_frame_after_invalid/next_segment_replayed_after_{}", if clean { "clean_cut" } else { "bad_frame" }), det);
            } else if verdicts[3] {
                self.fail_cor("never_written_not_replayed", "C03/never_written_not_replayed/all_zero_frame_validates".into(), det);
            } else {
                self.fail_cor("prefix_exact", format!("C03/prefix_exact/corrupt_{}", kind_class(kind)), det);
            }
        }
    }

    fn fail_cor(&mut self, assertion: &str, sig: String, mut detail: Value) {
        if let Some(o) = detail.as_object_mut() {
            o.insert("ops".into(), json!(self.log));
            o.insert("sequence_index".into(), json!(self.res.idx));
        }
        self.res.viols.push((assertion.to_string(), sig, detail));
    }
}

enum Torn {
    /// remove `back` bytes from the end of the current segment file
    Cut { back: usize },
    Garbage { len: usize, seed: u64 },
    Zeros { len: usize },
    /// damage one byte of a frame that is NOT the last one of the current segment (media error / torn
    /// write in the middle): the frames after it are intact on disk but lie behind an invalid frame
    FlipMid { pick: usize, at: usize },
}

enum Op {
    Write { api: u8, fid: u64, page: u32, dbs: u32 },
    Batch { nosync: bool, frames: Vec<(u64, u32, u32)> },
    Undo { table: u32, txn: u32, page: u32, dbs: u32 },
    Flush { fid: u64, pages: Vec<u32> },
    Rotate,
    Truncate { sync_first: bool },
    Checkpoint { sync_first: bool },
    DbCkpt,
    Reopen,
    Mode(u8),
    Sync,
    Observe,
    Torn(Torn),
}

enum Mutn {
    Cut(usize),
    Patch(usize, Vec<u8>),
    Append(Vec<u8>),
}

fn kind_class(kind: &str) -> &str {
    kind.split(|c| c == '@' || c == '(').next().unwrap_or(kind)
}

fn new_seq(idx: u64, rng: Rng, base: &Path, lane: &str, fl: Flags, init_pages: u32, crc: &[u64; 256], deadline: std::time::Instant) -> Seq {
    let scr = base.join(format!("lane{}", lane));
    let dir = scr.join("wal");
    let _ = std::fs::remove_dir_all(&scr);
    std::fs::create_dir_all(&scr).unwrap();
    let rec_path = scr.join("rec.tbd");
    let mut s = Seq {
        dir,
        scr,
        wal: None,
        sh: Shadow::new(),
        rng,
        next_img: 0,
        fl,
        init_pages,
        src: None,
        rec: RecStore { path: rec_path, st: None },
        tracker: ShardedDirtyTracker::new(),
        res: SeqResult { idx, ..Default::default() },
        crc: *crc,
        log: vec![],
        stop: false,
        read_page_failed: false,
        compared: 0,
        t_observe: 0.0,
        t_corrupt: 0.0,
        deadline,
    };
    s.log.push(format!(
        "flags: single_file={} reopen={} truncate={} rotate={} undo={} nosync={} torn={} db_checkpoint={} storage_initial_pages={}",
        s.fl.single, s.fl.reopen, s.fl.trunc, s.fl.rotate, s.fl.undo, s.fl.nosync, s.fl.torn, s.fl.dbckpt, init_pages
    ));
    s
}

/// Fixed minimal histories, one per defect class seen on the unchanged tree, so that every run
/// (any seed) exercises each of them; they go through exactly the same executor and oracle.
fn scenarios() -> Vec<(&'static str, bool, bool, Vec<Op>)> {
    let w = |fid: u64, page: u32| Op::Write { api: 1, fid, page, dbs: NPAGES };
    // (name, single_file, corruption sweep afterwards, ops)
    vec![
        ("reopen_then_append", false, false, vec![w(1, 1), w(1, 2), Op::Reopen, w(1, 3)]),
        ("truncate_then_append", false, false, vec![w(1, 1), w(1, 2), Op::Truncate { sync_first: false }, w(1, 3)]),
        ("zero_filled_tail_after_crash", false, false, vec![w(1, 1), Op::Torn(Torn::Zeros { len: 2 * FRAME })]),
        ("truncate_with_buffered_frames", false, false, vec![Op::Mode(1), w(1, 1), Op::Truncate { sync_first: false }]),
        ("checkpoint_with_buffered_frames", true, false, vec![Op::Mode(1), Op::Write { api: 0, fid: 0, page: 1, dbs: NPAGES }, Op::Checkpoint { sync_first: false }]),
        ("torn_tail_then_reopen_and_append", false, false, vec![w(1, 1), w(1, 2), Op::Torn(Torn::Cut { back: FRAME - 100 }), w(1, 3), Op::Observe]),
        ("mid_log_damage_then_reopen_and_append_fewer", false, false, vec![w(1, 1), w(1, 2), w(2, 1), w(2, 2), w(1, 3), Op::Torn(Torn::FlipMid { pick: 1, at: HDR + 100 }), w(1, 4), Op::Observe, Op::Reopen, Op::Observe]),
        ("two_segments_swept", false, true, vec![w(1, 1), w(2, 2), Op::Rotate, w(1, 3), w(3, 1)]),
    ]
}

fn run_scenario(k: usize, base: &Path, crc: &[u64; 256], deadline: std::time::Instant) -> SeqResult {
    let t_seq = std::time::Instant::now();
    let (name, single, sweep, ops) = scenarios().into_iter().nth(k).unwrap();
    let fl = Flags { single, reopen: true, trunc: true, rotate: true, undo: false, nosync: true, torn: true, dbckpt: false };
    let mut s = new_seq(1_000_000 + k as u64, Rng::new(k as u64), base, "scen", fl, NPAGES, crc, deadline);
    s.log.push(format!("scenario: {}", name));
    if !s.open_wal(true) {
        return s.res;
    }
    for op in ops {
        if s.stop {
            break;
        }
        s.exec(op);
    }
    s.res.c("scenarios", 1);
    finish_seq(s, t_seq, if sweep { (1, 1) } else { (0, 1) }, 12, k == 0)
}

fn run_sequence(idx: u64, seed: u64, base: &Path, lane: u64, cor_num: u64, cor_den: u64, cor_samples: usize, crc: &[u64; 256], deadline: std::time::Instant) -> SeqResult {
    let t_seq = std::time::Instant::now();
    let mut rng = Rng::new(seed);
    let fl = Flags {
        single: rng.chance(3, 10),
        reopen: rng.chance(45, 100),
        trunc: rng.chance(40, 100),
        rotate: rng.chance(50, 100),
        undo: rng.chance(20, 100),
        nosync: rng.chance(40, 100),
        torn: rng.chance(15, 100),
        dbckpt: rng.chance(25, 100),
    };
    let init_pages = if rng.chance(1, 4) { 1 + rng.below(NPAGES as u64) as u32 } else { NPAGES };
    let nops = rng.usize(8, 40);
    let mut s = new_seq(idx, rng, base, &lane.to_string(), fl, init_pages, crc, deadline);
    if !s.open_wal(true) {
        return s.res;
    }
    if !s.rng.chance(1, 4) {
        // fsync per frame (the default mode) costs ~10 ms here; most sequences run without it
        s.api("set_sync_mode", |w| {
            w.set_sync_mode(SyncMode::Normal);
            Ok(())
        });
        s.log.push("set_sync_mode(Normal)".into());
    }
    for _ in 0..nops {
        if s.stop {
            break;
        }
        let op = s.gen_op();
        s.exec(op);
    }
    s.res.c("sequences", 1);
    finish_seq(s, t_seq, (cor_num, cor_den), cor_samples, idx < 3)
}

fn finish_seq(mut s: Seq, t_seq: std::time::Instant, cor: (u64, u64), cor_samples: usize, sample: bool) -> SeqResult {
    let idx = s.res.idx;
    let (cor_num, cor_den) = cor;
    if !s.stop {
        // final: drop (flushes), reopen as a recovering process would, observe everything
        s.log.push("drop + Wal::open + observe".into());
        s.wal = None;
        if s.open_wal(false) {
            s.sh.reopen();
            s.check_state(true);
        }
    }
    let tags: String = s.log.iter().map(|l| l.split(|c| c == '(' || c == ' ').next().unwrap_or("").to_string()).collect::<Vec<_>>().join(",");
    let seq_hash = fnv(tags.as_bytes());
    if s.compared > 0 {
        s.res.nontrivial.push(seq_hash);
    }
    s.res.c("frames_written", s.next_img);
    if s.sh.reopen_appends > 0 {
        s.res.c("sequences_with_append_after_reopen", 1);
    }
    if sample {
        s.res.sample = Some(json!({"sequence_index": idx, "ops": s.log, "frames_in_final_log": s.sh.total(), "segments": s.sh.segs.len(), "violations": s.res.viols.len()}));
    }
    let clean = !s.stop && s.res.viols.iter().all(|v| v.0 == "read_page_latest");
    if clean {
        s.res.c("sequences_clean_to_the_end", 1);
    }
    if clean && s.sh.total() > 0 && s.rng.chance(cor_num, cor_den) {
        s.wal = None;
        s.res.c("corruption/sequences_swept", 1);
        let t0 = std::time::Instant::now();
        s.corrupt(cor_samples, seq_hash);
        s.t_corrupt = t0.elapsed().as_secs_f64();
    }
    s.res.c("cpu_ms/observe", (s.t_observe * 1000.0) as u64);
    s.res.c("cpu_ms/corrupt", (s.t_corrupt * 1000.0) as u64);
    s.res.c("cpu_ms/sequence_total", (t_seq.elapsed().as_secs_f64() * 1000.0) as u64);
    s.wal = None;
    s.src = None;
    s.res
}

/// Miri: no mmap. Drive the Wal with a few frames and read the segment back with the public
/// sequential reader (`WalSegment::read_frame`), the function every recovery path uses.
fn run_miri(ctx: &mut Ctx, base: &Path, rng: &mut Rng) {
    for i in 0..3u64 {
        let dir = base.join(format!("miri{}", i));
        let mut expected: Vec<(u64, u32, u64)> = vec![];
        let r = catch(|| -> eyre::Result<Vec<(u64, u32, PObs)>> {
            let wal = Wal::create(&dir)?;
            wal.set_sync_mode(SyncMode::Off);
            let n = 1 + rng.below(3);
            for k in 0..n {
                let img = 0x2000_0000_0000_0000 | (i << 8) | k;
                let fid = rng.below(NFILES);
                let page = rng.below(NPAGES as u64) as u32;
                wal.write_frame_with_file_id(page, NPAGES, &image(img), fid)?;
                expected.push((fid, page, img));
            }
            drop(wal);
            if i > 0 {
                let wal = Wal::open(&dir)?;
                let img = 0x2000_0000_0000_0000 | (i << 8) | 0xF0;
                wal.write_frame_with_file_id(1, NPAGES, &image(img), 1)?;
                expected.push((1, 1, img));
                drop(wal);
            }
            let mut seg = WalSegment::open(&dir.join("wal.000001"), 1)?;
            let mut got = vec![];
            while let Ok((h, data)) = seg.read_frame() {
                got.push((h.file_id, h.page_no, decode(&data)));
            }
            Ok(got)
        });
        ctx.eval();
        match r {
            Ok(Ok(got)) => {
                let want: Vec<(u64, u32, PObs)> = expected.iter().map(|e| (e.0, e.1, PObs::Img(e.2))).collect();
                ctx.nontrivial(fnv(format!("miri{}/{}", i, want.len()).as_bytes()));
                if got != want {
                    let sig = if i > 0 { "C03/reopen_append_preserves_frames/cursor_at_zero" } else { "C03/page_last_valid_image/log_bytes_ok_read_frame_wrong" };
                    ctx.violation(sig.split('/').nth(1).unwrap(), sig, json!({"expected": format!("{:?}", want), "observed": format!("{:?}", got)}));
                }
            }
            Ok(Err(e)) => {
                ctx.violation("api_ok", "C03/api_ok/miri_sequence", json!({"error": format!("{:#}", e)}));
            }
            Err(p) => {
                ctx.violation("no_panic", &format!("C03/no_panic/miri_sequence@{}", panic_site(&p)), json!({"panic": p}));
            }
        }
    }
}

pub fn run(a: &Args) -> i32 {
    let mut ctx = Ctx::new(
        "C03",
        &a.tier,
        a.seed,
        "exploration",
        "sequences: 8..40 ops over 4 files x 8 pages drawn from {write_frame, write_frame_with_file_id, write_frames_batch, write_frames_batch_no_sync, write_undo_frame, flush_wal_for_table, rotate_segment, truncate, checkpoint, rotate+replay closed+remove closed, drop+Wal::open, torn-tail crash+Wal::open, set_sync_mode, sync, observe}, each sequence with a random subset of these features enabled; observed with recover_for_file, replay_segments_to_storage, recover (single-file logs), read_page against a shadow log of self-identifying page images. corruption: on a sample of sequences whose segment bytes equal the shadow, every frame boundary of every segment file +-{0,1,31,32,33,8192} as a truncation point (exhaustive per file) + sampled flips/4KiB zero fills/zero tails/appended garbage/appended zeros; expected = frames of the longest intact prefix across segments. distinct_nontrivial = distinct op-kind sequences that compared >= 1 frame + distinct (sequence, segment, corruption) cases",
    );
    let crc = crc_table();
    if crc64(&crc, 0, b"123456789") != 0x6C40_DF5F_0B49_7347 {
        ctx.inconclusive("harness CRC-64/ECMA-182 self-test failed");
        return ctx.finish();
    }
    let mut master = Rng::derive(a.seed, 3);
    let base = PathBuf::from(format!("/verif/scratch/c03-{}", std::process::id()));
    let _ = std::fs::remove_dir_all(&base);
    std::fs::create_dir_all(&base).expect("scratch dir");
    if cfg!(miri) {
        run_miri(&mut ctx, &base, &mut master);
        let _ = std::fs::remove_dir_all(&base);
        ctx.assumptions.push("Miri run: three tiny sequences observed through WalSegment::read_frame only (no mmap under Miri)".into());
        return ctx.finish();
    }
    let quick = ctx.quick();
    let nseq: u64 = if quick { 300 } else { 5000 };
    let (cor_num, cor_den, cor_samples): (u64, u64, usize) = if quick { (5, 100, 24) } else { (8, 100, 24) };
    let deadline = if quick { 50.0 } else { 540.0 };
    let seeds: Vec<u64> = (0..nseq).map(|_| master.next()).collect();
    let start = std::time::Instant::now();
    let hard_deadline = start + std::time::Duration::from_secs_f64(deadline + if quick { 4.0 } else { 30.0 });
    let mut results: Vec<SeqResult> = vec![];
    for k in 0..scenarios().len() {
        match catch(|| run_scenario(k, &base, &crc, hard_deadline)) {
            Ok(r) => results.push(r),
            Err(p) => ctx.inconclusive(&format!("harness panic in scenario {}: {}", k, p)),
        }
    }
    let skipped = std::sync::atomic::AtomicU64::new(0);
    std::thread::scope(|sc| {
        let mut hs = vec![];
        for lane in 0..LANES {
            let seeds = &seeds;
            let base = &base;
            let crc = &crc;
            let skipped = &skipped;
            hs.push(sc.spawn(move || {
                let mut out = vec![];
                let mut i = lane;
                while i < nseq {
                    if start.elapsed().as_secs_f64() > deadline {
                        skipped.fetch_add(1, std::sync::atomic::Ordering::Relaxed);
                    } else {
                        let idx = i;
                        match catch(|| run_sequence(idx, seeds[idx as usize], base, lane, cor_num, cor_den, cor_samples, crc, hard_deadline)) {
                            Ok(r) => out.push(r),
                            Err(p) => {
                                let mut r = SeqResult { idx, ..Default::default() };
                                r.c("harness_panics", 1);
                                r.viols.push(("harness".into(), "HARNESS".into(), json!({"panic": p})));
                                out.push(r);
                            }
                        }
                    }
                    i += LANES;
                }
                out
            }));
        }
        for h in hs {
            results.extend(h.join().expect("lane thread"));
        }
    });
    results.sort_by_key(|r| (r.idx < 1_000_000, r.idx));
    let mut cor_samples_taken = 0;
    // debugging aid: C03_DUMP=<file> gets one JSON line per failed case (the evidence keeps only a few)
    let mut dump = std::env::var("C03_DUMP").ok().and_then(|p| std::fs::File::create(p).ok());
    for r in results {
        ctx.evals(r.evals);
        for h in r.nontrivial {
            ctx.nontrivial(h);
        }
        for (k, n) in r.counters {
            ctx.count(&k, n);
        }
        if let Some(s) = r.sample {
            ctx.sample(s);
        }
        if let Some(s) = r.cor_sample {
            if cor_samples_taken < 3 {
                cor_samples_taken += 1;
                ctx.sample(s);
            }
        }
        for (assertion, sig, detail) in r.viols {
            if sig == "HARNESS" {
                ctx.inconclusive(&format!("harness panic in sequence {}: {}", r.idx, detail["panic"]));
                continue;
            }
            ctx.count(&format!("failed/{}", sig), 1);
            if let Some(d) = dump.as_mut() {
                use std::io::Write;
                let _ = writeln!(d, "{}", json!({"sig": sig, "detail": detail}));
            }
            ctx.violation(&assertion, &sig, detail);
        }
    }
    let sk = skipped.load(std::sync::atomic::Ordering::Relaxed);
    if sk > 0 {
        ctx.count("sequences_skipped_at_deadline", sk);
    }
    ctx.exhaustive = Some(false);
    ctx.extra.insert("truncation_sweep".into(), json!("exhaustive over the frame boundaries (x 11 byte deltas) of every segment file of each swept sequence; the swept sequences are a random sample"));
    ctx.assumptions.push("corruption cases are run only on logs whose bytes equal the shadow layout (audited with an independent CRC-64/ECMA-182); logs already damaged by a build-phase defect are reported there and not swept".into());
    ctx.assumptions.push("`Wal::recover` ignores file ids, so its page contents are compared only for single-file logs; on multi-file logs only totality is demanded".into());
    ctx.assumptions.push("frames written by write_frames_batch_no_sync / non-Full sync modes are made visible with Wal::sync() before a live observation; no power-loss model here (C01/C17 cover that)".into());
    let _ = std::fs::remove_dir_all(&base);
    ctx.finish()
}

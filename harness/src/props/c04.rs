//! C04: close, reopen and checkpoint preserve the logical database.
//!
//! Generated DDL/DML histories (constraint-clean, WAL on and off) with events inserted at random points:
//! `db.checkpoint()`, `PRAGMA wal_checkpoint`, an auto-checkpoint (threshold lowered by pragma, fired by COMMIT),
//! `close()` + `Database::open`, dropping the handle + `Database::open`. Around every event the harness takes an
//! OBSERVATION VECTOR through the public API and requires before == after. The comparison is model-free, so
//! defects in DML semantics cannot leak in. Per table (every name the history ever created, live or dropped):
//!   schema        column names and width of `SELECT *` (or the error class)
//!   rows          bag of `SELECT *`
//!   count_star    `SELECT COUNT(*)`
//!   index_lookup  `WHERE col = v` for present and absent values and a range, on the primary key and every indexed column
//!   index_order   `ORDER BY col` / `ORDER BY col DESC` on those columns (key sequence and bag)
//!   auto_increment two auto-assigned inserts that straddle the event must get consecutive ids; for close/drop+open
//!                  the same is required of an insert into a COPY of the closed directory (does not perturb the history)
//!   error:<class> the event itself, or a clean insert / read-back right after it, fails
//! Signature = C04/<event>/<wal_on|wal_off>/<observation>[/<ddl context of the table>].
use crate::report::{catch, Ctx};
use crate::rng::{fnv, Rng};
use crate::sqlm::db::{is_panic, panic_tag, Db, Outcome, Scratch};
use crate::sqlm::val::{row_key, Row, V};
use crate::Args;
use serde_json::{json, Value as J};
use std::collections::{BTreeMap, BTreeSet};
use std::path::Path;

// ---------------------------------------------------------------- small model used only to GENERATE clean statements

#[derive(Clone, Copy, Debug, PartialEq, Eq)]
enum Ty {
    Big,
    Int,
    Dbl,
    Text,
    Bool,
}

impl Ty {
    fn sql(&self) -> &'static str {
        match self {
            Ty::Big => "BIGINT",
            Ty::Int => "INT",
            Ty::Dbl => "DOUBLE",
            Ty::Text => "TEXT",
            Ty::Bool => "BOOLEAN",
        }
    }
    fn letter(&self) -> char {
        match self {
            Ty::Big => 'b',
            Ty::Int => 'i',
            Ty::Dbl => 'd',
            Ty::Text => 'x',
            Ty::Bool => 'o',
        }
    }
    fn of_name(n: &str) -> Ty {
        match n.chars().next().unwrap_or('b') {
            'i' => Ty::Int,
            'd' => Ty::Dbl,
            'x' => Ty::Text,
            'o' => Ty::Bool,
            _ => Ty::Big,
        }
    }
}

#[derive(Clone, Debug)]
struct GCol {
    name: String,
    ty: Ty,
    not_null: bool,
    default: Option<V>,
}

#[derive(Clone, Debug)]
struct GTab {
    name: String,
    autoinc: bool,
    cols: Vec<GCol>,
    /// id first
    rows: Vec<Row>,
    idx: Vec<(String, String)>,
    next_auto: i64,
}

// ---------------------------------------------------------------- operations

#[derive(Clone, Debug, PartialEq)]
enum Ev {
    Checkpoint,
    PragmaCheckpoint,
    AutoCheckpoint { with_update: bool, threshold: u32 },
    CloseOpen,
    DropOpen,
}

impl Ev {
    fn name(&self) -> &'static str {
        match self {
            Ev::Checkpoint => "checkpoint",
            Ev::PragmaCheckpoint => "pragma_wal_checkpoint",
            Ev::AutoCheckpoint { .. } => "auto_checkpoint",
            Ev::CloseOpen => "close_open",
            Ev::DropOpen => "drop_open",
        }
    }
    fn is_reopen(&self) -> bool {
        matches!(self, Ev::CloseOpen | Ev::DropOpen)
    }
}

/// catalog facts the runner needs to plan its probes; applied only when the statement succeeded
#[derive(Clone, Debug)]
enum Meta {
    None,
    /// an INSERT of n rows (each consumes one row id)
    Rows(usize),
    CreateTable { name: String, autoinc: bool, cols: Vec<(String, bool)> },
    DropTable { name: String },
    CreateIndex { name: String, table: String, col: String },
    DropIndex { name: String },
    Truncate { table: String },
    AddColumn { table: String, col: String },
    DropColumn { table: String, col: String },
    RenameColumn { table: String, old: String, new: String },
}

#[derive(Clone, Debug)]
enum Op {
    Sql { sql: String, meta: Meta, tag: &'static str },
    Event { ev: Ev, model: Vec<(String, usize)> },
}

impl Op {
    fn text(&self) -> String {
        match self {
            Op::Sql { sql, .. } => elide(sql),
            Op::Event { ev, .. } => format!("-- EVENT {:?}", ev),
        }
    }
}

const PAD: char = '~';

fn elide(s: &str) -> String {
    if s.len() <= 300 {
        return s.to_string();
    }
    let mut out = String::new();
    let mut run = 0usize;
    for ch in s.chars() {
        if ch == PAD {
            run += 1;
            continue;
        }
        if run > 0 {
            out.push_str(&format!("<~x{}>", run));
            run = 0;
        }
        out.push(ch);
    }
    if run > 0 {
        out.push_str(&format!("<~x{}>", run));
    }
    if out.len() > 1500 {
        format!("{}...<{} bytes>", &out[..1200], out.len())
    } else {
        out
    }
}

// ---------------------------------------------------------------- generator

#[derive(Clone, Debug, Default)]
struct Feats {
    wal: bool,
    index: bool,
    autoinc: bool,
    long_text: bool,
    big_table: bool,
    ddl_extra: bool,
    alter: bool,
}

impl Feats {
    fn tags(&self) -> Vec<&'static str> {
        let mut v = vec![if self.wal { "wal_on" } else { "wal_off" }];
        for (b, n) in [(self.index, "index"), (self.autoinc, "autoinc"), (self.long_text, "long_text"), (self.big_table, "big_table"), (self.ddl_extra, "ddl_extra"), (self.alter, "alter")] {
            if b {
                v.push(n);
            }
        }
        v
    }
}

struct Gen<'a> {
    rng: &'a mut Rng,
    f: Feats,
    tabs: BTreeMap<String, GTab>,
    ops: Vec<Op>,
    uniq: i64,
    ncol: u32,
    nidx: u32,
    ntab: u32,
    reopens: u32,
    events: u32,
}

fn vals_sql(r: &[V]) -> String {
    format!("({})", r.iter().map(|v| v.sql()).collect::<Vec<_>>().join(", "))
}

impl<'a> Gen<'a> {
    fn u(&mut self) -> i64 {
        self.uniq += 1;
        self.uniq
    }
    fn sql(&mut self, sql: String, meta: Meta, tag: &'static str) {
        self.ops.push(Op::Sql { sql, meta, tag });
    }
    fn val(&mut self, c: &GCol) -> V {
        if !c.not_null && c.default.is_none() && self.rng.chance(12, 100) {
            return V::Null;
        }
        let u = self.u();
        match c.ty {
            Ty::Big => V::Int(if self.rng.chance(1, 12) { -(5_000_000 + u) } else { 1000 + u * 7 }),
            Ty::Int => V::Int(self.rng.range(-3, 8)),
            Ty::Dbl => V::Float(u as f64 + 0.5),
            Ty::Bool => V::Bool(self.rng.chance(1, 2)),
            Ty::Text => {
                if self.f.long_text && self.rng.chance(1, 4) {
                    let len = *self.rng.pick(&[900usize, 998, 999, 1000, 1001, 1002, 1100, 2000, 5000, 17000]);
                    let mut s = format!("L{}-", u);
                    while s.len() < len {
                        s.push(PAD);
                    }
                    V::Text(s)
                } else if self.rng.chance(1, 6) {
                    V::Text(self.rng.pick(&["a", "b", "ab", ""]).to_string())
                } else {
                    V::Text(format!("v{}", u))
                }
            }
        }
    }
    fn create_table(&mut self) {
        self.ntab += 1;
        let name = format!("t{}", self.ntab);
        self.create_table_named(&name);
    }
    fn create_table_named(&mut self, name: &str) {
        let autoinc = self.f.autoinc && self.rng.chance(2, 3);
        let n = self.rng.usize(1, 4);
        let mut cols = vec![];
        for _ in 0..n {
            let ty = *self.rng.pick(&[Ty::Big, Ty::Big, Ty::Int, Ty::Int, Ty::Dbl, Ty::Text, Ty::Text, Ty::Bool]);
            self.ncol += 1;
            let mut c = GCol { name: format!("{}{}", ty.letter(), self.ncol), ty, not_null: self.rng.chance(1, 5), default: None };
            if !c.not_null && self.rng.chance(1, 8) {
                c.default = Some(match ty {
                    Ty::Big => V::Int(-3),
                    Ty::Int => V::Int(42),
                    Ty::Dbl => V::Float(2.5),
                    Ty::Text => V::Text("dflt".into()),
                    Ty::Bool => V::Bool(true),
                });
            }
            cols.push(c);
        }
        let mut parts = vec![format!("id BIGINT PRIMARY KEY{}", if autoinc { " AUTO_INCREMENT" } else { "" })];
        for c in &cols {
            let mut s = format!("{} {}", c.name, c.ty.sql());
            if c.not_null {
                s.push_str(" NOT NULL");
            }
            if let Some(d) = &c.default {
                s.push_str(" DEFAULT ");
                s.push_str(&match d {
                    V::Int(i) => format!("{}", i),
                    V::Float(f) => format!("{:?}", f),
                    V::Text(t) => format!("'{}'", t),
                    V::Bool(b) => (if *b { "TRUE" } else { "FALSE" }).to_string(),
                    _ => "NULL".into(),
                });
            }
            parts.push(s);
        }
        let sql = format!("CREATE TABLE {} ({})", name, parts.join(", "));
        let meta = Meta::CreateTable { name: name.to_string(), autoinc, cols: cols.iter().map(|c| (c.name.clone(), c.not_null)).collect() };
        self.sql(sql, meta, "create_table");
        self.tabs.insert(name.to_string(), GTab { name: name.to_string(), autoinc, cols, rows: vec![], idx: vec![], next_auto: 1 });
    }
    fn pick_tab(&mut self) -> Option<String> {
        let names: Vec<String> = self.tabs.keys().cloned().collect();
        if names.is_empty() {
            None
        } else {
            Some(self.rng.pick(&names).clone())
        }
    }
    fn insert(&mut self, tn: &str, n: usize) {
        let Some(t) = self.tabs.get(tn).cloned() else { return };
        let auto = t.autoinc && self.rng.chance(3, 4);
        let mut rows_sql = vec![];
        let mut new_rows = vec![];
        let mut next_auto = t.next_auto;
        for _ in 0..n {
            let mut r: Row = vec![];
            let id = if auto {
                let k = next_auto;
                next_auto += 1;
                k
            } else if t.autoinc {
                // explicit id above the counter advances it
                let k = next_auto + 400 + self.rng.range(0, 3);
                next_auto = k + 1;
                k
            } else {
                // non-monotonic arrival of unique ids
                let u = self.u();
                if self.rng.chance(1, 3) {
                    1_000_000 - u
                } else {
                    u
                }
            };
            r.push(V::Int(id));
            for c in &t.cols {
                r.push(self.val(c));
            }
            if auto {
                rows_sql.push(vals_sql(&r[1..]));
            } else {
                rows_sql.push(vals_sql(&r));
            }
            new_rows.push(r);
        }
        let names: Vec<String> = t.cols.iter().map(|c| c.name.clone()).collect();
        let collist = if auto { names.join(", ") } else { format!("id, {}", names.join(", ")) };
        self.sql(format!("INSERT INTO {} ({}) VALUES {}", tn, collist, rows_sql.join(", ")), Meta::Rows(n), "insert");
        let t = self.tabs.get_mut(tn).unwrap();
        t.rows.extend(new_rows);
        t.next_auto = next_auto;
    }
    fn update(&mut self, tn: &str) {
        let Some(t) = self.tabs.get(tn).cloned() else { return };
        if t.rows.is_empty() || t.cols.is_empty() {
            return;
        }
        let ci = self.rng.usize(0, t.cols.len() - 1);
        let c = t.cols[ci].clone();
        let v = self.val(&c);
        let v = if v.is_null() && c.default.is_some() { V::Int(1) } else { v };
        let v = if v.is_null() || matches!((&v, c.ty), (V::Int(_), Ty::Big | Ty::Int)) || !matches!(v, V::Int(_)) { v } else { V::Null };
        // by primary key, or by a small-domain INT column (several rows)
        let int_cols: Vec<usize> = t.cols.iter().enumerate().filter(|(i, c)| c.ty == Ty::Int && *i != ci).map(|(i, _)| i).collect();
        if !int_cols.is_empty() && self.rng.chance(1, 4) {
            let k = *self.rng.pick(&int_cols);
            let key = self.rng.range(-3, 8);
            self.sql(format!("UPDATE {} SET {} = {} WHERE {} = {}", tn, c.name, v.sql(), t.cols[k].name, key), Meta::None, "update");
            let t = self.tabs.get_mut(tn).unwrap();
            for r in t.rows.iter_mut() {
                if matches!(&r[k + 1], V::Int(x) if *x == key) {
                    r[ci + 1] = v.clone();
                }
            }
        } else {
            let ri = self.rng.usize(0, t.rows.len() - 1);
            let id = t.rows[ri][0].clone();
            self.sql(format!("UPDATE {} SET {} = {} WHERE id = {}", tn, c.name, v.sql(), id.sql()), Meta::None, "update");
            self.tabs.get_mut(tn).unwrap().rows[ri][ci + 1] = v;
        }
    }
    fn delete(&mut self, tn: &str) {
        let Some(t) = self.tabs.get(tn).cloned() else { return };
        if t.rows.is_empty() {
            return;
        }
        let r = self.rng.below(10);
        if r < 6 {
            let ri = self.rng.usize(0, t.rows.len() - 1);
            let id = t.rows[ri][0].clone();
            self.sql(format!("DELETE FROM {} WHERE id = {}", tn, id.sql()), Meta::None, "delete");
            self.tabs.get_mut(tn).unwrap().rows.remove(ri);
        } else if r < 8 && t.rows.len() >= 4 {
            // a contiguous id range (empties leaves of multi-page trees)
            let mut ids: Vec<i64> = t.rows.iter().filter_map(|r| if let V::Int(i) = r[0] { Some(i) } else { None }).collect();
            ids.sort();
            let a = self.rng.usize(0, ids.len() - 2);
            let b = (a + self.rng.usize(1, (ids.len() / 2).max(1))).min(ids.len() - 1);
            let (lo, hi) = (ids[a], ids[b]);
            self.sql(format!("DELETE FROM {} WHERE id >= {} AND id <= {}", tn, V::Int(lo).sql(), V::Int(hi).sql()), Meta::None, "delete_range");
            self.tabs.get_mut(tn).unwrap().rows.retain(|r| !matches!(r[0], V::Int(i) if i >= lo && i <= hi));
        } else {
            let int_cols: Vec<usize> = t.cols.iter().enumerate().filter(|(_, c)| c.ty == Ty::Int).map(|(i, _)| i).collect();
            if int_cols.is_empty() {
                return;
            }
            let k = *self.rng.pick(&int_cols);
            let key = self.rng.range(-3, 8);
            self.sql(format!("DELETE FROM {} WHERE {} = {}", tn, t.cols[k].name, key), Meta::None, "delete");
            self.tabs.get_mut(tn).unwrap().rows.retain(|r| !matches!(&r[k + 1], V::Int(x) if *x == key));
        }
    }
    fn create_index(&mut self, tn: &str) {
        let Some(t) = self.tabs.get(tn).cloned() else { return };
        let cand: Vec<GCol> = t.cols.iter().filter(|c| matches!(c.ty, Ty::Big | Ty::Int | Ty::Text) && !t.idx.iter().any(|(_, ic)| ic == &c.name)).cloned().collect();
        if cand.is_empty() {
            return;
        }
        let c = self.rng.pick(&cand).clone();
        self.nidx += 1;
        let name = format!("ix{}", self.nidx);
        // BIGINT values are unique by construction, so a UNIQUE index stays constraint-clean
        let unique = c.ty == Ty::Big && c.default.is_none() && self.rng.chance(1, 4);
        self.sql(format!("CREATE {}INDEX {} ON {} ({})", if unique { "UNIQUE " } else { "" }, name, tn, c.name), Meta::CreateIndex { name: name.clone(), table: tn.to_string(), col: c.name.clone() }, "create_index");
        self.tabs.get_mut(tn).unwrap().idx.push((name, c.name));
    }
    fn ddl_extra(&mut self) {
        let Some(tn) = self.pick_tab() else { return };
        let t = self.tabs.get(&tn).cloned().unwrap();
        match self.rng.below(4) {
            0 if !t.idx.is_empty() => {
                let (name, _) = self.rng.pick(&t.idx).clone();
                self.sql(format!("DROP INDEX {}", name), Meta::DropIndex { name: name.clone() }, "drop_index");
                self.tabs.get_mut(&tn).unwrap().idx.retain(|(n, _)| n != &name);
            }
            1 => {
                self.sql(format!("TRUNCATE TABLE {}", tn), Meta::Truncate { table: tn.clone() }, "truncate");
                self.tabs.get_mut(&tn).unwrap().rows.clear();
                let n = self.rng.usize(1, 5);
                self.insert(&tn, n);
            }
            2 => {
                self.sql(format!("DROP TABLE {}", tn), Meta::DropTable { name: tn.clone() }, "drop_table");
                self.tabs.remove(&tn);
                if self.rng.chance(1, 2) {
                    self.create_table_named(&tn);
                } else {
                    self.create_table();
                }
                let last = self.tabs.keys().last().cloned().unwrap();
                let n = self.rng.usize(2, 6);
                self.insert(&last, n);
            }
            _ => {
                self.create_table();
                let last = format!("t{}", self.ntab);
                let n = self.rng.usize(2, 6);
                self.insert(&last, n);
            }
        }
    }
    fn alter(&mut self) {
        let Some(tn) = self.pick_tab() else { return };
        let t = self.tabs.get(&tn).cloned().unwrap();
        match self.rng.below(3) {
            0 => {
                let ty = *self.rng.pick(&[Ty::Big, Ty::Int, Ty::Text, Ty::Bool]);
                self.ncol += 1;
                let c = GCol { name: format!("{}{}", ty.letter(), self.ncol), ty, not_null: false, default: None };
                self.sql(format!("ALTER TABLE {} ADD COLUMN {} {}", tn, c.name, ty.sql()), Meta::AddColumn { table: tn.clone(), col: c.name.clone() }, "add_column");
                let t = self.tabs.get_mut(&tn).unwrap();
                t.cols.push(c);
                for r in t.rows.iter_mut() {
                    r.push(V::Null);
                }
            }
            1 if t.cols.len() >= 2 => {
                let ci = self.rng.usize(0, t.cols.len() - 1);
                let c = t.cols[ci].clone();
                self.sql(format!("ALTER TABLE {} DROP COLUMN {}", tn, c.name), Meta::DropColumn { table: tn.clone(), col: c.name.clone() }, "drop_column");
                let t = self.tabs.get_mut(&tn).unwrap();
                t.cols.remove(ci);
                t.idx.retain(|(_, ic)| ic != &c.name);
                for r in t.rows.iter_mut() {
                    r.remove(ci + 1);
                }
            }
            _ if !t.cols.is_empty() => {
                let ci = self.rng.usize(0, t.cols.len() - 1);
                let c = t.cols[ci].clone();
                self.ncol += 1;
                let new = format!("{}{}r", c.ty.letter(), self.ncol);
                self.sql(format!("ALTER TABLE {} RENAME COLUMN {} TO {}", tn, c.name, new), Meta::RenameColumn { table: tn.clone(), old: c.name.clone(), new: new.clone() }, "rename_column");
                let t = self.tabs.get_mut(&tn).unwrap();
                t.cols[ci].name = new.clone();
                for i in t.idx.iter_mut() {
                    if i.1 == c.name {
                        i.1 = new.clone();
                    }
                }
            }
            _ => {}
        }
    }
    fn event(&mut self) {
        let mut kinds: Vec<Ev> = vec![Ev::Checkpoint, Ev::PragmaCheckpoint];
        if self.f.wal {
            kinds.push(Ev::AutoCheckpoint { with_update: false, threshold: 1 });
            kinds.push(Ev::AutoCheckpoint { with_update: true, threshold: 1 });
            kinds.push(Ev::Checkpoint);
        }
        if self.reopens < 6 {
            kinds.extend([Ev::CloseOpen, Ev::CloseOpen, Ev::DropOpen, Ev::DropOpen]);
        }
        let mut ev = self.rng.pick(&kinds).clone();
        if let Ev::AutoCheckpoint { with_update, .. } = ev {
            ev = Ev::AutoCheckpoint { with_update, threshold: self.rng.range(1, 3) as u32 };
        }
        if ev.is_reopen() {
            self.reopens += 1;
        }
        self.events += 1;
        let model = self.tabs.values().map(|t| (t.name.clone(), t.rows.len())).collect();
        self.ops.push(Op::Event { ev, model });
    }
}

fn gen_history(rng: &mut Rng, target: usize) -> (Vec<Op>, Feats) {
    let f = Feats { wal: rng.chance(1, 2), index: rng.chance(2, 3), autoinc: rng.chance(1, 2), long_text: rng.chance(1, 3), big_table: rng.chance(1, 3), ddl_extra: rng.chance(1, 4), alter: rng.chance(1, 10) };
    let mut g = Gen { rng, f: f.clone(), tabs: BTreeMap::new(), ops: vec![], uniq: 0, ncol: 0, nidx: 0, ntab: 0, reopens: 0, events: 0 };
    if f.wal {
        g.sql("PRAGMA wal = ON".into(), Meta::None, "pragma");
    }
    let ntab = g.rng.usize(1, 2);
    for _ in 0..ntab {
        g.create_table();
    }
    if f.big_table {
        // 70+ rows so that multi-page trees are checkpointed and reopened
        let tn = g.pick_tab().unwrap();
        let total = g.rng.usize(70, 130);
        let mut done = 0;
        while done < total {
            let n = g.rng.usize(15, 30).min(total - done);
            g.insert(&tn, n);
            done += n;
        }
    }
    let mut guard = 0;
    while g.ops.len() < target && guard < 300 {
        guard += 1;
        let r = g.rng.below(100);
        let Some(tn) = g.pick_tab() else {
            g.create_table();
            continue;
        };
        if r < 30 {
            let n = g.rng.usize(1, 5);
            g.insert(&tn, n);
        } else if r < 45 {
            g.update(&tn);
        } else if r < 57 {
            g.delete(&tn);
        } else if r < 65 && f.index {
            g.create_index(&tn);
        } else if r < 72 && f.ddl_extra {
            g.ddl_extra();
        } else if r < 78 && f.alter {
            g.alter();
        } else if r < 97 && g.events < 12 {
            g.event();
        } else if r >= 97 && f.wal {
            // the log can be switched off and on again in mid-history: whatever is in the log at that
            // moment must not come back over newer pages at a later checkpoint / drop / reopen
            let on = g.rng.chance(1, 2);
            g.sql(format!("PRAGMA wal = {}", if on { "ON" } else { "OFF" }), Meta::None, "pragma");
        }
    }
    // always end with an event (most often a reopen)
    if g.reopens < 6 {
        g.reopens = 5;
    }
    g.event();
    (g.ops, f)
}

// ---------------------------------------------------------------- observation vector

/// stable class of an error message: quoted identifiers and digits removed, first words
fn err_class(e: &str) -> String {
    if is_panic(e) {
        return format!("panic_{}", panic_tag(e));
    }
    let mut s = String::new();
    let mut in_q = false;
    for ch in e.chars() {
        if ch == '\'' || ch == '"' {
            in_q = !in_q;
            continue;
        }
        if !in_q {
            s.push(ch);
        }
    }
    s.split(|c: char| !c.is_ascii_alphabetic()).filter(|w| !w.is_empty()).take(8).collect::<Vec<_>>().join("_").to_lowercase()
}

#[derive(Clone, Debug)]
struct TabMeta {
    autoinc: bool,
    live: bool,
    /// non-id columns: (name, not_null)
    cols: Vec<(String, bool)>,
    idx: Vec<(String, String)>,
    /// DDL context for the signature (None = plain table)
    ctx: Option<&'static str>,
}

#[derive(Clone, Debug)]
struct Probe {
    kind: &'static str, // index_lookup | index_order
    sql: String,
    /// position of the key column in SELECT * (for order probes)
    key_pos: Option<usize>,
}

#[derive(Clone, Debug, PartialEq)]
enum Res {
    Err(String),
    /// (sorted row keys, key-column sequence for ORDER BY probes)
    Rows(Vec<String>, Vec<String>),
}

#[derive(Clone, Debug)]
struct TabObs {
    /// Ok((column names, raw rows)) or the error class
    star: Result<(Vec<String>, Vec<Row>), String>,
    count: Result<String, String>,
    probes: Vec<Res>,
}

fn query_cols(db: &mut Db, sql: &str) -> Result<(Vec<String>, Vec<Row>), String> {
    match catch(|| db.db.query_with_columns(sql)) {
        Ok(Ok((cols, rows))) => Ok((cols, crate::sqlm::db::conv_rows(&rows))),
        Ok(Err(e)) => Err(format!("{:#}", e)),
        Err(p) => Err(format!("PANIC: {}", p)),
    }
}

fn sorted_keys(rows: &[Row]) -> Vec<String> {
    let mut k: Vec<String> = rows.iter().map(|r| row_key(r, false)).collect();
    k.sort();
    k
}

/// choose the probes of one table from its "before" scan
fn plan_probes(name: &str, m: &TabMeta, cols: &[String], rows: &[Row]) -> Vec<Probe> {
    let mut out = vec![];
    let mut targets: Vec<String> = vec!["id".to_string()];
    for (_, c) in &m.idx {
        if !targets.contains(c) {
            targets.push(c.clone());
        }
    }
    for col in targets {
        let Some(p) = cols.iter().position(|c| c.eq_ignore_ascii_case(&col)) else { continue };
        let mut present: Vec<V> = vec![];
        for r in rows {
            if let Some(v) = r.get(p) {
                if matches!(v, V::Int(_) | V::Text(_)) && !present.iter().any(|x| x.key(false) == v.key(false)) {
                    present.push(v.clone());
                }
            }
        }
        present.sort_by(|a, b| a.order_cmp(b));
        let mut eqs: Vec<V> = vec![];
        if !present.is_empty() {
            eqs.push(present[0].clone());
            eqs.push(present[present.len() / 2].clone());
            eqs.push(present[present.len() - 1].clone());
        }
        let is_text = present.iter().any(|v| matches!(v, V::Text(_))) || col.starts_with('x');
        eqs.push(if is_text { V::Text("absent-key".into()) } else { V::Int(-987_654_321) });
        eqs.dedup_by(|a, b| a.key(false) == b.key(false));
        for v in eqs {
            out.push(Probe { kind: "index_lookup", sql: format!("SELECT * FROM {} WHERE {} = {}", name, col, v.sql()), key_pos: None });
        }
        if present.len() >= 3 {
            let lo = &present[present.len() / 4];
            let hi = &present[(present.len() * 3) / 4];
            out.push(Probe { kind: "index_lookup", sql: format!("SELECT * FROM {} WHERE {} >= {} AND {} <= {}", name, col, lo.sql(), col, hi.sql()), key_pos: None });
            out.push(Probe { kind: "index_lookup", sql: format!("SELECT * FROM {} WHERE {} > {}", name, col, hi.sql()), key_pos: None });
        }
        out.push(Probe { kind: "index_order", sql: format!("SELECT * FROM {} ORDER BY {}", name, col), key_pos: Some(p) });
        out.push(Probe { kind: "index_order", sql: format!("SELECT * FROM {} ORDER BY {} DESC", name, col), key_pos: Some(p) });
    }
    out
}

fn run_probe(db: &mut Db, p: &Probe) -> Res {
    match db.query(&p.sql) {
        Err(e) => Res::Err(err_class(&e)),
        Ok(rows) => {
            let seq = match p.key_pos {
                Some(k) => rows.iter().map(|r| r.get(k).map(|v| v.key(false)).unwrap_or_default()).collect(),
                None => vec![],
            };
            Res::Rows(sorted_keys(&rows), seq)
        }
    }
}

fn observe_table(db: &mut Db, name: &str, probes: Option<&[Probe]>, m: &TabMeta) -> (TabObs, Vec<Probe>) {
    let star = query_cols(db, &format!("SELECT * FROM {}", name)).map_err(|e| err_class(&e));
    let count = match db.query(&format!("SELECT COUNT(*) FROM {}", name)) {
        Ok(r) => Ok(r.first().and_then(|r| r.first()).map(|v| v.key(true)).unwrap_or_else(|| "no row".into())),
        Err(e) => Err(err_class(&e)),
    };
    let plan: Vec<Probe> = match probes {
        Some(p) => p.to_vec(),
        None => match &star {
            Ok((cols, rows)) => plan_probes(name, m, cols, rows),
            Err(_) => vec![],
        },
    };
    let res = plan.iter().map(|p| run_probe(db, p)).collect();
    (TabObs { star, count, probes: res }, plan)
}

fn first_diff(a: &[String], b: &[String]) -> J {
    let sa: BTreeSet<&String> = a.iter().collect();
    let sb: BTreeSet<&String> = b.iter().collect();
    let only_before: Vec<String> = sa.difference(&sb).take(3).map(|s| elide(&s.replace('\u{1}', " | "))).collect();
    let only_after: Vec<String> = sb.difference(&sa).take(3).map(|s| elide(&s.replace('\u{1}', " | "))).collect();
    json!({"before_rows": a.len(), "after_rows": b.len(), "only_before": only_before, "only_after": only_after})
}

/// first observation that changed: (observation name, detail)
fn compare_obs(name: &str, b: &TabObs, a: &TabObs, plan: &[Probe]) -> Option<(String, J)> {
    match (&b.star, &a.star) {
        (Ok(_), Err(e)) => return Some((format!("error:{}", e), json!({"table": name, "sql": format!("SELECT * FROM {}", name), "before": "ok", "after_error": e}))),
        (Err(e), Ok(_)) => return Some(("schema".into(), json!({"table": name, "before_error": e, "after": "select works"}))),
        (Err(e1), Err(e2)) => {
            if e1 != e2 {
                return Some((format!("error:{}", e2), json!({"table": name, "before_error": e1, "after_error": e2})));
            }
            return None;
        }
        (Ok((c1, r1)), Ok((c2, r2))) => {
            if c1 != c2 {
                return Some(("schema".into(), json!({"table": name, "before_columns": c1, "after_columns": c2})));
            }
            let (k1, k2) = (sorted_keys(r1), sorted_keys(r2));
            if k1 != k2 {
                return Some(("rows".into(), json!({"table": name, "sql": format!("SELECT * FROM {}", name), "diff": first_diff(&k1, &k2)})));
            }
        }
    }
    if b.count != a.count {
        return Some(("count_star".into(), json!({"table": name, "before": format!("{:?}", b.count), "after": format!("{:?}", a.count), "rows_in_scan": b.star.as_ref().map(|s| s.1.len()).unwrap_or(0)})));
    }
    for (i, p) in plan.iter().enumerate() {
        let (Some(x), Some(y)) = (b.probes.get(i), a.probes.get(i)) else { continue };
        if x == y {
            continue;
        }
        let detail = match (x, y) {
            (Res::Rows(k1, s1), Res::Rows(k2, s2)) => {
                if k1 != k2 {
                    json!({"bag": first_diff(k1, k2)})
                } else {
                    let pos = s1.iter().zip(s2.iter()).position(|(u, v)| u != v);
                    json!({"same_bag_different_key_sequence_at": pos, "before": s1.iter().take(8).collect::<Vec<_>>(), "after": s2.iter().take(8).collect::<Vec<_>>()})
                }
            }
            (x, y) => json!({"before": elide(&format!("{:?}", x)), "after": elide(&format!("{:?}", y))}),
        };
        if let (Res::Rows(..), Res::Err(e)) = (x, y) {
            return Some((format!("error:{}", e), json!({"table": name, "sql": elide(&p.sql), "detail": detail})));
        }
        return Some((p.kind.to_string(), json!({"table": name, "sql": elide(&p.sql), "detail": detail})));
    }
    None
}

// ---------------------------------------------------------------- running a history

#[derive(Clone, Debug)]
struct Viol {
    sig: String,
    assertion: String,
    detail: J,
    op_index: usize,
}

#[derive(Default)]
struct RunOut {
    /// the violation that ended the history
    viol: Option<Viol>,
    events_judged: u64,
    /// (event name, did measurable work) per judged event
    event_kinds: Vec<(&'static str, bool)>,
    stmt_errors: u64,
    stmt_error_samples: Vec<String>,
    probes_run: u64,
    probes_using_index: u64,
    autoinc_pairs: u64,
    copy_probes: u64,
    model_agree: u64,
    model_desync: u64,
    max_rows: usize,
    toast_values: u64,
    log: Vec<String>,
}

fn copy_dir(src: &Path, dst: &Path) -> std::io::Result<()> {
    std::fs::create_dir_all(dst)?;
    for e in std::fs::read_dir(src)? {
        let e = e?;
        let to = dst.join(e.file_name());
        if e.file_type()?.is_dir() {
            copy_dir(&e.path(), &to)?;
        } else {
            std::fs::copy(e.path(), &to)?;
        }
    }
    Ok(())
}

/// names and sizes of the files under <db>/wal (to see whether a checkpoint removed or truncated segments)
fn wal_files(dir: &Path) -> Vec<(String, u64)> {
    let mut v: Vec<(String, u64)> = match std::fs::read_dir(dir.join("wal")) {
        Ok(rd) => rd.filter_map(|e| e.ok()).map(|e| (e.file_name().to_string_lossy().to_string(), e.metadata().map(|m| m.len()).unwrap_or(0))).collect(),
        Err(_) => vec![],
    };
    v.sort();
    v
}

fn frame_count(db: &mut Db) -> Option<u64> {
    match catch(|| db.db.execute("PRAGMA wal_frame_count")) {
        Ok(Ok(turdb::ExecuteResult::Pragma { value, .. })) => value.and_then(|v| v.parse().ok()),
        _ => None,
    }
}

/// values for a clean insert issued by the runner itself (ranges disjoint from the generator's)
fn runner_row(m: &TabMeta, n: i64) -> (Vec<String>, Vec<V>) {
    let mut names = vec![];
    let mut vals = vec![];
    for (c, _) in &m.cols {
        names.push(c.clone());
        vals.push(match Ty::of_name(c) {
            Ty::Big => V::Int(900_000_000 + n),
            Ty::Int => V::Int(77), // outside the generator's domain, so its UPDATE/DELETE keys never match runner rows
            Ty::Dbl => V::Float(n as f64 + 0.125),
            Ty::Text => V::Text(format!("probe{}", n)),
            Ty::Bool => V::Bool(true),
        });
    }
    (names, vals)
}

/// insert one row with an auto-assigned id; returns the id
fn auto_insert(db: &mut Db, name: &str, m: &TabMeta, n: i64) -> Result<i64, String> {
    let (names, vals) = runner_row(m, n);
    if names.is_empty() {
        return Err("no columns".into());
    }
    let sql = format!("INSERT INTO {} ({}) VALUES {} RETURNING id", name, names.join(", "), vals_sql(&vals));
    match db.exec(&sql) {
        Ok(Outcome::Dml(_, Some(rows))) => match rows.first().and_then(|r| r.first()) {
            Some(V::Int(i)) => Ok(*i),
            other => Err(format!("RETURNING id gave {:?}", other)),
        },
        Ok(other) => Err(format!("unexpected result {:?}", other).chars().take(120).collect()),
        Err(e) => Err(e),
    }
}

fn run_history(ops: &[Op], wal: bool, dir: &Path, probe_dir: &Path, full: bool) -> RunOut {
    let mut out = RunOut::default();
    let _ = std::fs::remove_dir_all(dir);
    let mut db = match Db::create(dir) {
        Ok(d) => Some(d),
        Err(e) => {
            out.viol = Some(Viol { sig: format!("C04/create/{}/error:{}", if wal { "wal_on" } else { "wal_off" }, err_class(&e)), assertion: "create".into(), detail: json!({"error": e}), op_index: 0 });
            return out;
        }
    };
    let walt = if wal { "wal_on" } else { "wal_off" };
    let mut metas: BTreeMap<String, TabMeta> = BTreeMap::new();
    let mut runner_n: i64 = 0;
    // rows the runner itself inserted per table (the generator's model does not know them)
    let mut runner_added: BTreeMap<String, usize> = BTreeMap::new();
    for (i, op) in ops.iter().enumerate() {
        out.log.push(op.text());
        match op {
            Op::Sql { sql, meta, .. } => {
                let d = db.as_mut().unwrap();
                match d.exec(sql) {
                    Err(e) => {
                        out.stmt_errors += 1;
                        if out.stmt_error_samples.len() < 3 {
                            out.stmt_error_samples.push(format!("{} -> {}", elide(sql).chars().take(160).collect::<String>(), e.chars().take(160).collect::<String>()));
                        }
                    }
                    Ok(_) => match meta {
                        Meta::None | Meta::Rows(_) => {}
                        Meta::CreateTable { name, autoinc, cols } => {
                            let recreated = metas.contains_key(name);
                            metas.insert(name.clone(), TabMeta { autoinc: *autoinc, live: true, cols: cols.clone(), idx: vec![], ctx: if recreated { Some("recreated_table") } else { None } });
                        }
                        Meta::DropTable { name } => {
                            runner_added.remove(name);
                            if let Some(m) = metas.get_mut(name) {
                                m.live = false;
                                m.idx.clear();
                                m.ctx = Some("dropped_table");
                            }
                        }
                        Meta::CreateIndex { name, table, col } => {
                            if let Some(m) = metas.get_mut(table) {
                                m.idx.push((name.clone(), col.clone()));
                            }
                        }
                        Meta::DropIndex { name } => {
                            for m in metas.values_mut() {
                                m.idx.retain(|(n, _)| n != name);
                            }
                        }
                        Meta::Truncate { table } => {
                            runner_added.remove(table);
                            if let Some(m) = metas.get_mut(table) {
                                m.ctx = Some("truncated_table");
                            }
                        }
                        Meta::AddColumn { table, col } => {
                            if let Some(m) = metas.get_mut(table) {
                                m.cols.push((col.clone(), false));
                                m.ctx = Some("add_column");
                            }
                        }
                        Meta::DropColumn { table, col } => {
                            if let Some(m) = metas.get_mut(table) {
                                m.cols.retain(|(c, _)| c != col);
                                m.idx.retain(|(_, c)| c != col);
                                m.ctx = Some("drop_column");
                            }
                        }
                        Meta::RenameColumn { table, old, new } => {
                            if let Some(m) = metas.get_mut(table) {
                                for c in m.cols.iter_mut() {
                                    if &c.0 == old {
                                        c.0 = new.clone();
                                    }
                                }
                                for x in m.idx.iter_mut() {
                                    if &x.1 == old {
                                        x.1 = new.clone();
                                    }
                                }
                                m.ctx = Some("rename_column");
                            }
                        }
                    },
                }
            }
            Op::Event { ev, model } => {
                let evn = ev.name();
                let mk = |obs: &str, ctx: Option<&'static str>| match ctx {
                    Some(c) => format!("C04/{}/{}/{}/{}", evn, walt, obs, c),
                    None => format!("C04/{}/{}/{}", evn, walt, obs),
                };
                let d = db.as_mut().unwrap();
                // ---- anchor of the AUTO_INCREMENT observation: an auto-assigned insert right before the event
                let mut anchors: BTreeMap<String, i64> = BTreeMap::new();
                for (name, m) in metas.iter() {
                    if m.live && m.autoinc && !m.cols.is_empty() {
                        runner_n += 1;
                        if let Ok(k) = auto_insert(d, name, m, runner_n) {
                            anchors.insert(name.clone(), k);
                        }
                    }
                }
                // ---- before
                let mut before: BTreeMap<String, (TabObs, Vec<Probe>)> = BTreeMap::new();
                for (name, m) in metas.iter() {
                    let (o, plan) = observe_table(d, name, None, m);
                    if let Ok((_, rows)) = &o.star {
                        out.max_rows = out.max_rows.max(rows.len());
                        out.toast_values += rows.iter().flatten().filter(|v| matches!(v, V::Text(s) if s.len() >= 1000)).count() as u64;
                    }
                    out.probes_run += plan.len() as u64;
                    // EXPLAIN: does an equality probe on a secondary index actually use it?
                    for p in plan.iter().filter(|p| p.kind == "index_lookup" && !p.sql.contains(" id ")).take(1) {
                        if let Some(plan_text) = d.explain(&p.sql) {
                            if plan_text.to_lowercase().contains("index") {
                                out.probes_using_index += 1;
                            }
                        }
                    }
                    before.insert(name.clone(), (o, plan));
                }
                if full {
                    // generator model (row counts) vs observation, for tables whose ids the generator chooses itself
                    let agree = model.iter().all(|(t, n)| match (metas.get(t), before.get(t)) {
                        (Some(m), Some((o, _))) if !m.autoinc => o.star.as_ref().map(|s| s.1.len()).ok() == Some(*n + runner_added.get(t).copied().unwrap_or(0)),
                        _ => true,
                    });
                    if agree {
                        out.model_agree += 1;
                    } else {
                        out.model_desync += 1;
                    }
                }
                let frames_before = frame_count(d);
                let wal_before = wal_files(dir);
                // ---- the event
                let mut ev_err: Option<String> = None;
                let mut copy_ids: BTreeMap<String, Result<i64, String>> = BTreeMap::new();
                match ev {
                    Ev::Checkpoint => match catch(|| d.db.checkpoint()) {
                        Ok(Ok(_)) => {}
                        Ok(Err(e)) => ev_err = Some(format!("{:#}", e)),
                        Err(p) => ev_err = Some(format!("PANIC: {}", p)),
                    },
                    Ev::PragmaCheckpoint => {
                        if let Err(e) = d.exec("PRAGMA wal_checkpoint") {
                            ev_err = Some(e);
                        }
                    }
                    Ev::AutoCheckpoint { with_update, threshold } => {
                        let mut stmts = vec![format!("PRAGMA wal_checkpoint_threshold = {}", threshold), "BEGIN".to_string()];
                        if *with_update {
                            // rewrite one stored value with itself: dirties pages, changes nothing
                            'find: for (name, (o, _)) in before.iter() {
                                if !metas.get(name).map(|m| m.live).unwrap_or(false) {
                                    continue;
                                }
                                if let Ok((cols, rows)) = &o.star {
                                    for r in rows.iter().rev() {
                                        for (ci, v) in r.iter().enumerate().skip(1) {
                                            if matches!(v, V::Int(_) | V::Text(_)) && matches!(r[0], V::Int(_)) && cols[0].eq_ignore_ascii_case("id") {
                                                stmts.push(format!("UPDATE {} SET {} = {} WHERE id = {}", name, cols[ci], v.sql(), r[0].sql()));
                                                break 'find;
                                            }
                                        }
                                    }
                                }
                            }
                        }
                        stmts.push("COMMIT".to_string());
                        stmts.push("PRAGMA wal_checkpoint_threshold = 1000".to_string());
                        for s in stmts {
                            out.log.push(format!("   {}", elide(&s)));
                            if let Err(e) = d.exec(&s) {
                                ev_err = Some(format!("{} -> {}", elide(&s).chars().take(80).collect::<String>(), e));
                                let _ = d.exec("ROLLBACK");
                                break;
                            }
                        }
                    }
                    Ev::CloseOpen | Ev::DropOpen => {
                        let old = db.take().unwrap();
                        if *ev == Ev::CloseOpen {
                            match catch(|| old.db.close()) {
                                Ok(Ok(_)) => {}
                                Ok(Err(e)) => ev_err = Some(format!("close: {:#}", e)),
                                Err(p) => ev_err = Some(format!("PANIC: {}", p)),
                            }
                        }
                        drop(old);
                        // AUTO_INCREMENT through a COPY of the closed directory (does not perturb the history)
                        if !anchors.is_empty() && ev_err.is_none() {
                            let _ = std::fs::remove_dir_all(probe_dir);
                            if copy_dir(dir, probe_dir).is_ok() {
                                if let Ok(mut c) = Db::open(probe_dir) {
                                    for (name, _) in anchors.iter() {
                                        runner_n += 1;
                                        copy_ids.insert(name.clone(), auto_insert(&mut c, name, &metas[name], runner_n));
                                        out.copy_probes += 1;
                                    }
                                    let _ = catch(|| c.db.close());
                                }
                            }
                            let _ = std::fs::remove_dir_all(probe_dir);
                        }
                        if ev_err.is_none() {
                            match Db::open(dir) {
                                Ok(mut nd) => {
                                    if wal {
                                        if let Err(e) = nd.exec("PRAGMA wal = ON") {
                                            ev_err = Some(format!("PRAGMA wal = ON after open: {}", e));
                                        }
                                    }
                                    db = Some(nd);
                                }
                                Err(e) => ev_err = Some(format!("open: {}", e)),
                            }
                        }
                    }
                }
                out.events_judged += 1;
                if let Some(e) = ev_err {
                    let obs = format!("error:{}", err_class(&e));
                    out.viol = Some(Viol { sig: mk(&obs, None), assertion: obs, detail: json!({"event": format!("{:?}", ev), "error": e}), op_index: i });
                    return out;
                }
                let d = db.as_mut().unwrap();
                let frames_after = frame_count(d);
                let worked = match ev {
                    Ev::CloseOpen | Ev::DropOpen => before.values().any(|(o, _)| o.star.as_ref().map(|s| !s.1.is_empty()).unwrap_or(false)),
                    _ => wal && frames_before.unwrap_or(0) > 0 && (frames_after.unwrap_or(0) < frames_before.unwrap_or(0) || wal_files(dir) != wal_before),
                };
                out.event_kinds.push((evn, worked));
                // ---- after: the same probes
                for (name, (bo, plan)) in before.iter() {
                    let m = &metas[name];
                    let (ao, _) = observe_table(d, name, Some(plan), m);
                    if let Some((obs, detail)) = compare_obs(name, bo, &ao, plan) {
                        out.viol = Some(Viol { sig: mk(&obs, m.ctx), assertion: obs, detail: json!({"event": format!("{:?}", ev), "frames_before": frames_before, "frames_after": frames_after, "change": detail}), op_index: i });
                        return out;
                    }
                }
                // ---- a clean insert with a fresh explicit id must work and be readable after the event
                for (name, m) in metas.iter() {
                    if !m.live || m.autoinc {
                        continue;
                    }
                    let Some((bo, _)) = before.get(name) else { continue };
                    let Ok((cols, _)) = &bo.star else { continue };
                    let want_cols: BTreeSet<String> = std::iter::once("id".to_string()).chain(m.cols.iter().map(|c| c.0.to_lowercase())).collect();
                    let have: BTreeSet<String> = cols.iter().map(|c| c.to_lowercase()).collect();
                    if want_cols != have {
                        continue; // shape unknown to the runner (can happen while shrinking): not judged
                    }
                    runner_n += 1;
                    let id = 700_000_000 + runner_n;
                    let (names, vals) = runner_row(m, runner_n);
                    let sql = if names.is_empty() { format!("INSERT INTO {} (id) VALUES ({})", name, id) } else { format!("INSERT INTO {} (id, {}) VALUES ({}, {})", name, names.join(", "), id, vals.iter().map(|v| v.sql()).collect::<Vec<_>>().join(", ")) };
                    if let Err(e) = d.exec(&sql) {
                        let obs = format!("error:insert_after_{}", err_class(&e));
                        out.viol = Some(Viol { sig: mk(&obs, m.ctx), assertion: obs, detail: json!({"event": format!("{:?}", ev), "sql": elide(&sql), "error": e, "note": "a clean INSERT with a fresh primary key right after the event"}), op_index: i });
                        return out;
                    }
                    *runner_added.entry(name.clone()).or_insert(0) += 1;
                    let q = format!("SELECT * FROM {} WHERE id = {}", name, id);
                    match d.query(&q) {
                        Ok(rows) if rows.len() == 1 => {}
                        other => {
                            out.viol = Some(Viol { sig: mk("rows", m.ctx), assertion: "rows".into(), detail: json!({"event": format!("{:?}", ev), "inserted_after_event": elide(&sql), "read_back": q, "got": format!("{:?}", other).chars().take(300).collect::<String>()}), op_index: i });
                            return out;
                        }
                    }
                }
                // ---- AUTO_INCREMENT: the pair of inserts straddling the event gets consecutive ids
                for (name, k) in anchors.iter() {
                    let m = &metas[name];
                    if let Some(Ok(kc)) = copy_ids.get(name) {
                        if *kc != k + 1 {
                            out.viol = Some(Viol { sig: mk("auto_increment", m.ctx), assertion: "auto_increment".into(), detail: json!({"event": format!("{:?}", ev), "table": name, "id_assigned_before_event": k, "id_assigned_in_copy_of_closed_directory": kc, "want": k + 1}), op_index: i });
                            return out;
                        }
                    }
                    runner_n += 1;
                    match auto_insert(d, name, m, runner_n) {
                        Ok(k2) => {
                            out.autoinc_pairs += 1;
                            if k2 != k + 1 {
                                out.viol = Some(Viol { sig: mk("auto_increment", m.ctx), assertion: "auto_increment".into(), detail: json!({"event": format!("{:?}", ev), "table": name, "id_assigned_before_event": k, "id_assigned_after_event": k2, "want": k + 1}), op_index: i });
                                return out;
                            }
                        }
                        Err(e) => {
                            let obs = format!("error:insert_after_{}", err_class(&e));
                            out.viol = Some(Viol { sig: mk(&obs, m.ctx), assertion: obs, detail: json!({"event": format!("{:?}", ev), "table": name, "error": e, "note": "the same auto-assigned insert succeeded right before the event"}), op_index: i });
                            return out;
                        }
                    }
                }
            }
        }
    }
    if let Some(d) = db.take() {
        let _ = catch(|| d.db.close());
    }
    out
}

// ---------------------------------------------------------------- shrinking

fn shrink(ops: &[Op], wal: bool, sig: &str, dir: &Path, probe_dir: &Path, budget: usize, deadline: std::time::Instant) -> Vec<Op> {
    let mut cur: Vec<Op> = ops.to_vec();
    let mut runs = 0usize;
    let fails = |cand: &[Op], runs: &mut usize| -> bool {
        *runs += 1;
        run_history(cand, wal, dir, probe_dir, false).viol.map(|v| v.sig == sig).unwrap_or(false)
    };
    {
        let o = run_history(&cur, wal, dir, probe_dir, false);
        if let Some(v) = o.viol.iter().find(|v| v.sig == sig) {
            cur.truncate(v.op_index + 1);
        }
    }
    let mut n = 2usize;
    while cur.len() >= 2 && runs < budget && std::time::Instant::now() < deadline {
        let chunk = (cur.len() + n - 1) / n;
        let mut reduced = false;
        let mut start = 0;
        while start < cur.len() && runs < budget && std::time::Instant::now() < deadline {
            let end = (start + chunk).min(cur.len());
            let cand: Vec<Op> = cur[..start].iter().chain(cur[end..].iter()).cloned().collect();
            if !cand.is_empty() && fails(&cand, &mut runs) {
                cur = cand;
                n = n.saturating_sub(1).max(2);
                reduced = true;
                break;
            }
            start = end;
        }
        if !reduced {
            if chunk <= 1 {
                break;
            }
            n = (n * 2).min(cur.len());
        }
    }
    cur
}

// ---------------------------------------------------------------- entry point

pub fn run(a: &Args) -> i32 {
    let mut ctx = Ctx::new(
        "C04",
        &a.tier,
        a.seed,
        "exploration",
        "generated constraint-clean histories (15..45 statements: CREATE TABLE with id BIGINT PRIMARY KEY [AUTO_INCREMENT] and 1..4 typed columns, multi-row INSERT with non-monotonic ids, UPDATE/DELETE by key, by a small-domain column and by id range, CREATE [UNIQUE] INDEX, and in strata DROP INDEX / TRUNCATE / DROP+CREATE TABLE / ALTER TABLE, 70..130-row tables, TEXT values of 900..17000 bytes around the 1000-byte TOAST threshold), WAL ON (`PRAGMA wal = ON`, re-issued after every open) and OFF, with up to 12 events per history (at most 6 reopen cycles): db.checkpoint(), PRAGMA wal_checkpoint, auto-checkpoint (PRAGMA wal_checkpoint_threshold = 1..3; BEGIN; [UPDATE that rewrites a stored value with itself;] COMMIT), close()+open, drop+open. Oracle: observation vector before == after (model-free): column names, row bag, COUNT(*), equality/range/ORDER BY probes on the primary key and every indexed column with identical SQL on both sides, consecutive auto-assigned ids across the event (and in a copy of the closed directory), and a clean insert + read-back after the event. evaluations = judged events; distinct_nontrivial = distinct (history, event) pairs in which the event did measurable work (reopen of non-empty tables, or WAL frame count dropped)",
    );
    let mut master = Rng::derive(a.seed, 4);
    let quick = ctx.quick();
    let budget_s = if quick { 36.0 } else { 470.0 };
    // shrinking runs on this thread: only early in the run, so that the wall budget holds
    let shrink_until_s = if quick { 22.0 } else { 400.0 };
    let max_hist = if cfg!(miri) { 0 } else if quick { 400 } else { 4000 };
    let max_shrinks = if quick { 3 } else { 60 };
    let scratch = Scratch::new("c04");
    // every history gets its own generator seeded from the C04 stream; workers only overlap the fsync waits
    let seeds: std::sync::Arc<Vec<u64>> = std::sync::Arc::new((0..max_hist).map(|_| master.next()).collect());
    let next = std::sync::Arc::new(std::sync::atomic::AtomicUsize::new(0));
    let stop = std::sync::Arc::new(std::sync::atomic::AtomicBool::new(false));
    let (tx, rx) = std::sync::mpsc::channel::<(Vec<Op>, Feats, RunOut)>();
    let nthreads = 6;
    let mut handles = vec![];
    for w in 0..nthreads {
        let (seeds, next, stop, tx) = (seeds.clone(), next.clone(), stop.clone(), tx.clone());
        let dir = scratch.root.join(format!("w{}", w));
        let pdir = scratch.root.join(format!("w{}copy", w));
        handles.push(std::thread::spawn(move || loop {
            if stop.load(std::sync::atomic::Ordering::Relaxed) {
                break;
            }
            let idx = next.fetch_add(1, std::sync::atomic::Ordering::Relaxed);
            if idx >= seeds.len() {
                break;
            }
            let mut rng = Rng::new(seeds[idx]);
            let target = rng.usize(15, 45);
            let (ops, feats) = gen_history(&mut rng, target);
            let out = run_history(&ops, feats.wal, &dir, &pdir, true);
            if tx.send((ops, feats, out)).is_err() {
                break;
            }
        }));
    }
    drop(tx);
    let mut shrunk: BTreeSet<String> = BTreeSet::new();
    let mut first_of_sig: BTreeMap<String, J> = BTreeMap::new();
    let mut by_event: BTreeMap<String, u64> = BTreeMap::new();
    let mut by_feat: BTreeMap<&'static str, u64> = BTreeMap::new();
    for (ops, feats, out) in rx {
        if ctx.elapsed() > budget_s {
            stop.store(true, std::sync::atomic::Ordering::Relaxed);
        }
        ctx.evals(out.events_judged);
        ctx.count("histories", 1);
        ctx.count("statement_errors_not_judged", out.stmt_errors);
        ctx.count("probes_planned", out.probes_run);
        ctx.count("histories_where_explain_shows_index_use", (out.probes_using_index > 0) as u64);
        ctx.count("auto_increment_pairs", out.autoinc_pairs);
        ctx.count("auto_increment_copy_probes", out.copy_probes);
        ctx.count("events_row_counts_equal_generator_model", out.model_agree);
        ctx.count("events_row_counts_differ_from_generator_model_before_event", out.model_desync);
        ctx.count("toast_sized_values_observed", out.toast_values);
        if out.max_rows >= 70 {
            ctx.count("histories_with_70plus_row_table_at_event", 1);
        }
        for t in feats.tags() {
            *by_feat.entry(t).or_insert(0) += 1;
        }
        let text: String = ops.iter().map(|o| o.text()).collect::<Vec<_>>().join(";");
        let h = fnv(text.as_bytes());
        for (k, (evn, worked)) in out.event_kinds.iter().enumerate() {
            *by_event.entry(format!("{}/{}{}", evn, if feats.wal { "wal_on" } else { "wal_off" }, if *worked { "/did_work" } else { "" })).or_insert(0) += 1;
            if *worked {
                ctx.nontrivial(h ^ (k as u64 + 1).wrapping_mul(0x9E3779B97F4A7C15));
            }
        }
        if out.viol.is_none() && ctx.samples.len() < 3 && out.events_judged >= 3 {
            ctx.sample(json!({"features": feats.tags(), "history": out.log.iter().take(40).collect::<Vec<_>>()}));
        }
        if !out.stmt_error_samples.is_empty() && ctx.extra.get("statement_error_samples").map(|v| v.as_array().map(|a| a.len()).unwrap_or(0)).unwrap_or(0) < 6 {
            let mut cur: Vec<J> = ctx.extra.get("statement_error_samples").and_then(|v| v.as_array().cloned()).unwrap_or_default();
            cur.push(json!(out.stmt_error_samples[0]));
            ctx.extra.insert("statement_error_samples".into(), J::Array(cur));
        }
        let all: Vec<Viol> = out.viol.iter().cloned().collect();
        for v in all {
            let known = ctx.is_known(&v.sig).is_some();
            let mut minimal: Option<Vec<String>> = None;
            let mut minimal_detail: Option<J> = None;
            if !known && !shrunk.contains(&v.sig) && shrunk.len() < max_shrinks && ctx.elapsed() < shrink_until_s {
                shrunk.insert(v.sig.clone());
                let sdir = scratch.dir("shrink");
                let pdir = scratch.dir("shrinkcopy");
                let small = shrink(&ops, feats.wal, &v.sig, &sdir, &pdir, if quick { 30 } else { 120 }, ctx.start + std::time::Duration::from_secs_f64(if quick { 30.0 } else { 440.0 }));
                let again = run_history(&small, feats.wal, &sdir, &pdir, false);
                minimal_detail = again.viol.iter().find(|x| x.sig == v.sig).map(|x| x.detail.clone());
                minimal = Some(small.iter().map(|o| o.text()).collect());
            }
            if !known && (!first_of_sig.contains_key(&v.sig) || (minimal.is_some() && first_of_sig[&v.sig].get("minimal_history").map(|m| m.is_null()).unwrap_or(true))) && first_of_sig.len() < 60 {
                first_of_sig.insert(v.sig.clone(), json!({"minimal_history": minimal.clone(), "minimal_detail": minimal_detail.clone(), "detail": v.detail.clone(), "features": feats.tags(), "history": if minimal.is_none() { json!(out.log) } else { J::Null }}));
            }
            ctx.violation(&v.assertion, &v.sig, json!({"features": feats.tags(), "event_index": v.op_index, "detail": v.detail, "history": out.log, "minimal_history": minimal, "minimal_detail": minimal_detail}));
        }
    }
    for h in handles {
        let _ = h.join();
    }
    ctx.extra.insert("events_by_kind".into(), json!(by_event));
    ctx.extra.insert("histories_by_feature".into(), json!(by_feat));
    if !first_of_sig.is_empty() {
        ctx.extra.insert("unexplained_first_of_signature".into(), json!(first_of_sig));
    }
    ctx.assumptions.push("AUTO_INCREMENT assigns last+1 to two consecutive auto-assigned inserts (README: sequential values); PRAGMA wal is a per-handle setting and is re-issued after every open; statement results are not judged (only counted) so DML-semantics defects cannot raise a C04 alarm; a copy of the database directory is only opened while no handle is open".into());
    ctx.finish()
}

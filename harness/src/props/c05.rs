//! C05: DML results match the relational reference model (engine in dmlengine.rs).
use super::dmlengine::{run_prop, Focus};
use crate::Args;

pub fn run(a: &Args) -> i32 {
    run_prop(a, "C05", Focus::Dml, "generated histories (1-2 tables with/without integer PK, optional AUTO_INCREMENT, typed columns, per-history strata: DEFAULTs incl. negative ones and explicit NULLs, plain/UNIQUE/two-column secondary indexes, text of 900-1100 / ~4000 / ~5000 bytes around the 1000-byte TOAST threshold, transactions; every sixth history uses the constraint-heavy FK schemas of C09) of <= 40 statements: single/multi-row INSERT with optional column list and RETURNING, re-insert of deleted keys, UPDATE (literals, col+k, col=other col, key columns) and DELETE with point predicates on live / already deleted / never present keys, ranges, IS NULL and generated predicates, DELETE without WHERE followed by INSERTs, TRUNCATE. Executed statement by statement on TurDB and on the relational model; compared after every statement: ok-vs-error, rows_affected, RETURNING bag, every table's bag, COUNT(*) vs visible rows, and that rows deleted earlier do not reappear. Every violation is minimised (statement list, rows, SET items, WHERE, column list, schema attributes and columns) before it is signed. distinct_nontrivial = distinct histories with more than 8 executed statements")
}

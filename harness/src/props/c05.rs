//! C05: DML results match the relational reference model (engine in dmlengine.rs).
use super::dmlengine::{run_prop, Focus};
use crate::Args;

pub fn run(a: &Args) -> i32 {
    run_prop(a, "C05", Focus::Dml, "generated histories (1-2 tables with/without integer PK, typed columns, optional secondary index; <= 40 statements: single/multi-row INSERT with optional column list and RETURNING, UPDATE/DELETE with point or generated predicates incl. keys already deleted, TRUNCATE, occasional transactions) executed on TurDB and on the relational model; after every statement rows_affected / RETURNING bag / full table bags / COUNT(*) are compared. distinct_nontrivial = distinct histories with more than 8 executed statements")
}

//! C06: a failing statement has no effect (engine in dmlengine.rs, focus = statements that must fail).
use super::dmlengine::{run_prop, Focus};
use crate::Args;

pub fn run(a: &Args) -> i32 {
    run_prop(a, "C06", Focus::Failing, "generated histories over constraint-bearing schemas (PK, UNIQUE, NOT NULL, CHECK) in which about a third of INSERT/UPDATE statements are built to fail at a random row k of a multi-row statement (duplicate key, NULL into NOT NULL, CHECK violation); whenever the model and TurDB both reject a statement, every table bag and COUNT(*) must equal the state before it. distinct_nontrivial = distinct histories containing at least one statement rejected by both")
}

//! C06: a failing statement has no effect (engine in dmlengine.rs, focus = statements that must fail).
use super::dmlengine::{run_prop, Focus};
use crate::Args;

pub fn run(a: &Args) -> i32 {
    run_prop(a, "C06", Focus::Failing, "generated histories over constraint-bearing schemas (PK, UNIQUE, UNIQUE INDEX, NOT NULL, CHECK, FK with RESTRICT/CASCADE and ON UPDATE RESTRICT; every fifth history uses the 2-3 table schemas of C09) in which about 40% of INSERT/UPDATE statements are built to fail: one chosen constraint is violated by the k-th row of a multi-row INSERT (k = first/middle/last, duplicate of an existing key or of an earlier row of the same statement, NULL into NOT NULL, CHECK, missing FK parent) or by some of the rows of a multi-row UPDATE (SET u = existing value, SET c = c + k across a CHECK bound, SET nn = nullable column, SET fk = fk + k, parent key updates, parent deletes under RESTRICT). Whenever the model and TurDB both reject a statement, every table's bag and COUNT(*) must equal the state before it (unchanged_after_error); the history then continues (the model is re-synchronised at most twice if TurDB left rows behind). distinct_nontrivial = distinct histories containing at least one statement rejected by both")
}

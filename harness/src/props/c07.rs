//! C07: ROLLBACK / ROLLBACK TO SAVEPOINT restore the earlier state.
//!
//! Self-contained monitor (does not use the shared DML engine). The oracle is TurDB itself:
//! an *observation vector* (table bag, COUNT(*), point lookups on every indexed column for a fixed
//! probe set, range lookups) is taken right before BEGIN and right after every SAVEPOINT; after
//! ROLLBACK / ROLLBACK TO / dropping the handle with the transaction open, the same vector is taken
//! again and must be equal. No reference model is involved in that comparison, so defects of the
//! statements executed *inside* the transaction cannot be blamed on the rollback.
//! After a full rollback a list of later INSERTs (keys that existed / did not exist at BEGIN) is run
//! on the rolled-back database and on a *control* database that executed only the statements before
//! BEGIN; accept/reject outcomes and the final observation vectors must agree (judged only when the
//! control behaves as the snapshot predicts).
//! A failing case is shrunk (statements, savepoint structure, table features, way of ending the
//! transaction) and the signature is built from the minimal case.
use crate::report::{catch, Ctx};
use crate::rng::{fnv, Rng};
use crate::sqlm::cmp::bag_diff;
use crate::sqlm::db::{conv_rows, is_panic, panic_tag, Scratch};
use crate::sqlm::val::{rows_json, Row, V};
use crate::Args;
use serde_json::{json, Value as J};
use std::collections::{BTreeMap, BTreeSet};
use std::path::Path;

// ------------------------------------------------------------------------------------------ cases

#[derive(Clone, Copy, Debug, PartialEq, Eq, PartialOrd, Ord)]
enum KeyKind {
    NoPk,
    IntPk,
    TextPk,
}

/// one table `t`: [id BIGINT PRIMARY KEY | k TEXT PRIMARY KEY | -], [u BIGINT UNIQUE], a BIGINT, tag TEXT, p TEXT
#[derive(Clone, Copy, Debug, PartialEq, Eq)]
struct Spec {
    key: KeyKind,
    uniq: bool,
    idx_a: bool,
}

impl Spec {
    fn create_sql(&self) -> Vec<String> {
        let mut cols = vec![];
        match self.key {
            KeyKind::IntPk => cols.push("id BIGINT PRIMARY KEY".to_string()),
            KeyKind::TextPk => cols.push("k TEXT PRIMARY KEY".to_string()),
            KeyKind::NoPk => {}
        }
        if self.uniq {
            cols.push("u BIGINT UNIQUE".into());
        }
        cols.push("a BIGINT".into());
        cols.push("tag TEXT".into());
        cols.push("p TEXT".into());
        let mut out = vec![format!("CREATE TABLE t ({})", cols.join(", "))];
        if self.idx_a {
            out.push("CREATE INDEX ix_a ON t (a)".into());
        }
        out
    }
    fn traits(&self) -> String {
        format!(
            "{}{}{}",
            match self.key {
                KeyKind::NoPk => "nopk",
                KeyKind::IntPk => "intpk",
                KeyKind::TextPk => "textpk",
            },
            if self.uniq { "+unique" } else { "" },
            if self.idx_a { "+index" } else { "" }
        )
    }
    fn key_col(&self) -> Option<&'static str> {
        match self.key {
            KeyKind::IntPk => Some("id"),
            KeyKind::TextPk => Some("k"),
            KeyKind::NoPk => None,
        }
    }
    fn key_lit(&self, key: u32) -> String {
        match self.key {
            KeyKind::TextPk => format!("'k{:04}'", key),
            _ => format!("{}", key),
        }
    }
    /// index of the key column in `SELECT *` and the model value of a key
    fn key_val(&self, key: u32) -> V {
        match self.key {
            KeyKind::TextPk => V::Text(format!("k{:04}", key)),
            _ => V::Int(key as i64),
        }
    }
    fn u_pos(&self) -> Option<usize> {
        if self.uniq {
            Some(if self.key == KeyKind::NoPk { 0 } else { 1 })
        } else {
            None
        }
    }
}

/// abstract row; the tag column is always `t<key>` so that every table variant can address a row
#[derive(Clone, Debug, PartialEq)]
struct R {
    key: u32,
    u: i64,
    a: Option<i64>,
    p: Option<String>,
}

fn sql_text(s: &str) -> String {
    format!("'{}'", s.replace('\'', "''"))
}

fn row_sql(spec: &Spec, r: &R) -> String {
    let mut v = vec![];
    if spec.key != KeyKind::NoPk {
        v.push(spec.key_lit(r.key));
    }
    if spec.uniq {
        v.push(format!("{}", r.u));
    }
    v.push(r.a.map(|x| x.to_string()).unwrap_or_else(|| "NULL".into()));
    v.push(format!("'t{}'", r.key));
    v.push(r.p.as_ref().map(|s| sql_text(s)).unwrap_or_else(|| "NULL".into()));
    format!("({})", v.join(", "))
}

#[derive(Clone, Debug, PartialEq)]
enum Pred {
    Key(u32),
    U(i64),
    A(i64),
    All,
}

impl Pred {
    fn sql(&self, spec: &Spec) -> Option<String> {
        Some(match self {
            Pred::Key(k) => match spec.key_col() {
                Some(c) => format!(" WHERE {} = {}", c, spec.key_lit(*k)),
                None => format!(" WHERE tag = 't{}'", k),
            },
            Pred::U(v) => {
                if !spec.uniq {
                    return None;
                }
                format!(" WHERE u = {}", v)
            }
            Pred::A(v) => format!(" WHERE a = {}", v),
            Pred::All => String::new(),
        })
    }
    fn hits(&self, r: &R) -> bool {
        match self {
            Pred::Key(k) => r.key == *k,
            Pred::U(v) => r.u == *v,
            Pred::A(v) => r.a == Some(*v),
            Pred::All => true,
        }
    }
}

#[derive(Clone, Debug, PartialEq)]
enum Op {
    Insert(Vec<R>),
    SetA(Pred, Option<i64>),
    IncA(Pred),
    SetP(Pred, Option<String>),
    SetU(Pred, i64),
    SetKey(Pred, u32),
    Delete(Pred),
}

const TOAST: usize = 1000; // turdb::storage::toast::TOAST_THRESHOLD

impl Op {
    fn sql(&self, spec: &Spec) -> Option<String> {
        Some(match self {
            Op::Insert(rows) => format!("INSERT INTO t VALUES {}", rows.iter().map(|r| row_sql(spec, r)).collect::<Vec<_>>().join(", ")),
            Op::SetA(p, v) => format!("UPDATE t SET a = {}{}", v.map(|x| x.to_string()).unwrap_or_else(|| "NULL".into()), p.sql(spec)?),
            Op::IncA(p) => format!("UPDATE t SET a = a + 1{}", p.sql(spec)?),
            Op::SetP(p, v) => format!("UPDATE t SET p = {}{}", v.as_ref().map(|s| sql_text(s)).unwrap_or_else(|| "NULL".into()), p.sql(spec)?),
            Op::SetU(p, v) => {
                if !spec.uniq {
                    return None;
                }
                format!("UPDATE t SET u = {}{}", v, p.sql(spec)?)
            }
            Op::SetKey(p, k) => match spec.key_col() {
                Some(c) => format!("UPDATE t SET {} = {}, tag = 't{}'{}", c, spec.key_lit(*k), k, p.sql(spec)?),
                None => format!("UPDATE t SET tag = 't{}'{}", k, p.sql(spec)?),
            },
            Op::Delete(p) => format!("DELETE FROM t{}", p.sql(spec)?),
        })
    }
    /// statement kind for signatures
    fn kind(&self) -> &'static str {
        match self {
            Op::Insert(rows) => {
                if rows.iter().any(|r| r.p.as_ref().map(|s| s.len() > TOAST).unwrap_or(false)) {
                    "insert_toast"
                } else {
                    "insert"
                }
            }
            Op::SetA(..) | Op::IncA(..) => "update_a",
            Op::SetP(_, v) => {
                if v.as_ref().map(|s| s.len() > TOAST).unwrap_or(false) {
                    "update_payload_toast"
                } else {
                    "update_payload"
                }
            }
            Op::SetU(..) => "update_unique_col",
            Op::SetKey(..) => "update_key",
            Op::Delete(..) => "delete",
        }
    }
    fn apply(&self, rows: &mut Vec<R>) {
        match self {
            Op::Insert(n) => rows.extend(n.iter().cloned()),
            Op::SetA(p, v) => rows.iter_mut().filter(|r| p.hits(r)).for_each(|r| r.a = *v),
            Op::IncA(p) => rows.iter_mut().filter(|r| p.hits(r)).for_each(|r| r.a = r.a.map(|x| x + 1)),
            Op::SetP(p, v) => rows.iter_mut().filter(|r| p.hits(r)).for_each(|r| r.p = v.clone()),
            Op::SetU(p, v) => rows.iter_mut().filter(|r| p.hits(r)).for_each(|r| r.u = *v),
            Op::SetKey(p, k) => rows.iter_mut().filter(|r| p.hits(r)).for_each(|r| r.key = *k),
            Op::Delete(p) => rows.retain(|r| !p.hits(r)),
        }
    }
}

#[derive(Clone, Debug, PartialEq)]
enum Step {
    Op(Op),
    Begin,
    Savepoint(u32),
    RollbackTo(u32),
    Release(u32),
    Rollback,
    Commit,
    /// drop the handle with the transaction open, `Database::open` the same path
    DropReopen,
    /// clone the handle, drop the original with the transaction open, observe through the clone
    DropClone,
}

impl Step {
    fn sql(&self, spec: &Spec) -> Option<String> {
        Some(match self {
            Step::Op(o) => return o.sql(spec),
            Step::Begin => "BEGIN".into(),
            Step::Savepoint(i) => format!("SAVEPOINT sp{}", i),
            Step::RollbackTo(i) => format!("ROLLBACK TO sp{}", i),
            Step::Release(i) => format!("RELEASE sp{}", i),
            Step::Rollback => "ROLLBACK".into(),
            Step::Commit => "COMMIT".into(),
            Step::DropReopen => "-- drop(db); Database::open(path)".into(),
            Step::DropClone => "-- let c = db.clone(); drop(db); observe through c".into(),
        })
    }
}

#[derive(Clone, Debug)]
struct Case {
    spec: Spec,
    /// wrap the statements before BEGIN in their own BEGIN..COMMIT
    prefix_in_txn: bool,
    /// steps[..begin_at] are the autocommit prefix
    steps: Vec<Step>,
    probe_keys: Vec<u32>,
    probe_us: Vec<i64>,
    /// later inserts after a full rollback
    later: Vec<R>,
}

impl Case {
    fn script(&self) -> Vec<String> {
        let mut out = self.spec.create_sql();
        let mut in_prefix = true;
        if self.prefix_in_txn {
            out.push("BEGIN".into());
        }
        for s in &self.steps {
            if in_prefix && *s == Step::Begin {
                in_prefix = false;
                if self.prefix_in_txn {
                    out.push("COMMIT".into());
                }
            }
            if let Some(q) = s.sql(&self.spec) {
                out.push(q);
            }
        }
        out
    }
    /// for samples: long literals cut
    fn script_short(&self) -> Vec<String> {
        self.script().iter().map(|s| if s.len() > 240 { format!("{}… ({} bytes)", &s[..200], s.len()) } else { s.clone() }).collect()
    }
    /// kinds of the statements before BEGIN other than plain inserts (part of the signature when a minimal case needs them)
    fn pre_kinds(&self) -> BTreeSet<String> {
        let mut out = BTreeSet::new();
        for s in &self.steps {
            match s {
                Step::Begin => break,
                Step::Op(op) if op.sql(&self.spec).is_some() && !op.kind().starts_with("insert") => {
                    // whether a TOASTed value exists at the snapshot is a measured fact of its own (`toast_at_snapshot`)
                    out.insert(op.kind().trim_end_matches("_toast").to_string());
                }
                _ => {}
            }
        }
        if self.prefix_in_txn {
            out.insert("committed_txn".to_string());
        }
        out
    }
    fn hash(&self) -> u64 {
        let mut s = self.spec.traits();
        for st in &self.steps {
            s.push_str(&st.sql(&self.spec).unwrap_or_default());
            s.push(';');
        }
        fnv(s.as_bytes())
    }
}

// ------------------------------------------------------------------------------------- generation

fn payload(rng: &mut Rng, n: u64) -> Option<String> {
    let r = rng.below(100);
    let len = if r < 8 {
        return None;
    } else if r < 45 {
        rng.usize(1, 12)
    } else if r < 75 {
        rng.usize(40, 260)
    } else if r < 96 {
        rng.usize(300, 900)
    } else {
        rng.usize(1100, 2600)
    };
    Some(pad(n, len))
}

fn pad(n: u64, len: usize) -> String {
    let mut s = format!("p{}-", n);
    let alphabet = b"abcdefghijklmnopqrstuvwxyz";
    let mut i = n as usize;
    while s.len() < len {
        s.push(alphabet[i % 26] as char);
        i += 7;
    }
    s.truncate(len.max(1));
    s
}

struct G<'a> {
    rng: &'a mut Rng,
    key_max: u32,
    rows: Vec<R>,
    at_begin: Vec<R>,
    ctr: u64,
}

const U_LO: i64 = 100;
const U_HI: i64 = 180;

impl<'a> G<'a> {
    fn fresh_key(&mut self, prefer_grave: bool) -> Option<u32> {
        if prefer_grave {
            let grave: Vec<u32> = self.at_begin.iter().map(|r| r.key).filter(|k| !self.rows.iter().any(|r| r.key == *k)).collect();
            if !grave.is_empty() {
                return Some(*self.rng.pick(&grave));
            }
        }
        for _ in 0..40 {
            let k = self.rng.range(1, self.key_max as i64) as u32;
            if !self.rows.iter().any(|r| r.key == k) {
                return Some(k);
            }
        }
        None
    }
    fn fresh_u(&mut self, prefer_grave: bool) -> i64 {
        if prefer_grave {
            let grave: Vec<i64> = self.at_begin.iter().map(|r| r.u).filter(|u| !self.rows.iter().any(|r| r.u == *u)).collect();
            if !grave.is_empty() {
                return *self.rng.pick(&grave);
            }
        }
        loop {
            // the pool grows with the table so that a free value always exists
            let hi = U_HI.max(U_LO + 2 * self.rows.len() as i64 + 8);
            let u = self.rng.range(U_LO, hi);
            if !self.rows.iter().any(|r| r.u == u) {
                return u;
            }
        }
    }
    fn new_row(&mut self, prefer_grave: bool) -> Option<R> {
        let key = self.fresh_key(prefer_grave)?;
        let grave_u = prefer_grave && self.rng.chance(1, 2);
        let u = self.fresh_u(grave_u);
        self.ctr += 1;
        let a = if self.rng.chance(1, 10) { None } else { Some(self.rng.range(0, 9)) };
        let p = payload(self.rng, self.ctr);
        Some(R { key, u, a, p })
    }
    fn pred(&mut self, single: bool) -> Pred {
        let r = self.rng.below(100);
        if self.rows.is_empty() {
            return Pred::Key(self.rng.range(1, self.key_max as i64) as u32);
        }
        let row = self.rng.pick(&self.rows).clone();
        if r < 60 || (single && r < 88) {
            Pred::Key(row.key)
        } else if single || r < 70 {
            Pred::U(row.u)
        } else if r < 90 {
            match row.a {
                Some(a) => Pred::A(a),
                None => Pred::Key(row.key),
            }
        } else if r < 95 {
            Pred::All
        } else {
            Pred::Key(self.rng.range(1, self.key_max as i64) as u32)
        }
    }
    fn op(&mut self, in_txn: bool) -> Op {
        loop {
            let r = self.rng.below(100);
            let op = if r < 30 || self.rows.len() < 2 {
                let n = if self.rng.chance(1, 3) { self.rng.usize(2, 4) } else { 1 };
                let mut v: Vec<R> = vec![];
                for _ in 0..n {
                    let grave = in_txn && self.rng.chance(1, 3);
                    if let Some(row) = self.new_row(grave) {
                        if !v.iter().any(|x| x.key == row.key || x.u == row.u) {
                            v.push(row);
                        }
                    }
                }
                if v.is_empty() {
                    continue;
                }
                Op::Insert(v)
            } else if r < 45 {
                let v = if self.rng.chance(1, 8) { None } else { Some(self.rng.range(0, 9)) };
                Op::SetA(self.pred(false), v)
            } else if r < 50 {
                Op::IncA(self.pred(false))
            } else if r < 63 {
                self.ctr += 1;
                let p = payload(self.rng, self.ctr);
                Op::SetP(self.pred(false), p)
            } else if r < 70 {
                let p = self.pred(true);
                let grave = in_txn && self.rng.chance(1, 3);
                let u = self.fresh_u(grave);
                Op::SetU(p, u)
            } else if r < 76 {
                let p = self.pred(true);
                let grave = in_txn && self.rng.chance(1, 3);
                match self.fresh_key(grave) {
                    Some(k) => Op::SetKey(p, k),
                    None => continue,
                }
            } else if r < 97 {
                Op::Delete(self.pred(false))
            } else {
                // deliberately failing statement: duplicate key (PK tables) / duplicate u
                let victim = self.rng.pick(&self.rows).clone();
                self.ctr += 1;
                Op::Insert(vec![R { key: victim.key, u: victim.u, a: Some(1), p: Some(pad(self.ctr, 5)) }])
            };
            // the generator's own bookkeeping (not an oracle): duplicates are not applied
            if let Op::Insert(v) = &op {
                if v.iter().any(|x| self.rows.iter().any(|r| r.key == x.key || r.u == x.u)) {
                    return op;
                }
            }
            op.apply(&mut self.rows);
            return op;
        }
    }
}

#[derive(Clone, Copy, PartialEq, Eq, Debug)]
enum Shape {
    Small,
    /// a few hundred rows with ~200-byte values inserted inside the transaction (root split in the txn)
    BulkInTxn,
    /// the table is already several pages deep (root moved) before BEGIN
    BulkPrefix,
}

fn gen_case(seed: u64, shape: Shape) -> Case {
    let mut rng = Rng::new(seed);
    let key = match rng.below(10) {
        0..=3 => KeyKind::IntPk,
        4..=6 => KeyKind::TextPk,
        _ => KeyKind::NoPk,
    };
    let spec = Spec { key, uniq: rng.chance(1, 2), idx_a: rng.chance(3, 5) };
    let key_max = if shape == Shape::Small { 40 } else { 900 };
    let prefix_in_txn = rng.chance(1, 5);
    let mut steps = vec![];
    let mut g = G { rng: &mut rng, key_max, rows: vec![], at_begin: vec![], ctr: 0 };
    let bulk = |g: &mut G, steps: &mut Vec<Step>| {
        let total = g.rng.usize(260, 420);
        let mut done = 0;
        while done < total {
            let mut v: Vec<R> = vec![];
            for _ in 0..25 {
                if let Some(key) = g.fresh_key(false) {
                    if v.iter().any(|x: &R| x.key == key) {
                        continue;
                    }
                    g.ctr += 1;
                    let u = 1000 + g.ctr as i64;
                    let len = g.rng.usize(160, 260);
                    v.push(R { key, u, a: Some(g.rng.range(0, 9)), p: Some(pad(g.ctr, len)) });
                }
            }
            done += v.len().max(1);
            if !v.is_empty() {
                let op = Op::Insert(v);
                op.apply(&mut g.rows);
                steps.push(Step::Op(op));
            }
        }
    };
    // prefix
    if shape == Shape::BulkPrefix {
        bulk(&mut g, &mut steps);
    }
    let npre = g.rng.usize(2, 9);
    for _ in 0..npre {
        let op = g.op(false);
        steps.push(Step::Op(op));
    }
    g.at_begin = g.rows.clone();
    steps.push(Step::Begin);
    if shape == Shape::BulkInTxn {
        if g.rng.chance(1, 3) {
            steps.push(Step::Savepoint(0));
        }
        bulk(&mut g, &mut steps);
    }
    // body
    let mut open: Vec<(u32, Vec<R>)> = vec![];
    if let Some(Step::Savepoint(0)) = steps.iter().find(|s| matches!(s, Step::Savepoint(_))) {
        open.push((0, g.at_begin.clone()));
    }
    let mut next_sp = 1u32;
    let nbody = g.rng.usize(1, 12);
    let mut touched_keys: BTreeSet<u32> = BTreeSet::new();
    let mut touched_us: BTreeSet<i64> = BTreeSet::new();
    for _ in 0..nbody {
        let r = g.rng.below(100);
        if r < 14 && open.len() < 3 {
            open.push((next_sp, g.rows.clone()));
            steps.push(Step::Savepoint(next_sp));
            next_sp += 1;
        } else if r < 26 && !open.is_empty() {
            let i = g.rng.below(open.len() as u64) as usize;
            g.rows = open[i].1.clone();
            steps.push(Step::RollbackTo(open[i].0));
            open.truncate(i + 1);
        } else if r < 31 && !open.is_empty() {
            // RELEASE destroys the savepoint and (standard SQL) all later ones: never referenced again
            let i = g.rng.below(open.len() as u64) as usize;
            steps.push(Step::Release(open[i].0));
            open.truncate(i);
        } else {
            let op = g.op(true);
            steps.push(Step::Op(op));
        }
    }
    for s in &steps {
        if let Step::Op(op) = s {
            match op {
                Op::Insert(v) => {
                    for r in v.iter().take(6) {
                        touched_keys.insert(r.key);
                        touched_us.insert(r.u);
                    }
                }
                Op::SetKey(Pred::Key(a), b) => {
                    touched_keys.insert(*a);
                    touched_keys.insert(*b);
                }
                Op::SetU(p, u) => {
                    touched_us.insert(*u);
                    if let Pred::U(x) = p {
                        touched_us.insert(*x);
                    }
                }
                Op::SetA(Pred::Key(k), _) | Op::IncA(Pred::Key(k)) | Op::SetP(Pred::Key(k), _) | Op::Delete(Pred::Key(k)) => {
                    touched_keys.insert(*k);
                }
                _ => {}
            }
        }
    }
    let end = match g.rng.below(100) {
        0..=64 => Step::Rollback,
        65..=78 => Step::DropReopen,
        79..=92 => Step::DropClone,
        _ => Step::Commit,
    };
    steps.push(end);
    // probe sets (fixed per case so that every observation asks the same questions)
    let at_begin = g.at_begin.clone();
    let now = g.rows.clone();
    let mut probe_keys: Vec<u32> = touched_keys.iter().copied().collect();
    let mut probe_us: Vec<i64> = touched_us.iter().copied().collect();
    for r in at_begin.iter().chain(now.iter()) {
        if probe_keys.len() < 48 && !probe_keys.contains(&r.key) {
            probe_keys.push(r.key);
        }
        if probe_us.len() < 48 && !probe_us.contains(&r.u) {
            probe_us.push(r.u);
        }
    }
    for _ in 0..4 {
        let k = g.rng.range(1, key_max as i64) as u32;
        if !probe_keys.contains(&k) {
            probe_keys.push(k);
        }
    }
    probe_keys.truncate(64);
    probe_us.truncate(64);
    // later inserts: keys/u values that existed at BEGIN (must be rejected where a PK/UNIQUE exists)
    // and ones that did not (must be accepted), preferring those the transaction touched
    let mut later = vec![];
    let existed = |k: u32| at_begin.iter().any(|r| r.key == k);
    let mut cand_exist: Vec<u32> = touched_keys.iter().copied().filter(|k| existed(*k)).collect();
    let mut cand_absent: Vec<u32> = touched_keys.iter().copied().filter(|k| !existed(*k)).collect();
    g.rng.shuffle(&mut cand_exist);
    g.rng.shuffle(&mut cand_absent);
    if let Some(r) = at_begin.first() {
        cand_exist.push(r.key);
    }
    cand_absent.push(key_max + 7);
    let mut n = 0u64;
    let mut fresh_u = 5000i64;
    let mut fresh_k = 5000u32;
    let mut used: BTreeSet<u32> = BTreeSet::new();
    for (i, k) in cand_absent.iter().take(3).chain(cand_exist.iter().take(3)).enumerate() {
        if !used.insert(*k) {
            continue;
        }
        n += 1;
        fresh_u += 1;
        later.push(R { key: *k, u: fresh_u, a: Some((i % 10) as i64), p: Some(pad(7000 + n, 9)) });
    }
    let uex = |u: i64| at_begin.iter().any(|r| r.u == u);
    let mut us_exist: Vec<i64> = touched_us.iter().copied().filter(|u| uex(*u)).collect();
    let mut us_absent: Vec<i64> = touched_us.iter().copied().filter(|u| !uex(*u)).collect();
    g.rng.shuffle(&mut us_exist);
    g.rng.shuffle(&mut us_absent);
    let mut used_u: BTreeSet<i64> = BTreeSet::new();
    for u in us_absent.iter().take(2).chain(us_exist.iter().take(2)) {
        if !used_u.insert(*u) {
            continue;
        }
        n += 1;
        fresh_k += 1;
        later.push(R { key: fresh_k, u: *u, a: Some(3), p: Some(pad(7000 + n, 9)) });
    }
    for r in &later {
        if !probe_keys.contains(&r.key) {
            probe_keys.push(r.key);
        }
        if !probe_us.contains(&r.u) {
            probe_us.push(r.u);
        }
    }
    Case { spec, prefix_in_txn, steps, probe_keys, probe_us, later }
}

// ------------------------------------------------------------------------------------ observation

#[derive(Clone, Debug)]
struct Lookup {
    /// pk_int | pk_text | unique | secondary | scan_a | range_pk | range_a
    class: &'static str,
    sql: String,
    res: Result<Vec<Row>, String>,
}

#[derive(Clone, Debug)]
struct Obs {
    dump: Result<Vec<Row>, String>,
    count: Result<i64, String>,
    lookups: Vec<Lookup>,
}

fn err_class(e: &str) -> String {
    if is_panic(e) {
        return format!("panic@{}", panic_tag(e));
    }
    e.split(|c: char| !c.is_ascii_alphabetic()).filter(|w| !w.is_empty()).take(6).collect::<Vec<_>>().join("_").to_lowercase()
}

struct H {
    db: Option<turdb::Database>,
    path: std::path::PathBuf,
}

impl H {
    fn exec(&self, sql: &str) -> Result<usize, String> {
        let db = self.db.as_ref().unwrap();
        match catch(|| db.execute(sql)) {
            Ok(Ok(r)) => Ok(match r {
                turdb::ExecuteResult::Insert { rows_affected, .. } | turdb::ExecuteResult::Update { rows_affected, .. } | turdb::ExecuteResult::Delete { rows_affected, .. } => rows_affected,
                _ => 0,
            }),
            Ok(Err(e)) => Err(format!("{:#}", e)),
            Err(p) => Err(format!("PANIC: {}", p)),
        }
    }
    fn query(&self, sql: &str) -> Result<Vec<Row>, String> {
        let db = self.db.as_ref().unwrap();
        match catch(|| db.query(sql)) {
            Ok(Ok(rows)) => Ok(conv_rows(&rows)),
            Ok(Err(e)) => Err(format!("{:#}", e)),
            Err(p) => Err(format!("PANIC: {}", p)),
        }
    }
    fn explain(&self, sql: &str) -> Option<String> {
        let db = self.db.as_ref().unwrap();
        match catch(|| db.execute(&format!("EXPLAIN {}", sql))) {
            Ok(Ok(turdb::ExecuteResult::Explain { plan })) => Some(plan),
            _ => None,
        }
    }
    /// size of table `t`'s file in pages (a growth during ROLLBACK means the undo split a B-tree node)
    fn table_pages(&self) -> u64 {
        std::fs::metadata(self.path.join("root").join("t.tbd")).map(|m| m.len() / 16384).unwrap_or(0)
    }
    /// root page of table `t` as recorded in its file header (measured, for the signature)
    fn table_root(&self) -> Option<u32> {
        let p = self.path.join("root").join("t.tbd");
        let bytes = std::fs::read(&p).ok()?;
        turdb::storage::TableFileHeader::from_bytes(&bytes).ok().map(|h| h.root_page())
    }
}

fn lookup_sqls(case: &Case) -> Vec<(&'static str, String)> {
    let spec = &case.spec;
    let mut out = vec![];
    if let Some(c) = spec.key_col() {
        let class = if spec.key == KeyKind::IntPk { "pk_int" } else { "pk_text" };
        for k in &case.probe_keys {
            out.push((class, format!("SELECT * FROM t WHERE {} = {}", c, spec.key_lit(*k))));
        }
        let mut ks = case.probe_keys.clone();
        ks.sort();
        if ks.len() >= 3 {
            let (lo, hi) = (ks[ks.len() / 4], ks[3 * ks.len() / 4]);
            out.push(("range_pk", format!("SELECT * FROM t WHERE {} >= {} AND {} <= {}", c, spec.key_lit(lo), c, spec.key_lit(hi))));
        }
    }
    if spec.uniq {
        for u in &case.probe_us {
            out.push(("unique", format!("SELECT * FROM t WHERE u = {}", u)));
        }
    }
    let class = if spec.idx_a { "secondary" } else { "scan_a" };
    for a in 0..=10 {
        out.push((class, format!("SELECT * FROM t WHERE a = {}", a)));
    }
    out.push((if spec.idx_a { "range_a" } else { "scan_a" }, "SELECT * FROM t WHERE a >= 3 AND a <= 6".to_string()));
    out
}

fn observe(h: &H, case: &Case) -> Obs {
    let dump = h.query("SELECT * FROM t");
    let count = h.query("SELECT COUNT(*) FROM t").and_then(|r| match r.first().and_then(|r| r.first()) {
        Some(V::Int(n)) => Ok(*n),
        other => Err(format!("COUNT(*) returned {:?}", other)),
    });
    let lookups = lookup_sqls(case).into_iter().map(|(class, sql)| Lookup { class, res: h.query(&sql), sql }).collect();
    Obs { dump, count, lookups }
}

fn has_toast(o: &Obs) -> bool {
    o.dump.as_ref().map(|rows| rows.iter().any(|r| r.iter().any(|v| matches!(v, V::Text(s) if s.len() > TOAST)))).unwrap_or(false)
}

#[derive(Clone, Debug)]
struct Viol {
    assertion: String,
    cause: String,
    detail: J,
}

fn diff_kind(d: &J) -> &'static str {
    let m = d["missing"].as_array().map(|a| !a.is_empty()).unwrap_or(false);
    let x = d["extra"].as_array().map(|a| !a.is_empty()).unwrap_or(false);
    match (m, x) {
        (true, false) => "rows_missing",
        (false, true) => "rows_extra",
        _ => "rows_changed",
    }
}

/// for lookups: an answer that lacks expected rows is `rows_missing` (lost or misdirected index entry) even if
/// it also contains a wrong row; only an answer with nothing but surplus rows is `rows_extra` (stale entry)
fn lookup_diff_kind(d: &J) -> &'static str {
    if d["missing"].as_array().map(|a| !a.is_empty()).unwrap_or(false) {
        "rows_missing"
    } else {
        "rows_extra"
    }
}

/// index class used in signatures: PK index and UNIQUE-column index are the same mechanism
fn sig_class(class: &str) -> &str {
    match class {
        "pk_int" | "pk_text" | "unique" => "unique_index",
        "secondary" => "secondary_index",
        other => other,
    }
}

/// differences between the snapshot's observation and the one after the rollback.
/// Hierarchical, so that consequences are not reported as separate causes: table bag first; only when the
/// bag is restored are COUNT(*) and the lookups (one violation per index class) compared.
fn compare_obs(before: &Obs, after: &Obs, a_rows: &str, a_count: &str, a_lookup: &str) -> Vec<Viol> {
    let mut out = vec![];
    let (b, a) = match (&before.dump, &after.dump) {
        (Ok(b), Ok(a)) => (b, a),
        (Err(_), _) => return out, // the snapshot itself was unreadable: nothing to compare against
        (Ok(_), Err(e)) => {
            out.push(Viol { assertion: "readable_after_rollback".into(), cause: err_class(e), detail: json!({"sql": "SELECT * FROM t", "error": e}) });
            return out;
        }
    };
    if let Some(d) = bag_diff(a, b) {
        out.push(Viol { assertion: a_rows.into(), cause: diff_kind(&d).into(), detail: json!({"diff": d, "got": rows_json_short(a), "want": rows_json_short(b)}) });
        return out;
    }
    match (&before.count, &after.count) {
        (Ok(x), Ok(y)) if x != y => out.push(Viol { assertion: a_count.into(), cause: if y > x { "count_too_high".into() } else { "count_too_low".into() }, detail: json!({"count_star_at_snapshot": x, "count_star_now": y, "rows_in_table": a.len()}) }),
        (Ok(_), Err(e)) => out.push(Viol { assertion: "readable_after_rollback".into(), cause: err_class(e), detail: json!({"sql": "SELECT COUNT(*) FROM t", "error": e}) }),
        _ => {}
    }
    let mut seen: BTreeSet<String> = BTreeSet::new();
    for (lb, la) in before.lookups.iter().zip(after.lookups.iter()) {
        match (&lb.res, &la.res) {
            (Ok(x), Ok(y)) => {
                if let Some(d) = bag_diff(y, x) {
                    let cause = format!("{}/{}", sig_class(la.class), lookup_diff_kind(&d));
                    if seen.insert(cause.clone()) {
                        out.push(Viol { assertion: a_lookup.into(), cause, detail: json!({"sql": la.sql, "index": la.class, "diff": d, "got": rows_json_short(y), "want": rows_json_short(x)}) });
                    }
                }
            }
            (Ok(_), Err(e)) => {
                let cause = err_class(e);
                if seen.insert(cause.clone()) {
                    out.push(Viol { assertion: "readable_after_rollback".into(), cause, detail: json!({"sql": la.sql, "error": e}) });
                }
            }
            _ => {}
        }
    }
    out
}

fn rows_json_short(rows: &[Row]) -> J {
    let short: Vec<Row> = rows
        .iter()
        .take(8)
        .map(|r| r.iter().map(|v| if let V::Text(s) = v { if s.len() > 24 { V::Text(format!("{}…({}B)", &s[..16], s.len())) } else { v.clone() } } else { v.clone() }).collect())
        .collect();
    json!({"n": rows.len(), "first": rows_json(&short, 8)})
}

// -------------------------------------------------------------------------------------- execution

#[derive(Default, Debug)]
struct Out {
    viols: Vec<Viol>,
    /// index of the step at which the violations were observed
    at_step: usize,
    /// kind of comparison: rollback | rollback_to | drop_reopen | drop_clone | later
    via: &'static str,
    /// op kinds (and failed statements) between the snapshot and the rollback that was judged
    undone: BTreeSet<String>,
    root_at_rollback: Option<u32>,
    pages_at_rollback: u64,
    /// the table file grew while rolling back (the undo split a node)
    grew_during_undo: bool,
    /// the snapshot the rollback was compared with contained a value above the TOAST threshold
    toast_at_snapshot: bool,
    rollbacks_judged: u64,
    savepoint_rollbacks: u64,
    max_depth: usize,
    stmts: u64,
    failed_in_txn: u64,
    failed_kinds: BTreeSet<String>,
    aborted: Option<String>,
    later_judged: u64,
    later_not_judged: u64,
    control_diverged: bool,
    index_plans: BTreeMap<String, bool>,
    undone_rows_measured: u64,
}

fn open_handle(path: &Path, create: bool) -> Result<H, String> {
    let r = catch(|| if create { turdb::Database::create(path) } else { turdb::Database::open(path) });
    match r {
        Ok(Ok(db)) => Ok(H { db: Some(db), path: path.to_path_buf() }),
        Ok(Err(e)) => Err(format!("{:#}", e)),
        Err(p) => Err(format!("PANIC: {}", p)),
    }
}

fn undone_between(case: &Case, from: usize, to: usize, failed: &BTreeMap<usize, String>) -> BTreeSet<String> {
    let mut s = BTreeSet::new();
    for i in from..to {
        if let Step::Op(op) = &case.steps[i] {
            if op.sql(&case.spec).is_none() {
                continue;
            }
            match failed.get(&i) {
                Some(k) => s.insert(k.clone()),
                None => s.insert(op.kind().to_string()),
            };
        }
    }
    s
}

/// run the prefix of a case (everything before BEGIN) on a fresh database
fn run_prefix(h: &H, case: &Case, out: &mut Out) -> Result<usize, String> {
    for s in case.spec.create_sql() {
        h.exec(&s).map_err(|e| format!("setup `{}`: {}", s, e))?;
    }
    if case.prefix_in_txn {
        h.exec("BEGIN").map_err(|e| format!("setup BEGIN: {}", e))?;
    }
    let mut i = 0;
    while i < case.steps.len() && case.steps[i] != Step::Begin {
        if let Step::Op(op) = &case.steps[i] {
            if let Some(sql) = op.sql(&case.spec) {
                out.stmts += 1;
                if let Err(e) = h.exec(&sql) {
                    if is_panic(&e) {
                        return Err(format!("prefix statement panicked: {}", e));
                    }
                }
            }
        }
        i += 1;
    }
    if case.prefix_in_txn {
        h.exec("COMMIT").map_err(|e| format!("setup COMMIT: {}", e))?;
    }
    Ok(i)
}

fn run_case(scratch: &Scratch, tag: &str, case: &Case) -> Out {
    let mut out = Out::default();
    let path = scratch.dir(tag);
    let mut h = match open_handle(&path, true) {
        Ok(h) => h,
        Err(e) => {
            out.aborted = Some(format!("create: {}", e));
            return out;
        }
    };
    let begin_at = match run_prefix(&h, case, &mut out) {
        Ok(i) => i,
        Err(e) => {
            out.aborted = Some(e);
            return out;
        }
    };
    if begin_at >= case.steps.len() {
        return out;
    }
    // which lookups really take an index path (measured through EXPLAIN, once per class)
    {
        let mut seen = BTreeSet::new();
        for (class, sql) in lookup_sqls(case) {
            if seen.insert(class) {
                if let Some(plan) = h.explain(&sql) {
                    out.index_plans.insert(class.to_string(), plan.contains("IndexScan") || plan.contains("Index"));
                }
            }
        }
    }
    let obs0 = observe(&h, case);
    let mut sp_obs: BTreeMap<u32, (usize, Obs)> = BTreeMap::new();
    let mut failed: BTreeMap<usize, String> = BTreeMap::new();
    let mut depth = 0usize;
    let mut full_rollback_done = false;
    for i in begin_at..case.steps.len() {
        let st = &case.steps[i];
        match st {
            Step::Begin => {
                if let Err(e) = h.exec("BEGIN") {
                    out.aborted = Some(format!("BEGIN: {}", e));
                    return out;
                }
            }
            Step::Op(op) => {
                let sql = match op.sql(&case.spec) {
                    Some(s) => s,
                    None => continue,
                };
                out.stmts += 1;
                if let Err(e) = h.exec(&sql) {
                    // a failing statement inside the transaction is not a rollback defect; it is remembered so
                    // that a later violation names it (separate signature) and the shrinker tries to drop it
                    out.failed_in_txn += 1;
                    let k = format!("{}_failed", op.kind());
                    out.failed_kinds.insert(k.clone());
                    failed.insert(i, k);
                    if is_panic(&e) {
                        out.aborted = Some(format!("statement panicked inside the transaction ({}): not judged", panic_tag(&e)));
                        return out;
                    }
                }
            }
            Step::Savepoint(id) => {
                if let Err(e) = h.exec(&format!("SAVEPOINT sp{}", id)) {
                    out.viols.push(Viol { assertion: "txn_control_accepted".into(), cause: format!("savepoint:{}", err_class(&e)), detail: json!({"error": e}) });
                    out.at_step = i;
                    out.via = "savepoint";
                    return out;
                }
                depth += 1;
                out.max_depth = out.max_depth.max(depth);
                sp_obs.insert(*id, (i, observe(&h, case)));
            }
            Step::Release(id) => {
                if let Err(e) = h.exec(&format!("RELEASE sp{}", id)) {
                    out.viols.push(Viol { assertion: "txn_control_accepted".into(), cause: format!("release:{}", err_class(&e)), detail: json!({"error": e}) });
                    out.at_step = i;
                    out.via = "release";
                    return out;
                }
                depth = depth.saturating_sub(1);
            }
            Step::RollbackTo(id) => {
                let (from, snap) = match sp_obs.get(id) {
                    Some(x) => (x.0, x.1.clone()),
                    None => continue, // savepoint removed by the shrinker
                };
                out.root_at_rollback = h.table_root();
                out.pages_at_rollback = h.table_pages();
                out.via = "rollback_to";
                out.at_step = i;
                out.undone = undone_between(case, from, i, &failed);
                if let Err(e) = h.exec(&format!("ROLLBACK TO sp{}", id)) {
                    out.viols.push(Viol { assertion: "rollback_succeeds".into(), cause: format!("rollback_to:{}", err_class(&e)), detail: json!({"error": e}) });
                    return out;
                }
                out.rollbacks_judged += 1;
                out.savepoint_rollbacks += 1;
                out.grew_during_undo = h.table_pages() > out.pages_at_rollback;
                let now = observe(&h, case);
                out.toast_at_snapshot = has_toast(&snap);
                out.viols = compare_obs(&snap, &now, "rows_restored", "count_star_restored", "index_lookup_restored");
                if !out.viols.is_empty() {
                    return out;
                }
            }
            Step::Rollback | Step::DropReopen | Step::DropClone => {
                out.root_at_rollback = h.table_root();
                out.pages_at_rollback = h.table_pages();
                out.at_step = i;
                out.undone = undone_between(case, begin_at, i, &failed);
                match st {
                    Step::Rollback => {
                        out.via = "rollback";
                        if let Err(e) = h.exec("ROLLBACK") {
                            out.viols.push(Viol { assertion: "rollback_succeeds".into(), cause: format!("rollback:{}", err_class(&e)), detail: json!({"error": e}) });
                            return out;
                        }
                    }
                    Step::DropReopen => {
                        out.via = "drop_reopen";
                        let db = h.db.take();
                        if let Err(p) = catch(move || drop(db)) {
                            out.viols.push(Viol { assertion: "rollback_succeeds".into(), cause: format!("drop_handle:panic@{}", panic_tag(&format!("PANIC: {}", p))), detail: json!({"panic": p}) });
                            return out;
                        }
                        match open_handle(&path, false) {
                            Ok(n) => h = n,
                            Err(e) => {
                                out.viols.push(Viol { assertion: "readable_after_rollback".into(), cause: format!("reopen:{}", err_class(&e)), detail: json!({"error": e}) });
                                return out;
                            }
                        }
                    }
                    _ => {
                        out.via = "drop_clone";
                        let db = h.db.take().unwrap();
                        let c = db.clone();
                        if let Err(p) = catch(move || drop(db)) {
                            out.viols.push(Viol { assertion: "rollback_succeeds".into(), cause: format!("drop_handle:panic@{}", panic_tag(&format!("PANIC: {}", p))), detail: json!({"panic": p}) });
                            return out;
                        }
                        h.db = Some(c);
                    }
                }
                out.rollbacks_judged += 1;
                out.grew_during_undo = h.table_pages() > out.pages_at_rollback;
                let now = observe(&h, case);
                out.toast_at_snapshot = has_toast(&obs0);
                out.viols = compare_obs(&obs0, &now, "rows_restored", "count_star_restored", "index_lookup_restored");
                if !out.viols.is_empty() {
                    return out;
                }
                full_rollback_done = true;
            }
            Step::Commit => {
                let _ = h.exec("COMMIT");
            }
        }
    }
    if !full_rollback_done || case.later.is_empty() {
        return out;
    }
    // ---- later statements: the rolled-back database must behave like one that never ran the transaction
    let reopen = matches!(case.steps.last(), Some(Step::DropReopen));
    let cpath = scratch.dir(&format!("{}-ctl", tag));
    let mut ctl = match open_handle(&cpath, true) {
        Ok(c) => c,
        Err(_) => return out,
    };
    let mut dummy = Out::default();
    if run_prefix(&ctl, case, &mut dummy).is_err() {
        return out;
    }
    if reopen {
        let db = ctl.db.take();
        drop(db);
        match open_handle(&cpath, false) {
            Ok(c) => ctl = c,
            Err(_) => return out,
        }
    }
    let cobs = observe(&ctl, case);
    if !compare_obs(&obs0, &cobs, "r", "c", "l").is_empty() || !compare_obs(&cobs, &obs0, "r", "c", "l").is_empty() {
        out.control_diverged = true;
        return out;
    }
    out.via = "later";
    out.at_step = case.steps.len();
    let spec = &case.spec;
    let dump0: Vec<Row> = obs0.dump.clone().unwrap_or_default();
    let mut same_outcomes = true;
    for r in &case.later {
        let sql = format!("INSERT INTO t VALUES {}", row_sql(spec, r));
        let key_exists = spec.key != KeyKind::NoPk && dump0.iter().any(|row| row.first().map(|v| v.key(false) == spec.key_val(r.key).key(false)).unwrap_or(false));
        let u_exists = spec.u_pos().map(|p| dump0.iter().any(|row| matches!(row.get(p), Some(V::Int(x)) if *x == r.u))).unwrap_or(false);
        let expect_reject = key_exists || u_exists;
        let c = ctl.exec(&sql);
        let t = h.exec(&sql);
        if c.is_err() != expect_reject {
            // TurDB does not enforce the constraint the way the snapshot predicts even without a transaction:
            // some other property's problem, not judged here
            out.later_not_judged += 1;
            if c.is_err() != t.is_err() {
                same_outcomes = false;
            }
            continue;
        }
        out.later_judged += 1;
        if t.is_err() != expect_reject {
            let cause = match &t {
                Ok(_) => "key_present_at_begin_accepted".to_string(),
                Err(e) => format!("key_absent_at_begin_rejected:{}", err_class(e)),
            };
            out.viols.push(Viol { assertion: "later_insert_uniqueness".into(), cause, detail: json!({"sql": sql, "existed_at_begin": expect_reject, "rolled_back_db": format!("{:?}", t), "control_db": format!("{:?}", c)}) });
            return out;
        }
    }
    if same_outcomes {
        let tobs = observe(&h, case);
        let cobs = observe(&ctl, case);
        out.viols = compare_obs(&cobs, &tobs, "later_rows_match_control", "later_count_star_matches_control", "later_index_lookup_matches_control");
    }
    out
}

// -------------------------------------------------------------------------------------- shrinking

fn remove_step(case: &Case, i: usize) -> Option<Case> {
    let mut c = case.clone();
    let st = c.steps[i].clone();
    match st {
        Step::Begin => return None,
        Step::Rollback | Step::Commit | Step::DropReopen | Step::DropClone => return None,
        Step::Savepoint(id) => {
            c.steps.remove(i);
            c.steps.retain(|s| !matches!(s, Step::RollbackTo(x) | Step::Release(x) if *x == id));
        }
        _ => {
            c.steps.remove(i);
        }
    }
    Some(c)
}

fn shrink(scratch: &Scratch, case: &Case, assertion: &str, cause: &str, budget: usize, hard_deadline: std::time::Instant) -> (Case, Out, bool) {
    let mut n = 0usize;
    let mut cur = case.clone();
    let mut cur_out = run_case(scratch, "shrink", &cur);
    let base_failed = cur_out.failed_in_txn;
    let fires = |c: &Case, n: &mut usize| -> Option<Out> {
        *n += 1;
        if std::time::Instant::now() > hard_deadline {
            *n += 1_000_000; // out of time: every further candidate is refused, the loops below stop on the budget
            return None;
        }
        let o = run_case(scratch, "shrink", c);
        if o.failed_in_txn <= base_failed && o.viols.iter().any(|v| v.assertion == assertion && v.cause == cause) {
            Some(o)
        } else {
            None
        }
    };
    if !cur_out.viols.iter().any(|v| v.assertion == assertion && v.cause == cause) {
        return (cur, cur_out, false);
    }
    // everything after the step at which the violation showed is irrelevant (except the later inserts)
    if cur_out.via != "later" && cur_out.at_step + 1 < cur.steps.len() {
        let mut c = cur.clone();
        c.steps.truncate(cur_out.at_step + 1);
        if let Some(o) = fires(&c, &mut n) {
            cur = c;
            cur_out = o;
        }
    }
    // the simplest way of ending the transaction
    if matches!(cur.steps.last(), Some(Step::DropReopen | Step::DropClone)) {
        let mut c = cur.clone();
        *c.steps.last_mut().unwrap() = Step::Rollback;
        if let Some(o) = fires(&c, &mut n) {
            cur = c;
            cur_out = o;
        }
    }
    if cur.prefix_in_txn {
        let mut c = cur.clone();
        c.prefix_in_txn = false;
        if let Some(o) = fires(&c, &mut n) {
            cur = c;
            cur_out = o;
        }
    }
    // a ROLLBACK TO that can be replaced by a plain ROLLBACK
    if cur_out.via == "rollback_to" {
        let mut c = cur.clone();
        c.steps.retain(|s| !matches!(s, Step::Savepoint(_) | Step::RollbackTo(_) | Step::Release(_)));
        c.steps.push(Step::Rollback);
        if let Some(o) = fires(&c, &mut n) {
            cur = c;
            cur_out = o;
        }
    }
    // table features
    for f in 0..4 {
        let mut c = cur.clone();
        match f {
            0 if c.spec.uniq => c.spec.uniq = false,
            1 if c.spec.idx_a => c.spec.idx_a = false,
            2 if c.spec.key != KeyKind::NoPk => c.spec.key = KeyKind::NoPk,
            3 if c.spec.key == KeyKind::TextPk => c.spec.key = KeyKind::IntPk,
            _ => continue,
        }
        if n < budget {
            if let Some(o) = fires(&c, &mut n) {
                cur = c;
                cur_out = o;
            }
        }
    }
    // ddmin over the steps
    let mut chunk = (cur.steps.len() / 2).max(1);
    loop {
        let mut i = 0;
        while i < cur.steps.len() && n < budget {
            let mut c = cur.clone();
            let mut removed = false;
            // remove `chunk` removable steps starting at i (from the back so that indices stay valid)
            let end = (i + chunk).min(c.steps.len());
            for j in (i..end).rev() {
                if j < c.steps.len() {
                    if let Some(nc) = remove_step(&c, j) {
                        c = nc;
                        removed = true;
                    }
                }
            }
            if removed {
                if let Some(o) = fires(&c, &mut n) {
                    cur = c;
                    cur_out = o;
                    continue;
                }
            }
            i += chunk;
        }
        if chunk == 1 || n >= budget {
            break;
        }
        chunk /= 2;
    }
    // fewer rows per INSERT, shorter later-insert list
    for i in 0..cur.steps.len() {
        loop {
            let rows = match &cur.steps[i] {
                Step::Op(Op::Insert(v)) if v.len() > 1 => v.clone(),
                _ => break,
            };
            if n >= budget {
                break;
            }
            let mut c = cur.clone();
            c.steps[i] = Step::Op(Op::Insert(rows[..rows.len() / 2].to_vec()));
            if let Some(o) = fires(&c, &mut n) {
                cur = c;
                cur_out = o;
                continue;
            }
            let mut c = cur.clone();
            c.steps[i] = Step::Op(Op::Insert(rows[rows.len() / 2..].to_vec()));
            if let Some(o) = fires(&c, &mut n) {
                cur = c;
                cur_out = o;
                continue;
            }
            break;
        }
    }
    if cur_out.via == "later" {
        let mut i = 0;
        while i < cur.later.len() && n < budget {
            let mut c = cur.clone();
            c.later.remove(i);
            if let Some(o) = fires(&c, &mut n) {
                cur = c;
                cur_out = o;
            } else {
                i += 1;
            }
        }
    }
    // table features once more (statements that needed a feature may be gone now)
    for f in 0..4 {
        let mut c = cur.clone();
        match f {
            0 if c.spec.uniq => c.spec.uniq = false,
            1 if c.spec.idx_a => c.spec.idx_a = false,
            2 if c.spec.key != KeyKind::NoPk => c.spec.key = KeyKind::NoPk,
            3 if c.spec.key == KeyKind::TextPk => c.spec.key = KeyKind::IntPk,
            _ => continue,
        }
        if n < budget + 8 {
            if let Some(o) = fires(&c, &mut n) {
                cur = c;
                cur_out = o;
            }
        }
    }
    let complete = n < 1_000_000;
    (cur, cur_out, complete)
}

fn signature(assertion: &str, cause: &str, case: &Case, out: &Out) -> String {
    let undone: Vec<String> = if out.via == "later" {
        let begin = case.steps.iter().position(|s| *s == Step::Begin).unwrap_or(0);
        undone_between(case, begin, case.steps.len(), &BTreeMap::new()).into_iter().chain(out.failed_kinds.iter().cloned()).collect::<BTreeSet<_>>().into_iter().collect()
    } else {
        out.undone.iter().cloned().collect()
    };
    let via = if out.via == "later" {
        match case.steps.last() {
            Some(Step::DropReopen) => "later_after_drop_reopen",
            Some(Step::DropClone) => "later_after_drop_clone",
            _ => "later_after_rollback",
        }
    } else {
        out.via
    };
    let root = format!(
        "{}{}",
        match out.root_at_rollback {
            Some(r) if r != 1 => "+root_moved",
            _ if out.grew_during_undo => "+undo_split_a_node",
            _ => "",
        },
        if out.toast_at_snapshot { "+toast_at_snapshot" } else { "" }
    );
    let pre = case.pre_kinds();
    let pre = if pre.is_empty() { String::new() } else { format!("/pre:{}", pre.into_iter().collect::<Vec<_>>().join("+")) };
    format!("C07/{}/undo:{}/{}/{}{}/{}{}", assertion, if undone.is_empty() { "nothing".to_string() } else { undone.join("+") }, cause, case.spec.traits(), root, via, pre)
}

// ---------------------------------------------------------------------------- scripted scenarios

/// Small fixed scenarios through API paths the generator does not reach (prepared statements executed
/// repeatedly = cached plans, two tables in one transaction, composite index). Same oracle: the
/// observation queries before BEGIN and after ROLLBACK must agree; a failing body statement => not judged.
fn scripted(scratch: &Scratch, ctx: &mut Ctx) {
    use turdb::OwnedValue as OV;
    type Body = fn(&turdb::Database) -> Result<(), String>;
    fn e<T>(r: eyre::Result<T>) -> Result<(), String> {
        r.map(|_| ()).map_err(|e| format!("{:#}", e))
    }
    let scenarios: Vec<(&str, Vec<&str>, Body, Vec<&str>)> = vec![
        (
            "prepared_insert_repeated",
            vec!["CREATE TABLE t (id BIGINT PRIMARY KEY, a BIGINT, b TEXT)", "CREATE INDEX ix_a ON t (a)", "INSERT INTO t VALUES (1, 10, 'one'), (2, 20, 'two')"],
            |db| {
                let st = db.prepare("INSERT INTO t VALUES (?, ?, ?)").map_err(|e| format!("{:#}", e))?;
                for i in 10..14i64 {
                    e(st.bind(OV::Int(i)).bind(OV::Int(i * 10)).bind(OV::Text(format!("r{}", i))).execute(db))?;
                }
                Ok(())
            },
            vec!["SELECT * FROM t", "SELECT COUNT(*) FROM t", "SELECT * FROM t WHERE id = 11", "SELECT * FROM t WHERE a = 120"],
        ),
        (
            "prepared_update_repeated",
            vec!["CREATE TABLE t (id BIGINT PRIMARY KEY, a BIGINT, b TEXT)", "CREATE INDEX ix_a ON t (a)", "INSERT INTO t VALUES (1, 10, 'one'), (2, 20, 'two'), (3, 30, 'three')"],
            |db| {
                let st = db.prepare("UPDATE t SET a = ? WHERE id = ?").map_err(|e| format!("{:#}", e))?;
                for i in 1..4i64 {
                    e(st.bind(OV::Int(100 + i)).bind(OV::Int(i)).execute(db))?;
                }
                Ok(())
            },
            vec!["SELECT * FROM t", "SELECT COUNT(*) FROM t", "SELECT * FROM t WHERE a = 20", "SELECT * FROM t WHERE a = 102"],
        ),
        (
            "prepared_delete_repeated",
            vec!["CREATE TABLE t (id BIGINT PRIMARY KEY, a BIGINT, b TEXT)", "INSERT INTO t VALUES (1, 10, 'one'), (2, 20, 'two'), (3, 30, 'three')"],
            |db| {
                let st = db.prepare("DELETE FROM t WHERE id = ?").map_err(|e| format!("{:#}", e))?;
                for i in 1..3i64 {
                    e(st.bind(OV::Int(i)).execute(db))?;
                }
                Ok(())
            },
            vec!["SELECT * FROM t", "SELECT COUNT(*) FROM t", "SELECT * FROM t WHERE id = 2"],
        ),
        (
            "two_tables_one_txn",
            vec!["CREATE TABLE t (id BIGINT PRIMARY KEY, a BIGINT)", "CREATE TABLE s (id BIGINT PRIMARY KEY, b TEXT)", "INSERT INTO t VALUES (1, 1), (2, 2)", "INSERT INTO s VALUES (1, 'x'), (2, 'y')"],
            |db| {
                e(db.execute("INSERT INTO t VALUES (3, 3)"))?;
                e(db.execute("UPDATE s SET b = 'changed' WHERE id = 1"))?;
                e(db.execute("DELETE FROM t WHERE id = 1"))?;
                e(db.execute("INSERT INTO s VALUES (3, 'z')"))
            },
            vec!["SELECT * FROM t", "SELECT * FROM s", "SELECT COUNT(*) FROM t", "SELECT COUNT(*) FROM s", "SELECT * FROM t WHERE id = 1", "SELECT * FROM s WHERE id = 3"],
        ),
        (
            "composite_index",
            vec!["CREATE TABLE t (id BIGINT PRIMARY KEY, a BIGINT, b TEXT)", "CREATE INDEX ix_ab ON t (a, b)", "INSERT INTO t VALUES (1, 1, 'x'), (2, 1, 'y'), (3, 2, 'x')"],
            |db| {
                e(db.execute("UPDATE t SET b = 'q' WHERE id = 1"))?;
                e(db.execute("DELETE FROM t WHERE id = 2"))?;
                e(db.execute("INSERT INTO t VALUES (4, 1, 'x')"))
            },
            vec!["SELECT * FROM t", "SELECT COUNT(*) FROM t", "SELECT * FROM t WHERE a = 1 AND b = 'x'", "SELECT * FROM t WHERE a = 1 AND b = 'y'", "SELECT * FROM t WHERE a = 1"],
        ),
    ];
    for (name, setup, body, observe) in scenarios {
        ctx.eval();
        let path = scratch.dir(&format!("script-{}", name));
        let h = match open_handle(&path, true) {
            Ok(h) => h,
            Err(_) => continue,
        };
        if setup.iter().any(|s| h.exec(s).is_err()) {
            ctx.count("scripted_setup_failed_not_judged", 1);
            continue;
        }
        let before: Vec<Result<Vec<Row>, String>> = observe.iter().map(|q| h.query(q)).collect();
        if h.exec("BEGIN").is_err() {
            continue;
        }
        let db = h.db.as_ref().unwrap();
        match catch(|| body(db)) {
            Ok(Ok(())) => {}
            Ok(Err(why)) | Err(why) => {
                ctx.count(&format!("scripted_body_statement_failed_not_judged:{}:{}", name, err_class(&why)), 1);
                let _ = h.exec("ROLLBACK");
                continue;
            }
        }
        if let Err(e) = h.exec("ROLLBACK") {
            ctx.violation("rollback_succeeds", &format!("C07/rollback_succeeds/scripted:{}/{}", name, err_class(&e)), json!({"error": e}));
            continue;
        }
        ctx.nontrivial(fnv(name.as_bytes()));
        ctx.count("scripted_scenarios_judged", 1);
        for (q, b) in observe.iter().zip(before.iter()) {
            let a = h.query(q);
            let differs = match (b, &a) {
                (Ok(x), Ok(y)) => bag_diff(y, x).map(|d| json!({"diff": d, "got": rows_json(y, 8), "want": rows_json(x, 8)})),
                (Ok(_), Err(e)) => Some(json!({"error": e})),
                _ => None,
            };
            if let Some(d) = differs {
                let kind = if q.contains("COUNT(*)") {
                    "count_star"
                } else if q.contains("WHERE") {
                    "index_lookup"
                } else {
                    "rows"
                };
                ctx.violation("scripted_rollback_restores", &format!("C07/scripted_rollback_restores/{}/{}", name, kind), json!({"scenario": name, "setup": setup, "query": q, "detail": d}));
                break;
            }
        }
    }
}

// ----------------------------------------------------------------------------------------- matrix

/// One directed minimal case: a fixed 6-row table (optionally on top of a few hundred rows, so that the
/// B-tree root has moved off page 1), BEGIN, one statement of kind `op`, and one way of rolling back.
fn matrix_case(spec: Spec, op: &str, via: &str, deep: bool) -> Option<Case> {
    matrix_case_t(spec, op, via, deep, false)
}

/// `toast_base`: the row the statement touches already holds a TOASTed value before BEGIN
fn matrix_case_t(spec: Spec, op: &str, via: &str, deep: bool, toast_base: bool) -> Option<Case> {
    let mut steps = vec![];
    let mut ctr = 0u64;
    if deep {
        let mut key = 100u32;
        for _ in 0..13 {
            let mut v = vec![];
            for _ in 0..25 {
                ctr += 1;
                key += 1;
                v.push(R { key, u: 1000 + key as i64, a: Some((key % 10) as i64), p: Some(pad(ctr, 200 + (key % 40) as usize)) });
            }
            steps.push(Step::Op(Op::Insert(v)));
        }
    }
    let base: Vec<R> = (0..6u32)
        .map(|i| R { key: 11 + i, u: 101 + i as i64, a: if i == 5 { None } else { Some([1, 2, 3, 1, 2][i as usize]) }, p: Some(pad(900 + i as u64, if i == 2 && toast_base { 1500 } else if i == 4 { 300 } else { 8 })) })
        .collect();
    steps.push(Step::Op(Op::Insert(base[..3].to_vec())));
    steps.push(Step::Op(Op::Insert(base[3..].to_vec())));
    steps.push(Step::Begin);
    let the_op = match op {
        "insert" => Op::Insert(vec![R { key: 21, u: 121, a: Some(7), p: Some(pad(950, 8)) }]),
        "insert_toast" => Op::Insert(vec![R { key: 21, u: 121, a: Some(7), p: Some(pad(951, 1500)) }]),
        "insert_split" => {
            // enough rows inside the transaction to split the root
            let mut v = vec![];
            for i in 0..330u32 {
                v.push(R { key: 400 + i, u: 2000 + i as i64, a: Some((i % 10) as i64), p: Some(pad(2000 + i as u64, 200 + (i % 50) as usize)) });
            }
            for ch in v.chunks(30) {
                steps.push(Step::Op(Op::Insert(ch.to_vec())));
            }
            Op::Insert(vec![R { key: 21, u: 121, a: Some(7), p: Some(pad(950, 8)) }])
        }
        "update_a" => Op::SetA(Pred::Key(13), Some(8)),
        "update_payload" => Op::SetP(Pred::Key(13), Some(pad(952, 700))),
        "update_payload_toast" => Op::SetP(Pred::Key(13), Some(pad(953, 1800))),
        "update_unique_col" => {
            if !spec.uniq {
                return None;
            }
            Op::SetU(Pred::Key(13), 150)
        }
        "update_key" => Op::SetKey(Pred::Key(13), 23),
        "delete" => Op::Delete(Pred::Key(13)),
        _ => return None,
    };
    match via {
        "rollback" | "drop_reopen" | "drop_clone" => {
            steps.push(Step::Op(the_op));
            steps.push(match via {
                "rollback" => Step::Rollback,
                "drop_reopen" => Step::DropReopen,
                _ => Step::DropClone,
            });
        }
        "rollback_to" => {
            steps.push(Step::Op(Op::Insert(vec![R { key: 31, u: 131, a: Some(9), p: Some(pad(960, 8)) }])));
            steps.push(Step::Savepoint(1));
            steps.push(Step::Op(the_op));
            steps.push(Step::RollbackTo(1));
        }
        "release_nested" => {
            // SAVEPOINT sp1; op; SAVEPOINT sp2; another insert; RELEASE sp2; ROLLBACK TO sp1 must undo both
            steps.push(Step::Savepoint(1));
            steps.push(Step::Op(the_op));
            steps.push(Step::Savepoint(2));
            steps.push(Step::Op(Op::Insert(vec![R { key: 31, u: 131, a: Some(9), p: Some(pad(960, 8)) }])));
            steps.push(Step::Release(2));
            steps.push(Step::RollbackTo(1));
        }
        _ => return None,
    }
    let probe_keys = vec![11, 12, 13, 14, 15, 16, 21, 23, 31, 99];
    let probe_us = vec![101, 102, 103, 104, 105, 106, 121, 131, 150];
    let later = vec![
        R { key: 21, u: 5001, a: Some(4), p: Some(pad(7001, 9)) },
        R { key: 23, u: 5002, a: Some(4), p: Some(pad(7002, 9)) },
        R { key: 13, u: 5003, a: Some(4), p: Some(pad(7003, 9)) },
        R { key: 5001, u: 150, a: Some(4), p: Some(pad(7004, 9)) },
        R { key: 5002, u: 121, a: Some(4), p: Some(pad(7005, 9)) },
        R { key: 5003, u: 103, a: Some(4), p: Some(pad(7006, 9)) },
    ];
    Some(Case { spec, prefix_in_txn: false, steps, probe_keys, probe_us, later })
}

const OPS: [&str; 8] = ["insert", "insert_toast", "update_a", "update_payload", "update_payload_toast", "update_unique_col", "update_key", "delete"];

/// parameters of a matrix cell: (table, statement kind, way of rolling back, deep table, TOASTed base row)
type MP = (Spec, &'static str, &'static str, bool, bool);

fn matrix(quick: bool) -> Vec<MP> {
    let mut out: Vec<MP> = vec![];
    let keys = [KeyKind::NoPk, KeyKind::IntPk, KeyKind::TextPk];
    // every table variant x every statement kind, plain ROLLBACK
    for key in keys {
        for uniq in [false, true] {
            for idx_a in [false, true] {
                for op in OPS {
                    out.push((Spec { key, uniq, idx_a }, op, "rollback", false, false));
                }
            }
        }
    }
    // the other ways of rolling back, root moved before BEGIN, root split inside the transaction
    // (run on the table with all features; a failing cell is then reduced to the features it needs)
    for key in keys {
        let full = Spec { key, uniq: true, idx_a: true };
        let bare = Spec { key, uniq: false, idx_a: false };
        for via in ["rollback_to", "release_nested", "drop_reopen", "drop_clone"] {
            for op in OPS {
                if quick && matches!(op, "insert_toast" | "update_payload_toast") {
                    continue;
                }
                out.push((full, op, via, false, false));
            }
        }
        for op in ["insert", "update_a", "update_payload", "update_key", "delete"] {
            out.push((full, op, "rollback", true, false));
            if !quick {
                out.push((bare, op, "rollback", true, false));
                out.push((full, op, "drop_reopen", true, false));
            }
        }
        for op in ["update_a", "update_payload", "update_payload_toast", "delete"] {
            out.push((bare, op, "rollback", false, true));
        }
        out.push((full, "insert_split", "rollback", false, false));
        out.push((bare, "insert_split", "rollback", false, false));
        if !quick {
            out.push((full, "insert_split", "rollback_to", false, false));
            out.push((full, "insert_split", "drop_reopen", false, false));
        }
    }
    out.retain(|p| matrix_case_t(p.0, p.1, p.2, p.3, p.4).is_some());
    out
}

/// the same cell on a table with fewer features, as long as the same assertion fails for the same cause
fn reduce_features(scratch: &Scratch, p: MP, assertion: &str, cause: &str) -> Option<(Case, Out)> {
    let mut spec = p.0;
    let mut best = None;
    for f in 0..4 {
        let mut s2 = spec;
        match f {
            0 if s2.uniq => s2.uniq = false,
            1 if s2.idx_a => s2.idx_a = false,
            2 if s2.key != KeyKind::NoPk => s2.key = KeyKind::NoPk,
            3 if s2.key == KeyKind::TextPk => s2.key = KeyKind::IntPk,
            _ => continue,
        }
        if let Some(case) = matrix_case_t(s2, p.1, p.2, p.3, p.4) {
            let out = run_case(scratch, "reduce", &case);
            if out.viols.iter().any(|v| v.assertion == assertion && v.cause == cause) {
                spec = s2;
                best = Some((case, out));
            }
        }
    }
    best
}

/// a violation reduced to the facts that identify its cause
#[derive(Clone, Debug)]
struct Cell {
    assertion: String,
    cause: String,
    spec: Spec,
    ops: BTreeSet<String>,
    via: String,
    root_moved: bool,
    undo_split: bool,
    toast: bool,
    /// non-insert statement kinds before BEGIN
    pre: BTreeSet<String>,
    sig: String,
    script: Vec<String>,
}

fn via_name(case: &Case, out: &Out) -> String {
    if out.via == "later" {
        match case.steps.last() {
            Some(Step::DropReopen) => "later_after_drop_reopen",
            Some(Step::DropClone) => "later_after_drop_clone",
            _ => "later_after_rollback",
        }
        .to_string()
    } else {
        out.via.to_string()
    }
}

fn undone_of(case: &Case, out: &Out) -> BTreeSet<String> {
    if out.via == "later" {
        let begin = case.steps.iter().position(|s| *s == Step::Begin).unwrap_or(0);
        undone_between(case, begin, case.steps.len(), &BTreeMap::new()).into_iter().chain(out.failed_kinds.iter().cloned()).collect()
    } else {
        out.undone.clone()
    }
}

fn cell_of(v: &Viol, case: &Case, out: &Out) -> Cell {
    Cell {
        assertion: v.assertion.clone(),
        cause: v.cause.clone(),
        spec: case.spec,
        ops: undone_of(case, out),
        via: via_name(case, out),
        root_moved: matches!(out.root_at_rollback, Some(r) if r != 1),
        undo_split: out.grew_during_undo,
        toast: out.toast_at_snapshot,
        pre: case.pre_kinds(),
        sig: signature(&v.assertion, &v.cause, case, out),
        script: case.script(),
    }
}

/// every UPDATE rewrites the row, so what an update of the unindexed payload column breaks explains the same
/// symptom after an update of any other column; likewise a plain insert explains an insert with a TOASTed value
fn op_le(y: &str, x: &str) -> bool {
    y == x || (y == "insert" && x == "insert_toast") || (y == "update_payload" && x.starts_with("update_") && !x.ends_with("_failed"))
}

fn key_le(a: KeyKind, b: KeyKind) -> bool {
    a == b || a == KeyKind::NoPk || (a == KeyKind::IntPk && b == KeyKind::TextPk)
}

fn via_le(a: &str, b: &str) -> bool {
    a == b || (a == "rollback" && !b.starts_with("later")) || (a == "later_after_rollback" && b.starts_with("later"))
}

/// `y` (a simpler failing case) explains `x`: same failed assertion and cause, and everything `y` needs
/// (table features, undone statement kinds, way of rolling back, moved root) is also present in `x`
fn explains(y: &Cell, x: &Cell) -> bool {
    y.assertion == x.assertion
        && y.cause == x.cause
        && y.ops.iter().all(|a| x.ops.iter().any(|b| op_le(a, b)))
        && key_le(y.spec.key, x.spec.key)
        && (!y.spec.uniq || x.spec.uniq)
        && (!y.spec.idx_a || x.spec.idx_a)
        && via_le(&y.via, &x.via)
        && (!y.root_moved || x.root_moved)
        && y.pre.is_subset(&x.pre)
        && (!y.undo_split || x.undo_split || x.root_moved)
        && (!y.toast || x.toast)
}

fn rank(c: &Cell) -> (usize, usize, usize, usize, usize, String) {
    let k = match c.spec.key {
        KeyKind::NoPk => 0,
        KeyKind::IntPk => 1,
        KeyKind::TextPk => 2,
    };
    // statement kinds that another kind subsumes (see op_le) count as more complex
    let special = c.ops.iter().filter(|o| !matches!(o.as_str(), "insert" | "update_payload" | "delete")).count();
    (c.ops.len() + c.root_moved as usize + c.undo_split as usize + c.toast as usize + c.pre.len(), special, k + c.spec.uniq as usize + c.spec.idx_a as usize, if c.via == "rollback" || c.via == "later_after_rollback" { 0 } else { 1 }, k, c.sig.clone())
}

// -------------------------------------------------------------------------------------------- run

fn run_all(scratch: &Scratch, cases: &[Case], threads: usize, deadline: std::time::Instant, tag: &str) -> Vec<(usize, Out)> {
    let results = std::sync::Mutex::new(vec![]);
    let next = std::sync::atomic::AtomicUsize::new(0);
    std::thread::scope(|s| {
        for t in 0..threads {
            let (results, next) = (&results, &next);
            s.spawn(move || loop {
                let i = next.fetch_add(1, std::sync::atomic::Ordering::SeqCst);
                if i >= cases.len() || std::time::Instant::now() > deadline {
                    break;
                }
                let out = run_case(scratch, &format!("{}{}", tag, t), &cases[i]);
                results.lock().unwrap().push((i, out));
            });
        }
    });
    let mut results = results.into_inner().unwrap();
    results.sort_by_key(|r| r.0);
    results
}

fn tally(ctx: &mut Ctx, case: &Case, out: &Out) {
    ctx.eval();
    ctx.count("statements_executed", out.stmts);
    ctx.count("rollbacks_compared", out.rollbacks_judged);
    ctx.count("rollback_to_savepoint_compared", out.savepoint_rollbacks);
    ctx.count("statements_failed_inside_txn", out.failed_in_txn);
    ctx.count("later_inserts_judged", out.later_judged);
    ctx.count("later_inserts_not_judged_control_disagrees_with_snapshot", out.later_not_judged);
    if out.control_diverged {
        ctx.count("control_database_diverged_not_judged", 1);
    }
    if out.aborted.is_some() {
        ctx.count("cases_aborted_not_judged", 1);
    }
    if out.max_depth >= 2 {
        ctx.count("cases_with_nested_savepoints", 1);
    }
    if matches!(out.root_at_rollback, Some(r) if r != 1) {
        ctx.count("rollbacks_with_table_root_moved_off_page_1", 1);
    }
    match case.steps.last() {
        Some(Step::DropReopen) => ctx.count("ended_by_drop_and_reopen", 1),
        Some(Step::DropClone) => ctx.count("ended_by_drop_observed_through_clone", 1),
        Some(Step::Rollback) => ctx.count("ended_by_rollback", 1),
        Some(Step::RollbackTo(_)) => ctx.count("ended_by_rollback_to", 1),
        _ => ctx.count("ended_by_commit", 1),
    }
    for (class, idx) in &out.index_plans {
        ctx.count(&format!("explain_{}_{}", class, if *idx { "index_path" } else { "no_index_path" }), 1);
    }
    if out.rollbacks_judged > 0 && (out.stmts as i64 - out.failed_in_txn as i64) > 0 {
        ctx.nontrivial(case.hash());
    }
}

/// debugging aid: TV_C07_SHOW=<substring> prints the detail of the first violation of every matching signature
fn show(seen: &mut BTreeSet<String>, sig: &str, detail: &J) {
    if let Ok(pat) = std::env::var("TV_C07_SHOW") {
        if sig.contains(&pat) && seen.insert(sig.to_string()) {
            println!("SHOW {}\n{}", sig, serde_json::to_string_pretty(detail).unwrap_or_default());
        }
    }
}

pub fn run(a: &Args) -> i32 {
    let mut shown: BTreeSet<String> = BTreeSet::new();
    let mut ctx = Ctx::new(
        "C07",
        &a.tier,
        a.seed,
        "exploration",
        "(1) directed matrix: every table variant (integer PK / text PK / no PK) x (UNIQUE column) x (secondary index) x every statement kind (insert, insert with TOASTed value, update of indexed / payload-growing / TOASTed / UNIQUE / key column, delete) undone by ROLLBACK, plus ROLLBACK TO, nested SAVEPOINT+RELEASE+ROLLBACK TO, drop of the handle then Database::open, drop then observe through a clone, a table whose B-tree root already moved off page 1, and a root split inside the transaction; (2) generated histories on the same tables with nested SAVEPOINT / RELEASE / repeated ROLLBACK TO and mixed statements; (3) fixed scenarios through prepared statements (cached plans), two tables, composite index. Oracle: the observation vector (SELECT * bag, COUNT(*), point lookups through PK / UNIQUE / secondary index for a fixed probe set incl. old and new values, range lookups; index path confirmed by EXPLAIN) taken before BEGIN / after SAVEPOINT must be reproduced after ROLLBACK [TO] / drop; afterwards later INSERTs of keys present/absent at BEGIN must be rejected/accepted exactly as on a control database that never ran the transaction, and the final vectors must agree. Signature = assertion/cause/minimal table features/undone statement kinds/way of rolling back; a violation of a generated history is attributed to the simplest matrix cell that explains it, otherwise shrunk. distinct_nontrivial = distinct histories in which a rollback of at least one successfully executed statement was compared",
    );
    let quick = ctx.quick();
    if cfg!(miri) {
        // turdb::Database needs real files (mmap): nothing of this check can run under Miri
        ctx.inconclusive("Database requires mmap'd files; not runnable under Miri");
        return ctx.finish();
    }
    let t0 = std::time::Instant::now();
    let secs = |s: u64| t0 + std::time::Duration::from_secs(s);
    let scratch = Scratch::new("c07");
    let threads = 8usize;
    scripted(&scratch, &mut ctx);

    // ---- (1) matrix
    let mparams = matrix(quick);
    let mcases: Vec<Case> = mparams.iter().filter_map(|p| matrix_case_t(p.0, p.1, p.2, p.3, p.4)).collect();
    let mres = run_all(&scratch, &mcases, threads, secs(if quick { 40 } else { 200 }), "m");
    if mres.len() < mcases.len() {
        ctx.count("matrix_cells_skipped_time_budget", (mcases.len() - mres.len()) as u64);
    }
    let mut cells: Vec<Cell> = vec![];
    let mut mviol: Vec<(Cell, J, MP)> = vec![];
    for (i, out) in &mres {
        let case = &mcases[*i];
        tally(&mut ctx, case, out);
        ctx.count("matrix_cells_run", 1);
        if *i == 0 || *i == 95 {
            ctx.sample(json!({"matrix_cell": i, "table": case.spec.traits(), "script": case.script_short()}));
        }
        for v in &out.viols {
            let c = cell_of(v, case, out);
            mviol.push((c.clone(), v.detail.clone(), mparams[*i]));
            cells.push(c);
        }
    }
    cells.sort_by_key(rank);
    // a failing cell that no simpler failing cell explains, but that ran on a table with features: reduce the features
    let mut reduced: Vec<Cell> = vec![];
    for (c, _, p) in &mviol {
        let has_features = c.spec.uniq || c.spec.idx_a || c.spec.key != KeyKind::NoPk;
        let explained = cells.iter().chain(reduced.iter()).any(|y| y.sig != c.sig && explains(y, c));
        if has_features && !explained && std::time::Instant::now() < secs(if quick { 46 } else { 260 }) {
            if let Some((case2, out2)) = reduce_features(&scratch, *p, &c.assertion, &c.cause) {
                ctx.count("matrix_cells_reduced_to_fewer_table_features", 1);
                tally(&mut ctx, &case2, &out2);
                if let Some(v2) = out2.viols.iter().find(|v| v.assertion == c.assertion && v.cause == c.cause) {
                    reduced.push(cell_of(v2, &case2, &out2));
                }
            }
        }
    }
    cells.extend(reduced);
    cells.sort_by_key(rank);
    let mut by_sig: BTreeMap<String, u64> = BTreeMap::new();
    for (c, detail, _) in &mviol {
        let by = cells.iter().find(|y| explains(y, c)).unwrap_or(c);
        *by_sig.entry(by.sig.clone()).or_insert(0) += 1;
        let detail = json!({"matrix_cell": c.sig, "script": c.script, "detail": detail, "simplest_failing_cell": by.script});
        show(&mut shown, &by.sig, &detail);
        ctx.violation(&c.assertion, &by.sig, detail);
    }

    ctx.count("phase_seconds_scripted_and_matrix", t0.elapsed().as_secs());
    // ---- (2) generated histories
    let (n_small, n_bulk) = if quick { (240usize, 6usize) } else { (12000, 150) };
    let mut seeds = Rng::derive(a.seed, 7);
    let every = (n_small + n_bulk) / n_bulk;
    let cases: Vec<Case> = (0..n_small + n_bulk)
        .map(|i| {
            let shape = if i % every == every / 2 {
                if (i / every) % 2 == 0 {
                    Shape::BulkInTxn
                } else {
                    Shape::BulkPrefix
                }
            } else {
                Shape::Small
            };
            gen_case(seeds.next(), shape)
        })
        .collect();
    let res = run_all(&scratch, &cases, threads, secs(if quick { 43 } else { 340 }), "w");
    if res.len() < cases.len() {
        ctx.count("generated_cases_skipped_time_budget", (cases.len() - res.len()) as u64);
    }
    ctx.count("phase_seconds_until_generated_done", t0.elapsed().as_secs());
    let shrink_deadline = secs(if quick { 45 } else { 520 });
    let mut pending: Vec<(usize, Viol, Cell)> = vec![];
    for (i, out) in &res {
        let case = &cases[*i];
        tally(&mut ctx, case, out);
        ctx.count("generated_cases_run", 1);
        if *i < 2 {
            ctx.sample(json!({"generated_case": i, "table": case.spec.traits(), "script": case.script_short().into_iter().take(24).collect::<Vec<_>>()}));
        }
        for v in &out.viols {
            let c = cell_of(v, case, out);
            match cells.iter().find(|y| explains(y, &c)) {
                Some(by) => {
                    ctx.count("generated_violations_explained_by_simpler_failing_case", 1);
                    *by_sig.entry(by.sig.clone()).or_insert(0) += 1;
                    let detail = json!({"generated_case": i, "script": c.script, "detail": v.detail, "simplest_failing_case": by.script});
        show(&mut shown, &by.sig, &detail);
        ctx.violation(&v.assertion, &by.sig, detail);
                }
                None => pending.push((*i, v.clone(), c)),
            }
        }
    }
    // violations no matrix cell explains: shrink (rounds of up to 8 in parallel, one per distinct raw class), then let
    // the minimal cases explain the others
    let mut pending = pending;
    let hard = secs(if quick { 48 } else { 545 });
    let budget = if quick { 36 } else { 140 };
    loop {
        // attribute what can be explained by now
        let mut rest = vec![];
        for (i, v, c) in pending {
            if let Some(by) = cells.iter().find(|y| explains(y, &c)) {
                ctx.count("generated_violations_explained_by_simpler_failing_case", 1);
                *by_sig.entry(by.sig.clone()).or_insert(0) += 1;
                let detail = json!({"generated_case": i, "script": c.script, "detail": v.detail, "simplest_failing_case": by.script});
                show(&mut shown, &by.sig, &detail);
                ctx.violation(&v.assertion, &by.sig, detail);
            } else {
                rest.push((i, v, c));
            }
        }
        pending = rest;
        if pending.is_empty() {
            break;
        }
        if std::time::Instant::now() > shrink_deadline {
            // out of time: reported under assertion and cause only
            for (i, v, c) in pending.drain(..) {
                ctx.count("violations_not_shrunk_time_budget", 1);
                let sig = format!("C07/{}/not_minimised/{}", v.assertion, v.cause);
                *by_sig.entry(sig.clone()).or_insert(0) += 1;
                let detail = json!({"generated_case": i, "script": c.script, "detail": v.detail});
                show(&mut shown, &sig, &detail);
                ctx.violation(&v.assertion, &sig, detail);
            }
            break;
        }
        // one representative per raw class, at most `threads`
        let mut picked: Vec<usize> = vec![];
        let mut classes: BTreeSet<String> = BTreeSet::new();
        for (k, (_, v, c)) in pending.iter().enumerate() {
            if picked.len() < threads && classes.insert(format!("{}/{}/{}/{}", v.assertion, v.cause, c.via, c.spec.traits())) {
                picked.push(k);
            }
        }
        let jobs: Vec<(usize, Viol, Cell)> = picked.iter().rev().map(|k| pending.remove(*k)).collect();
        let shrunk = std::sync::Mutex::new(vec![]);
        std::thread::scope(|sc| {
            for (t, job) in jobs.iter().enumerate() {
                let (shrunk, scratch, cases) = (&shrunk, &scratch, &cases);
                sc.spawn(move || {
                    let sub = Scratch { root: scratch.root.join(format!("shrink{}", t)) };
                    let _ = std::fs::create_dir_all(&sub.root);
                    let r = shrink(&sub, &cases[job.0], &job.1.assertion, &job.1.cause, budget, hard);
                    shrunk.lock().unwrap().push((t, r));
                });
            }
        });
        let mut shrunk = shrunk.into_inner().unwrap();
        shrunk.sort_by_key(|x| x.0);
        for (t, (small, sout, complete)) in shrunk {
            let (i, v, c) = &jobs[t];
            ctx.count("violations_shrunk", 1);
            let (mut sc, sdetail) = match sout.viols.iter().find(|x| x.assertion == v.assertion && x.cause == v.cause) {
                Some(sv) => (cell_of(sv, &small, &sout), sv.detail.clone()),
                None => (c.clone(), v.detail.clone()), // not reproducible on re-run: keep the original facts
            };
            if !complete {
                // the time budget ended in the middle of the minimisation: the half-shrunk facts are not a stable signature
                ctx.count("violations_not_shrunk_time_budget", 1);
                sc.sig = format!("C07/{}/not_minimised/{}", v.assertion, v.cause);
            }
            // the minimal case may itself be explained by a matrix cell (it needed the generated context only by accident)
            let by = cells.iter().find(|y| explains(y, &sc)).cloned().unwrap_or_else(|| sc.clone());
            *by_sig.entry(by.sig.clone()).or_insert(0) += 1;
            let later: Vec<String> = if sout.via == "later" { small.later.iter().map(|r| format!("INSERT INTO t VALUES {}", row_sql(&small.spec, r))).collect() } else { vec![] };
            let detail = json!({"generated_case": i, "minimal_script": sc.script, "minimisation_complete": complete, "minimal_later_inserts": later, "minimal_detail": sdetail, "table_root_page_at_rollback": sout.root_at_rollback, "statements_failed_inside_txn": sout.failed_kinds, "original_script": c.script, "original_detail": v.detail});
            show(&mut shown, &by.sig, &detail);
            ctx.violation(&v.assertion, &by.sig, detail);
            if complete {
                cells.push(sc);
            }
        }
        cells.sort_by_key(rank);
    }
    ctx.extra.insert("violations_by_signature".into(), json!(by_sig));
    ctx.assumptions.push("AUTO_INCREMENT is not generated (counters need not roll back); hidden row ids are never observed (bags, not order); RELEASE is taken to destroy the savepoint and all later ones, released savepoints and duplicate savepoint names are never referenced; TRUNCATE/DDL inside a transaction, ON CONFLICT, UPDATE..FROM and ON DELETE CASCADE are not generated (transactional behaviour undocumented); a statement that fails inside the transaction is not a rollback defect: it is recorded, the shrinker drops it if the violation does not need it, otherwise the signature names it as `<kind>_failed`".into());
    ctx.finish()
}

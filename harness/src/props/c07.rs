//! C07: ROLLBACK / ROLLBACK TO restore the earlier state (engine in dmlengine.rs, focus = transactions).
use super::dmlengine::{run_prop, Focus};
use crate::Args;

pub fn run(a: &Args) -> i32 {
    run_prop(a, "C07", Focus::Txn, "generated histories with BEGIN / nested SAVEPOINT / RELEASE / ROLLBACK TO / ROLLBACK / COMMIT around inserts, updates and deletes on indexed and unindexed tables with and without integer PK; after every ROLLBACK [TO] every table bag and COUNT(*) must equal the model's snapshot; later statements (re-inserting keys that existed / did not exist at the snapshot) keep being compared. distinct_nontrivial = distinct histories in which at least one rollback was observed")
}

//! C08: uncommitted changes are isolated from other handles; reads inside a transaction see the snapshot
//! taken at BEGIN plus own writes; of two overlapping transactions that modify the same row at most one commits.
//!
//! Two drivers, both executed in worker subprocesses of this binary (`tv C08 worker ...`) under a supervising
//! parent (a hang or a hard death of TurDB is attributed to the announced case and re-run alone):
//!  (i)  `det`: 2-3 cloned handles on ONE thread; a library of small per-handle programs; all merges of the
//!       programs (thorough) or canonical + sampled merges (quick) are executed, each on a fresh database;
//!  (ii) `thr`: 2-4 threads on cloned handles run random programs, with the yield hook perturbing the commit path.
//! Every written value is unique ("h<handle>t<txn>s<stmt>"), so each observed value identifies the write that
//! produced it. The oracle is a history checker over recorded reads / writes / commits / aborts.
use crate::report::{catch, Ctx};
use crate::rng::{fnv, Rng};
use crate::sqlm::db::Scratch;
use crate::Args;
use serde_json::{json, Value as J};
use std::collections::{BTreeMap, BTreeSet, HashMap};
use std::io::{BufRead, Write};
use std::sync::atomic::{AtomicBool, AtomicU64, Ordering};
use std::sync::{mpsc, Arc, Mutex};
use std::time::{Duration, Instant};
use turdb::{Database, ExecuteResult, OwnedValue};

// ------------------------------------------------------------------------------------------------ programs

#[derive(Clone, Copy, Debug, PartialEq, Eq, Hash, PartialOrd, Ord)]
pub enum AP {
    Scan,
    Pk,
    Sec,
    Count,
}
impl AP {
    fn name(self) -> &'static str {
        match self {
            AP::Scan => "full_scan",
            AP::Pk => "pk_lookup",
            AP::Sec => "secondary_index",
            AP::Count => "count_star",
        }
    }
    fn short(self) -> &'static str {
        match self {
            AP::Scan => "scan",
            AP::Pk => "pk",
            AP::Sec => "sec",
            AP::Count => "count",
        }
    }
}
const READ_PATHS: [AP; 4] = [AP::Scan, AP::Pk, AP::Sec, AP::Count];
const WRITE_VIAS: [AP; 3] = [AP::Pk, AP::Sec, AP::Scan];

#[derive(Clone, Copy, Debug, PartialEq, Eq, Hash, PartialOrd, Ord)]
pub enum Op {
    Ins,
    Upd,
    Del,
}
impl Op {
    fn name(self) -> &'static str {
        match self {
            Op::Ins => "insert",
            Op::Upd => "update",
            Op::Del => "delete",
        }
    }
}

#[derive(Clone, Debug, PartialEq, Eq, Hash)]
pub enum St {
    Begin,
    Commit,
    Rollback,
    Ins { tab: u8, id: i64 },
    Upd { tab: u8, id: i64, via: AP },
    Del { tab: u8, id: i64, via: AP },
    Read { tab: u8, path: AP },
}

fn tname(tab: u8) -> &'static str {
    if tab == 0 {
        "a"
    } else {
        "b"
    }
}
fn kof(id: i64) -> i64 {
    id * 10
}
fn where_via(via: AP, id: i64) -> String {
    match via {
        AP::Pk => format!("id = {}", id),
        AP::Sec => format!("k = {}", kof(id)),
        _ => format!("id + 0 = {}", id),
    }
}

impl St {
    fn is_ctl(&self) -> bool {
        matches!(self, St::Begin | St::Commit | St::Rollback)
    }
    /// SQL text (reads: the statement family)
    fn sql(&self, val: &str) -> String {
        match self {
            St::Begin => "BEGIN".into(),
            St::Commit => "COMMIT".into(),
            St::Rollback => "ROLLBACK".into(),
            St::Ins { tab, id } => format!("INSERT INTO {} VALUES ({}, {}, '{}')", tname(*tab), id, kof(*id), val),
            St::Upd { tab, id, via } => format!("UPDATE {} SET v = '{}' WHERE {}", tname(*tab), val, where_via(*via, *id)),
            St::Del { tab, id, via } => format!("DELETE FROM {} WHERE {}", tname(*tab), where_via(*via, *id)),
            St::Read { tab, path } => match path {
                AP::Scan => format!("SELECT id, v FROM {}", tname(*tab)),
                AP::Pk => format!("SELECT id, v FROM {} WHERE id = <each key>", tname(*tab)),
                AP::Sec => format!("SELECT id, v FROM {} WHERE k = <each key*10>", tname(*tab)),
                AP::Count => format!("SELECT COUNT(*) FROM {}", tname(*tab)),
            },
        }
    }
}

const INIT_IDS: [i64; 3] = [1, 2, 3];
fn init_val(tab: u8, id: i64) -> String {
    format!("init{}.{}", tname(tab), id)
}

#[derive(Clone, Debug)]
pub struct Case {
    pub progs: Vec<Vec<St>>,
    pub sched: Vec<usize>,
    pub wal: bool,
}

impl Case {
    fn tabs(&self) -> BTreeSet<u8> {
        let mut s = BTreeSet::new();
        s.insert(0);
        for p in &self.progs {
            for st in p {
                match st {
                    St::Ins { tab, .. } | St::Upd { tab, .. } | St::Del { tab, .. } | St::Read { tab, .. } => {
                        s.insert(*tab);
                    }
                    _ => {}
                }
            }
        }
        s
    }
    fn universe(&self, tab: u8) -> Vec<i64> {
        let mut s: BTreeSet<i64> = INIT_IDS.iter().copied().collect();
        for p in &self.progs {
            for st in p {
                if let St::Ins { tab: t, id } = st {
                    if *t == tab {
                        s.insert(*id);
                    }
                }
            }
        }
        s.into_iter().collect()
    }
    fn hash(&self) -> u64 {
        fnv(format!("{:?}|{:?}|{}", self.progs, self.sched, self.wal).as_bytes())
    }
    /// values written by each statement: (handle, stmt index) -> "h<h>t<txn>s<stmt>"
    fn val_of(&self, h: usize, si: usize) -> String {
        let mut t = 0;
        for (i, st) in self.progs[h].iter().enumerate() {
            if i == si {
                break;
            }
            if matches!(st, St::Commit | St::Rollback) {
                t += 1;
            } else if !self.in_txn_at(h, i) && !st.is_ctl() {
                t += 1;
            }
        }
        format!("h{}t{}s{}", h, t, si)
    }
    fn in_txn_at(&self, h: usize, si: usize) -> bool {
        let mut open = false;
        for st in self.progs[h].iter().take(si) {
            match st {
                St::Begin => open = true,
                St::Commit | St::Rollback => open = false,
                _ => {}
            }
        }
        open
    }
    fn render(&self) -> J {
        let mut pcs = vec![0usize; self.progs.len()];
        let mut lines = vec![];
        for &h in &self.sched {
            let si = pcs[h];
            if si >= self.progs[h].len() {
                continue;
            }
            pcs[h] += 1;
            lines.push(format!("h{}: {}", h, self.progs[h][si].sql(&self.val_of(h, si))));
        }
        json!({"handles": self.progs.len(), "wal": self.wal, "setup": setup_sql(&self.tabs()), "schedule": lines})
    }
}

fn setup_sql(tabs: &BTreeSet<u8>) -> Vec<String> {
    let mut v = vec![];
    for &t in tabs {
        v.push(format!("CREATE TABLE {} (id INT PRIMARY KEY, k INT, v TEXT)", tname(t)));
        v.push(format!("CREATE INDEX {}_k ON {} (k)", tname(t), tname(t)));
        for id in INIT_IDS {
            v.push(format!("INSERT INTO {} VALUES ({}, {}, '{}')", tname(t), id, kof(id), init_val(t, id)));
        }
    }
    v
}

// ------------------------------------------------------------------------------------------------ history

#[derive(Clone, Copy, Debug, PartialEq, Eq)]
enum Status {
    Active,
    Committed,
    Aborted,
    Unknown,
}

#[derive(Clone, Debug)]
struct WriteRec {
    inv: u64,
    ret: u64,
    tab: u8,
    id: i64,
    op: Op,
    val: Option<String>,
    via: AP,
    affected: usize,
}

#[derive(Clone, Debug)]
struct TxnRec {
    h: usize,
    explicit: bool,
    /// BEGIN invoked / returned (autocommit: statement invoked / invoked)
    begin_inv: u64,
    begin_ret: u64,
    /// COMMIT/ROLLBACK invoked, returned (autocommit: statement invoked / returned)
    end_inv: u64,
    end_ret: u64,
    status: Status,
    writes: Vec<WriteRec>,
}

#[derive(Clone, Debug)]
enum Obs {
    /// keys covered by the read -> observed value (None = row absent)
    Keys(BTreeMap<i64, Option<String>>),
    Count(i64),
    Err(String),
}

#[derive(Clone, Debug)]
struct ReadRec {
    txn: usize,
    inv: u64,
    ret: u64,
    tab: u8,
    path: AP,
    obs: Obs,
    /// rows the read returned that it must never return (wrong id for the probed key, duplicates)
    strange: Vec<String>,
}

#[derive(Clone, Debug, Default)]
struct Hist {
    txns: Vec<TxnRec>,
    reads: Vec<ReadRec>,
    panics: Vec<(String, String)>,
    errors: Vec<(String, String)>,
}

#[derive(Clone, Debug)]
pub struct Viol {
    pub assertion: String,
    pub sig: String,
    pub detail: J,
}

/// one handle executing statements and recording its part of the history
struct Runner<'a> {
    h: usize,
    db: &'a Database,
    clock: &'a AtomicU64,
    cur: Option<usize>,
    dead: bool,
    hist: Hist,
}

fn tick(c: &AtomicU64) -> u64 {
    c.fetch_add(1, Ordering::SeqCst)
}

fn exec(db: &Database, sql: &str) -> Result<ExecuteResult, String> {
    match catch(|| db.execute(sql)) {
        Ok(Ok(r)) => Ok(r),
        Ok(Err(e)) => Err(format!("{:#}", e)),
        Err(p) => Err(format!("PANIC: {}", p)),
    }
}

fn text_of(v: &OwnedValue) -> Option<String> {
    match v {
        OwnedValue::Text(s) => Some(s.clone()),
        OwnedValue::Null => None,
        other => Some(format!("{:?}", other)),
    }
}
fn int_of(v: &OwnedValue) -> Option<i64> {
    match v {
        OwnedValue::Int(i) => Some(*i),
        _ => None,
    }
}

impl<'a> Runner<'a> {
    fn new(h: usize, db: &'a Database, clock: &'a AtomicU64) -> Self {
        Runner { h, db, clock, cur: None, dead: false, hist: Hist::default() }
    }
    fn note_err(&mut self, sql: &str, e: &str) {
        if e.starts_with("PANIC: ") {
            self.hist.panics.push((sql.to_string(), e.to_string()));
        } else {
            self.hist.errors.push((sql.to_string(), e.to_string()));
        }
    }
    fn abort_open(&mut self) {
        if let Some(t) = self.cur.take() {
            let inv = tick(self.clock);
            let r = exec(self.db, "ROLLBACK");
            let ret = tick(self.clock);
            let tx = &mut self.hist.txns[t];
            tx.end_inv = inv;
            tx.end_ret = ret;
            tx.status = if r.is_ok() { Status::Aborted } else { Status::Unknown };
            if let Err(e) = r {
                self.note_err("ROLLBACK", &e);
            }
        }
    }
    /// query helper for reads
    fn select(&mut self, sql: &str) -> Result<Vec<Vec<OwnedValue>>, String> {
        match exec(self.db, sql) {
            Ok(ExecuteResult::Select { rows, .. }) => Ok(rows.into_iter().map(|r| r.values).collect()),
            Ok(o) => Err(format!("not a select result: {:?}", o).chars().take(120).collect()),
            Err(e) => Err(e),
        }
    }
    fn read(&mut self, tab: u8, path: AP, universe: &[i64]) {
        // autocommit read = its own single-statement transaction record (no writes)
        let t = tname(tab);
        let mut probes: Vec<(String, Vec<i64>)> = vec![];
        match path {
            AP::Scan => probes.push((format!("SELECT id, v FROM {}", t), universe.to_vec())),
            AP::Pk => {
                for &id in universe {
                    probes.push((format!("SELECT id, v FROM {} WHERE id = {}", t, id), vec![id]));
                }
            }
            AP::Sec => {
                for &id in universe {
                    probes.push((format!("SELECT id, v FROM {} WHERE k = {}", t, kof(id)), vec![id]));
                }
            }
            AP::Count => probes.push((format!("SELECT COUNT(*) FROM {}", t), vec![])),
        }
        for (sql, keys) in probes {
            let inv = tick(self.clock);
            let r = self.select(&sql);
            let ret = tick(self.clock);
            let txn = match self.cur {
                Some(t) => t,
                None => {
                    self.hist.txns.push(TxnRec { h: self.h, explicit: false, begin_inv: inv, begin_ret: inv, end_inv: inv, end_ret: ret, status: Status::Committed, writes: vec![] });
                    self.hist.txns.len() - 1
                }
            };
            let mut strange = vec![];
            let obs = match r {
                Err(e) => {
                    self.note_err(&sql, &e);
                    Obs::Err(e)
                }
                Ok(rows) => {
                    if path == AP::Count {
                        match rows.first().and_then(|r| r.first()).and_then(int_of) {
                            Some(n) => Obs::Count(n),
                            None => Obs::Err("COUNT(*) returned no integer".into()),
                        }
                    } else {
                        let mut m: BTreeMap<i64, Option<String>> = keys.iter().map(|k| (*k, None)).collect();
                        let mut seen = BTreeSet::new();
                        for row in rows {
                            let id = row.first().and_then(int_of);
                            let v = row.get(1).and_then(text_of);
                            match id {
                                Some(id) if m.contains_key(&id) && seen.insert(id) => {
                                    m.insert(id, Some(v.unwrap_or_else(|| "<NULL>".into())));
                                }
                                Some(id) if m.contains_key(&id) => strange.push(format!("duplicate row {:?} for `{}`", row, sql).chars().take(160).collect()),
                                _ => strange.push(format!("foreign row {:?} for `{}`", row, sql).chars().take(160).collect()),
                            }
                        }
                        Obs::Keys(m)
                    }
                }
            };
            self.hist.reads.push(ReadRec { txn, inv, ret, tab, path, obs, strange });
        }
    }
    /// execute one program statement
    fn step(&mut self, st: &St, val: &str, universe_of: &dyn Fn(u8) -> Vec<i64>) {
        if self.dead {
            return;
        }
        match st {
            St::Begin => {
                let inv = tick(self.clock);
                let r = exec(self.db, "BEGIN");
                let ret = tick(self.clock);
                match r {
                    Ok(_) => {
                        self.hist.txns.push(TxnRec { h: self.h, explicit: true, begin_inv: inv, begin_ret: ret, end_inv: u64::MAX, end_ret: u64::MAX, status: Status::Active, writes: vec![] });
                        self.cur = Some(self.hist.txns.len() - 1);
                    }
                    Err(e) => {
                        self.note_err("BEGIN", &e);
                        self.dead = true;
                    }
                }
            }
            St::Commit | St::Rollback => {
                let Some(t) = self.cur else { return };
                let sql = if matches!(st, St::Commit) { "COMMIT" } else { "ROLLBACK" };
                let inv = tick(self.clock);
                let r = exec(self.db, sql);
                let ret = tick(self.clock);
                match r {
                    Ok(_) => {
                        let tx = &mut self.hist.txns[t];
                        tx.end_inv = inv;
                        tx.end_ret = ret;
                        tx.status = if matches!(st, St::Commit) { Status::Committed } else { Status::Aborted };
                        self.cur = None;
                    }
                    Err(e) => {
                        self.note_err(sql, &e);
                        // the outcome of a failed COMMIT is whatever a following ROLLBACK makes of it
                        self.hist.txns[t].end_inv = inv;
                        self.abort_open();
                        self.hist.txns[t].end_inv = inv;
                        self.dead = true;
                    }
                }
            }
            St::Read { tab, path } => {
                let u = universe_of(*tab);
                self.read(*tab, *path, &u);
            }
            St::Ins { tab, id } | St::Upd { tab, id, .. } | St::Del { tab, id, .. } => {
                let (op, via) = match st {
                    St::Ins { .. } => (Op::Ins, AP::Pk),
                    St::Upd { via, .. } => (Op::Upd, *via),
                    St::Del { via, .. } => (Op::Del, *via),
                    _ => unreachable!(),
                };
                let sql = st.sql(val);
                let inv = tick(self.clock);
                let r = exec(self.db, &sql);
                let ret = tick(self.clock);
                let affected = match &r {
                    Ok(ExecuteResult::Insert { rows_affected, .. }) | Ok(ExecuteResult::Update { rows_affected, .. }) | Ok(ExecuteResult::Delete { rows_affected, .. }) => *rows_affected,
                    _ => 0,
                };
                let w = WriteRec { inv, ret, tab: *tab, id: *id, op, val: if op == Op::Del { None } else { Some(val.to_string()) }, via, affected };
                match (r, self.cur) {
                    (Ok(_), Some(t)) => self.hist.txns[t].writes.push(w),
                    (Ok(_), None) => {
                        self.hist.txns.push(TxnRec { h: self.h, explicit: false, begin_inv: inv, begin_ret: inv, end_inv: inv, end_ret: ret, status: Status::Committed, writes: vec![w] });
                    }
                    (Err(e), Some(_)) => {
                        self.note_err(&sql, &e);
                        // client reaction to a failed statement inside a transaction: roll back, give up the program
                        self.abort_open();
                        self.dead = true;
                    }
                    (Err(e), None) => {
                        self.note_err(&sql, &e);
                        // failed autocommit statement: a transaction that aborted; its (unique) value must never be seen
                        self.hist.txns.push(TxnRec { h: self.h, explicit: false, begin_inv: inv, begin_ret: inv, end_inv: inv, end_ret: ret, status: Status::Aborted, writes: vec![WriteRec { affected: 1, ..w }] });
                    }
                }
            }
        }
    }
}

/// merge per-handle histories into one (transaction indices re-based)
fn merge_hists(parts: Vec<Hist>) -> Hist {
    let mut out = Hist::default();
    for p in parts {
        let base = out.txns.len();
        out.txns.extend(p.txns);
        for mut r in p.reads {
            r.txn += base;
            out.reads.push(r);
        }
        out.panics.extend(p.panics);
        out.errors.extend(p.errors);
    }
    out
}

// ------------------------------------------------------------------------------------------------ oracle

struct Oracle<'a> {
    h: &'a Hist,
    /// value -> (txn index, write index)
    by_val: HashMap<&'a str, (usize, usize)>,
    exact: bool,
    /// rows that two overlapping committed transactions both modified (their final value is undefined: the
    /// lost update is reported once, reads of the row are not judged against the commit-order state)
    conflicted: BTreeSet<Key>,
}

type Key = (u8, i64);

impl<'a> Oracle<'a> {
    fn new(h: &'a Hist, exact: bool) -> Self {
        let mut by_val = HashMap::new();
        for (ti, t) in h.txns.iter().enumerate() {
            for (wi, w) in t.writes.iter().enumerate() {
                if let Some(v) = &w.val {
                    by_val.insert(v.as_str(), (ti, wi));
                }
            }
        }
        let mut o = Oracle { h, by_val, exact, conflicted: BTreeSet::new() };
        o.conflicted = o.lost_updates().into_iter().map(|x| x.0).collect();
        o
    }

    /// (row, first write, second write, handle of first writer) for every pair of committed transactions that
    /// both modified a row and definitely overlapped
    fn lost_updates(&self) -> Vec<(Key, WriteRec, WriteRec, usize)> {
        let mut out = vec![];
        let committed: Vec<&TxnRec> = self.h.txns.iter().filter(|t| t.status == Status::Committed && !t.writes.is_empty()).collect();
        for (i, t1) in committed.iter().enumerate() {
            for t2 in committed.iter().skip(i + 1) {
                if t1.h == t2.h {
                    continue;
                }
                // snapshot upper bound < commit lower bound, both ways
                let s1 = if t1.explicit { t1.begin_ret } else { t1.end_ret };
                let s2 = if t2.explicit { t2.begin_ret } else { t2.end_ret };
                if !(s1 < t2.end_inv && s2 < t1.end_inv) {
                    continue;
                }
                for w1 in t1.writes.iter().filter(|w| w.affected > 0 && w.op != Op::Ins) {
                    for w2 in t2.writes.iter().filter(|w| w.affected > 0 && w.op != Op::Ins) {
                        if (w1.tab, w1.id) == (w2.tab, w2.id) {
                            if w1.inv < w2.inv {
                                out.push(((w1.tab, w1.id), w1.clone(), w2.clone(), t1.h));
                            } else {
                                out.push(((w1.tab, w1.id), w2.clone(), w1.clone(), t2.h));
                            }
                        }
                    }
                }
            }
        }
        out
    }

    /// committed state just before time `s` (exact mode: all timestamps are totally ordered)
    fn committed_at(&self, s: u64, tab: u8) -> BTreeMap<i64, String> {
        let mut m: BTreeMap<i64, String> = INIT_IDS.iter().map(|&i| (i, init_val(tab, i))).collect();
        let mut ts: Vec<&TxnRec> = self.h.txns.iter().filter(|t| t.status == Status::Committed && t.end_ret < s).collect();
        ts.sort_by_key(|t| t.end_inv);
        for t in ts {
            for w in &t.writes {
                if w.tab == tab && w.affected > 0 {
                    match &w.val {
                        Some(v) => {
                            m.insert(w.id, v.clone());
                        }
                        None => {
                            m.remove(&w.id);
                        }
                    }
                }
            }
        }
        m
    }

    /// what the reading transaction must see for the table: snapshot + own writes
    fn expected(&self, r: &ReadRec) -> BTreeMap<i64, String> {
        let t = &self.h.txns[r.txn];
        let s = if t.explicit { t.begin_ret } else { r.inv };
        let mut m = self.committed_at(s, r.tab);
        if t.explicit {
            for w in &t.writes {
                if w.tab == r.tab && w.affected > 0 && w.ret < r.inv {
                    match &w.val {
                        Some(v) => {
                            m.insert(w.id, v.clone());
                        }
                        None => {
                            m.remove(&w.id);
                        }
                    }
                }
            }
        }
        m
    }

    /// classify one observation that is not what the reader must see. `ev`: expected value if known.
    /// Returns (anomaly, writer-op text, explanation)
    fn classify(&self, r: &ReadRec, key: Key, ov: &Option<String>, ev: Option<&Option<String>>) -> Option<(String, String, String)> {
        if let Some(ev) = ev {
            if ev == ov {
                return None;
            }
        }
        let rt = &self.h.txns[r.txn];
        // judge a foreign write (transaction `wt`, op `op`) that the observation reflects
        let foreign = |wt: &TxnRec, op: Op, what: &str| -> Option<(String, String, String)> {
            match wt.status {
                Status::Aborted => {
                    if wt.end_ret <= r.inv {
                        Some(("no_aborted_read".into(), op.name().into(), format!("{} of a transaction that had rolled back before the read", what)))
                    } else {
                        Some(("no_dirty_read".into(), op.name().into(), format!("{} of a transaction that was still open (rolled back later)", what)))
                    }
                }
                Status::Active => Some(("no_dirty_read".into(), op.name().into(), format!("{} of a transaction that never committed", what))),
                Status::Committed => {
                    if wt.end_inv > r.ret {
                        Some(("no_dirty_read".into(), op.name().into(), format!("{} of a transaction whose COMMIT was issued only after the read returned", what)))
                    } else if rt.explicit && wt.end_inv > rt.begin_ret {
                        Some(("snapshot".into(), op.name().into(), format!("{} committed after the reader's BEGIN", what)))
                    } else if self.exact && !self.conflicted.contains(&key) {
                        Some(("unexplained_read".into(), format!("stale_{}", op.name()), format!("{} committed before the snapshot, but it is not the snapshot's version", what)))
                    } else {
                        None
                    }
                }
                Status::Unknown => None,
            }
        };
        match ov {
            Some(v) => match self.by_val.get(v.as_str()) {
                None => {
                    if *v == init_val(key.0, key.1) {
                        if self.exact {
                            // the initial version is visible although the reader must see something else
                            return self.explain_stale_initial(r, key, ev);
                        }
                        None
                    } else {
                        Some(("unexplained_read".into(), "unknown_value".into(), format!("value {:?} was never written", v)))
                    }
                }
                Some(&(wti, wi)) => {
                    let wt = &self.h.txns[wti];
                    let w = &wt.writes[wi];
                    if (w.tab, w.id) != key {
                        return Some(("unexplained_read".into(), "value_of_other_row".into(), format!("value {:?} belongs to row {:?}", v, (w.tab, w.id))));
                    }
                    if wti == r.txn {
                        if self.exact {
                            return Some(("snapshot".into(), format!("own_{}_stale", w.op.name()), "an older own write is visible instead of the latest own write".into()));
                        }
                        return None;
                    }
                    let x = foreign(wt, w.op, "value");
                    // a version that should have been superseded by a delete: one cause, whatever version shows
                    if let (Some((a, op, _)), Some(None)) = (&x, ev) {
                        if a == "unexplained_read" && op.starts_with("stale_") {
                            return self.explain_stale_initial(r, key, ev);
                        }
                    }
                    x
                }
            },
            None => {
                // row absent although the reader must see it (only judged when the expectation is known)
                let Some(Some(evv)) = ev else { return None };
                // latest foreign delete of the key invoked before the read returned
                let mut best: Option<(&TxnRec, &WriteRec)> = None;
                for (ti, t) in self.h.txns.iter().enumerate() {
                    if ti == r.txn {
                        continue;
                    }
                    for w in &t.writes {
                        if (w.tab, w.id) == key && w.op == Op::Del && w.affected > 0 && w.inv < r.ret && best.map(|b| b.1.inv < w.inv).unwrap_or(true) {
                            best = Some((t, w));
                        }
                    }
                }
                if let Some((t, _)) = best {
                    if let Some(x) = foreign(t, Op::Del, "delete") {
                        if x.0 != "unexplained_read" {
                            return Some(x);
                        }
                    }
                }
                // is the expected version an own write?
                if let Some(&(wti, wi)) = self.by_val.get(evv.as_str()) {
                    if wti == r.txn {
                        let w = &self.h.txns[wti].writes[wi];
                        return Some(("snapshot".into(), format!("own_{}_not_seen", w.op.name()), "the reader's own write is not visible to it".into()));
                    }
                    // a foreign insert that was rolled back takes the row away; a foreign update that was rolled back may too
                }
                // a rollback of a foreign transaction that touched the key removed the row?
                for (ti, t) in self.h.txns.iter().enumerate() {
                    if ti != r.txn && t.explicit && t.status == Status::Aborted && t.end_ret <= r.inv && t.writes.iter().any(|w| (w.tab, w.id) == key && w.affected > 0) {
                        return Some(("no_aborted_read".into(), "rollback_removed_row".into(), "the row vanished after another transaction that had modified it rolled back".into()));
                    }
                }
                Some(("unexplained_read".into(), "row_missing".into(), format!("row must be visible with {:?}", evv)))
            }
        }
    }

    fn explain_stale_initial(&self, r: &ReadRec, key: Key, ev: Option<&Option<String>>) -> Option<(String, String, String)> {
        // expected: own write or a committed version or absence; observed: the initial version
        match ev {
            Some(Some(evv)) => {
                if let Some(&(wti, wi)) = self.by_val.get(evv.as_str()) {
                    let w = &self.h.txns[wti].writes[wi];
                    if wti == r.txn {
                        return Some(("snapshot".into(), format!("own_{}_not_seen", w.op.name()), "the reader's own write is not visible to it".into()));
                    }
                    return Some(("unexplained_read".into(), format!("committed_{}_not_seen", w.op.name()), "a version committed before the snapshot is not visible (initial version seen)".into()));
                }
                None
            }
            Some(None) => {
                // must be absent: own delete or committed delete
                let rt = &self.h.txns[r.txn];
                if rt.writes.iter().any(|w| (w.tab, w.id) == key && w.op == Op::Del && w.affected > 0 && w.ret < r.inv) {
                    return Some(("snapshot".into(), "own_delete_not_seen".into(), "the reader's own delete is not visible to it".into()));
                }
                // a foreign transaction deleted and an aborted transaction's rollback resurrected it?
                for (ti, t) in self.h.txns.iter().enumerate() {
                    if ti != r.txn && t.explicit && t.status == Status::Aborted && t.end_ret <= r.inv && t.writes.iter().any(|w| (w.tab, w.id) == key && w.affected > 0) {
                        return Some(("no_aborted_read".into(), "rollback_resurrected_row".into(), "a committed delete was undone by the rollback of another transaction".into()));
                    }
                }
                Some(("unexplained_read".into(), "committed_delete_not_seen".into(), "a delete committed before the snapshot is not visible".into()))
            }
            None => None,
        }
    }

    fn check(&self) -> Vec<Viol> {
        let mut out: Vec<Viol> = vec![];
        let mut seen: BTreeSet<String> = BTreeSet::new();
        let mut push = |assertion: &str, sig: String, detail: J| {
            if seen.insert(sig.clone()) {
                out.push(Viol { assertion: assertion.to_string(), sig, detail });
            }
        };
        for r in &self.h.reads {
            let rt = &self.h.txns[r.txn];
            if rt.status == Status::Unknown {
                continue;
            }
            if !r.strange.is_empty() {
                let what = if r.strange.iter().any(|x| x.starts_with("duplicate")) { "duplicate_rows" } else { "foreign_rows" };
                push("read_returns_only_probed_rows", format!("C08/unexplained_read/{}/{}", r.path.name(), what), json!({"rows": r.strange, "reader": rt.h}));
            }
            let exp = if self.exact { Some(self.expected(r)) } else { None };
            match &r.obs {
                Obs::Err(_) => {}
                Obs::Keys(m) => {
                    for (id, ov) in m {
                        // after a lost update the row's value is undefined: only the order-independent rules apply
                        let ev = if self.conflicted.contains(&(r.tab, *id)) { None } else { exp.as_ref().map(|e| e.get(id).cloned()) };
                        if let Some((anomaly, op, why)) = self.classify(r, (r.tab, *id), ov, ev.as_ref()) {
                            push(&anomaly, format!("C08/{}/{}/{}", anomaly, r.path.name(), op), json!({"reader_handle": rt.h, "reader_in_explicit_txn": rt.explicit, "table": tname(r.tab), "id": id, "observed": ov, "must_see": ev, "why": why}));
                        }
                    }
                }
                Obs::Count(n) => {
                    let Some(exp) = exp.as_ref() else { continue };
                    if *n == exp.len() as i64 || self.conflicted.iter().any(|k| k.0 == r.tab) {
                        continue;
                    }
                    let d = *n - exp.len() as i64;
                    // writes of other transactions that change the row count and are NOT part of what the reader must see
                    let mut cands: Vec<(i64, String, String)> = vec![];
                    for (ti, t) in self.h.txns.iter().enumerate() {
                        if ti == r.txn {
                            continue;
                        }
                        for w in &t.writes {
                            if w.tab != r.tab || w.affected == 0 || w.op == Op::Upd || w.inv > r.ret {
                                continue;
                            }
                            let cat = match t.status {
                                Status::Aborted if t.explicit && t.end_ret <= r.inv => "no_aborted_read",
                                Status::Aborted if t.explicit => "no_dirty_read",
                                Status::Aborted => continue,
                                Status::Active => "no_dirty_read",
                                Status::Committed if t.end_inv > r.ret => "no_dirty_read",
                                Status::Committed if rt.explicit && t.end_inv > rt.begin_ret => "snapshot",
                                _ => continue,
                            };
                            cands.push((if w.op == Op::Ins { 1 } else { -1 }, cat.to_string(), w.op.name().to_string()));
                        }
                    }
                    let singles: BTreeSet<(String, String)> = cands.iter().filter(|c| c.0 == d).map(|c| (c.1.clone(), c.2.clone())).collect();
                    let all: BTreeSet<(String, String)> = cands.iter().map(|c| (c.1.clone(), c.2.clone())).collect();
                    let prio = |a: &str| match a {
                        "no_dirty_read" => 0,
                        "no_aborted_read" => 1,
                        _ => 2,
                    };
                    let (a, op) = if singles.len() == 1 {
                        singles.into_iter().next().unwrap()
                    } else if singles.len() > 1 {
                        let a = singles.iter().map(|c| c.0.clone()).min_by_key(|a| prio(a)).unwrap();
                        let ops: BTreeSet<String> = singles.iter().filter(|c| c.0 == a).map(|c| c.1.clone()).collect();
                        (a, if ops.len() == 1 { ops.into_iter().next().unwrap() } else { "mixed".into() })
                    } else if !cands.is_empty() && cands.iter().map(|c| c.0).sum::<i64>() == d {
                        let a = all.iter().map(|c| c.0.clone()).min_by_key(|a| prio(a)).unwrap();
                        (a, if all.len() == 1 { all.into_iter().next().unwrap().1 } else { "mixed".into() })
                    } else if !cands.is_empty() && d.abs() as usize <= cands.len() {
                        // some subset of the leaking writes: attributed, but not to one operation
                        let a = all.iter().map(|c| c.0.clone()).min_by_key(|a| prio(a)).unwrap();
                        (a, "mixed".into())
                    } else {
                        ("unexplained_read".to_string(), "count_mismatch".to_string())
                    };
                    push(&a, format!("C08/{}/count_star/{}", a, op), json!({"reader_handle": rt.h, "table": tname(r.tab), "count": n, "must_be": exp.len(), "count_changing_writes_not_visible_to_reader": cands.len()}));
                }
            }
        }
        if !self.exact {
            // repeatable reads inside one explicit transaction: a key's value changes only through own writes
            let mut per: BTreeMap<(usize, u8, i64), Vec<(&ReadRec, &Option<String>)>> = BTreeMap::new();
            for r in &self.h.reads {
                if !self.h.txns[r.txn].explicit {
                    continue;
                }
                if let Obs::Keys(m) = &r.obs {
                    for (id, ov) in m {
                        per.entry((r.txn, r.tab, *id)).or_default().push((r, ov));
                    }
                }
            }
            for ((ti, tab, id), mut v) in per {
                v.sort_by_key(|x| x.0.inv);
                for w in v.windows(2) {
                    let (r1, o1) = w[0];
                    let (r2, o2) = w[1];
                    if o1 == o2 {
                        continue;
                    }
                    let own = self.h.txns[ti].writes.iter().any(|x| (x.tab, x.id) == (tab, id) && x.ret > r1.inv && x.inv < r2.ret);
                    if own {
                        continue;
                    }
                    let op = match o2 {
                        None => "delete".to_string(),
                        Some(v) => self.by_val.get(v.as_str()).map(|&(a, b)| self.h.txns[a].writes[b].op.name().to_string()).unwrap_or_else(|| "delete".into()),
                    };
                    push("snapshot", format!("C08/snapshot/{}/{}", r2.path.name(), op), json!({"table": tname(tab), "id": id, "first": o1, "then": o2, "why": "two reads of one key inside one transaction differ without an own write in between"}));
                }
            }
        }
        // lost update: two committed transactions that both modified a row and definitely overlapped
        for (key, first, second, first_h) in self.lost_updates() {
            let mut ops = [first.op.name(), second.op.name()];
            ops.sort();
            push(
                "no_lost_update",
                format!("C08/no_lost_update/{}/{}+{}", second.via.name(), ops[0], ops[1]),
                json!({"table": tname(key.0), "id": key.1, "first_writer": {"handle": first_h, "value": first.val}, "second_writer": {"value": second.val}, "why": "both transactions modified the row while the other was open and both COMMITs (autocommit statements) succeeded"}),
            );
        }
        for (sql, p) in &self.h.panics {
            let site = crate::report::panic_site(p);
            let site = site.rsplit('/').next().unwrap_or("").to_string();
            push("no_panic", format!("C08/panic/{}", site), json!({"sql": sql, "panic": p}));
        }
        out
    }
}

/// did the case exercise the mechanism: a read ran while another handle's transaction with a successful write
/// was open, or two writing transactions overlapped
fn exercised(h: &Hist) -> bool {
    for r in &h.reads {
        for (ti, t) in h.txns.iter().enumerate() {
            if ti != r.txn && t.h != h.txns[r.txn].h && t.explicit && t.writes.iter().any(|w| w.affected > 0 && w.inv < r.inv) && t.end_inv > r.ret {
                return true;
            }
        }
    }
    for (i, t1) in h.txns.iter().enumerate() {
        for t2 in h.txns.iter().skip(i + 1) {
            if t1.h != t2.h && !t1.writes.is_empty() && !t2.writes.is_empty() && t1.begin_ret < t2.end_inv && t2.begin_ret < t1.end_inv {
                return true;
            }
        }
    }
    false
}

// ------------------------------------------------------------------------------------------------ running a case

/// fresh database for a case: a template directory per table set is created once per worker process (and closed
/// cleanly), every case works on a file copy of it opened with Database::open (far fewer fsyncs than CREATE ...)
fn open_db(dir: &std::path::Path, tabs: &BTreeSet<u8>, wal: bool, sync_off: bool) -> Result<Database, String> {
    if std::env::var("C08_NO_TEMPLATE").is_err() {
        let tdir = dir.parent().unwrap().join(format!("template{}", tabs.len()));
        if !tdir.join("turdb.meta").exists() {
            let _ = std::fs::remove_dir_all(&tdir);
            let db = create_db(&tdir, tabs, false)?;
            drop(db);
        }
        copy_tree(&tdir, dir).map_err(|e| format!("copy template: {}", e))?;
        let db = match catch(|| Database::open(dir)) {
            Ok(Ok(d)) => d,
            Ok(Err(e)) => return Err(format!("open: {:#}", e)),
            Err(p) => return Err(format!("open panicked: {}", p)),
        };
        if wal {
            exec(&db, "PRAGMA wal = ON").map_err(|e| format!("PRAGMA wal: {}", e))?;
            if sync_off {
                exec(&db, "PRAGMA synchronous = OFF").map_err(|e| format!("PRAGMA synchronous: {}", e))?;
            }
        }
        return Ok(db);
    }
    create_db(dir, tabs, wal)
}

fn copy_tree(src: &std::path::Path, dst: &std::path::Path) -> std::io::Result<()> {
    std::fs::create_dir_all(dst)?;
    for e in std::fs::read_dir(src)? {
        let e = e?;
        let p = e.path();
        let d = dst.join(e.file_name());
        if p.is_dir() {
            copy_tree(&p, &d)?;
        } else {
            std::fs::copy(&p, &d)?;
        }
    }
    Ok(())
}

fn create_db(dir: &std::path::Path, tabs: &BTreeSet<u8>, wal: bool) -> Result<Database, String> {
    let db = match catch(|| Database::create(dir)) {
        Ok(Ok(d)) => d,
        Ok(Err(e)) => return Err(format!("create: {:#}", e)),
        Err(p) => return Err(format!("create panicked: {}", p)),
    };
    if wal {
        exec(&db, "PRAGMA wal = ON").map_err(|e| format!("PRAGMA wal: {}", e))?;
    }
    for s in setup_sql(tabs) {
        exec(&db, &s).map_err(|e| format!("{}: {}", s, e))?;
    }
    Ok(db)
}

struct CaseResult {
    viols: Vec<Viol>,
    exercised: bool,
    errors: usize,
    reads: usize,
    stmts: usize,
}

/// deterministic driver: one thread, the schedule decides which handle issues its next statement
fn run_det(case: &Case, dir: &std::path::Path) -> Result<CaseResult, String> {
    let _ = std::fs::remove_dir_all(dir);
    let tabs = case.tabs();
    let root = open_db(dir, &tabs, case.wal, true)?;
    let handles: Vec<Database> = (0..case.progs.len()).map(|_| root.clone()).collect();
    let clock = AtomicU64::new(1);
    let mut runners: Vec<Runner> = handles.iter().enumerate().map(|(h, d)| Runner::new(h, d, &clock)).collect();
    let uni = |t: u8| case.universe(t);
    let mut pcs = vec![0usize; case.progs.len()];
    let mut stmts = 0;
    for &h in &case.sched {
        let si = pcs[h];
        if si >= case.progs[h].len() {
            continue;
        }
        pcs[h] += 1;
        let val = case.val_of(h, si);
        runners[h].step(&case.progs[h][si], &val, &uni);
        stmts += 1;
    }
    for r in runners.iter_mut() {
        r.abort_open();
    }
    // epilogue: an observer reads the quiescent state through every path
    let mut obs = Runner::new(case.progs.len(), &root, &clock);
    for &t in &tabs {
        for p in READ_PATHS {
            obs.read(t, p, &case.universe(t));
        }
    }
    let mut parts: Vec<Hist> = runners.into_iter().map(|r| r.hist).collect();
    parts.push(obs.hist);
    let hist = merge_hists(parts);
    let viols = Oracle::new(&hist, true).check();
    let res = CaseResult { viols, exercised: exercised(&hist), errors: hist.errors.len(), reads: hist.reads.len(), stmts };
    drop(handles);
    // no clean close (it would msync every file: tens of ms each on a busy disk); the worker process is recycled
    // before the leaked mappings add up
    std::mem::forget(root);
    DB_OPENS.fetch_add(1, Ordering::Relaxed);
    let _ = std::fs::remove_dir_all(dir);
    Ok(res)
}

static DB_OPENS: AtomicU64 = AtomicU64::new(0);

// ------------------------------------------------------------------------------------------------ program library

fn new_id(h: usize, n: usize) -> i64 {
    10 + (h as i64) * 10 + n as i64
}

fn writer_templates(h: usize, tab: u8, x: i64, via: AP) -> Vec<(&'static str, Vec<St>)> {
    let n = new_id(h, 0);
    vec![
        ("txn_update_commit", vec![St::Begin, St::Upd { tab, id: x, via }, St::Commit]),
        ("txn_update_rollback", vec![St::Begin, St::Upd { tab, id: x, via }, St::Rollback]),
        ("txn_insert_commit", vec![St::Begin, St::Ins { tab, id: n }, St::Commit]),
        ("txn_insert_rollback", vec![St::Begin, St::Ins { tab, id: n }, St::Rollback]),
        ("txn_delete_commit", vec![St::Begin, St::Del { tab, id: x, via }, St::Commit]),
        ("txn_delete_rollback", vec![St::Begin, St::Del { tab, id: x, via }, St::Rollback]),
    ]
}
fn reader_templates(tab: u8, p: AP) -> Vec<(&'static str, Vec<St>)> {
    vec![
        ("txn_read_read", vec![St::Begin, St::Read { tab, path: p }, St::Read { tab, path: p }, St::Commit]),
        ("auto_read_read", vec![St::Read { tab, path: p }, St::Read { tab, path: p }]),
    ]
}

/// the systematic part of the library: writer x reader x path, and writer x writer on one key
fn base_sets() -> Vec<Vec<Vec<St>>> {
    let mut sets = vec![];
    for p in READ_PATHS {
        for (_, w) in writer_templates(0, 0, 2, AP::Pk) {
            for (_, r) in reader_templates(0, p) {
                sets.push(vec![w.clone(), r]);
            }
        }
    }
    // own writes must be visible through every path
    for p in READ_PATHS {
        sets.push(vec![vec![St::Begin, St::Ins { tab: 0, id: new_id(0, 0) }, St::Read { tab: 0, path: p }, St::Commit], vec![St::Read { tab: 0, path: p }]]);
        sets.push(vec![vec![St::Begin, St::Upd { tab: 0, id: 1, via: AP::Pk }, St::Read { tab: 0, path: p }, St::Rollback], vec![St::Read { tab: 0, path: p }]]);
        sets.push(vec![vec![St::Begin, St::Del { tab: 0, id: 3, via: AP::Pk }, St::Read { tab: 0, path: p }, St::Commit], vec![St::Read { tab: 0, path: p }]]);
    }
    // write-write conflicts
    for via in WRITE_VIAS {
        let u = |h: usize| vec![St::Begin, St::Upd { tab: 0, id: 2, via }, St::Commit];
        let d = |_h: usize| vec![St::Begin, St::Del { tab: 0, id: 2, via }, St::Commit];
        let ru = |_h: usize| vec![St::Begin, St::Read { tab: 0, path: AP::Pk }, St::Upd { tab: 0, id: 2, via }, St::Commit];
        let au = |_h: usize| vec![St::Upd { tab: 0, id: 2, via }];
        let ad = |_h: usize| vec![St::Del { tab: 0, id: 2, via }];
        sets.push(vec![u(0), u(1)]);
        sets.push(vec![u(0), d(1)]);
        sets.push(vec![d(0), d(1)]);
        sets.push(vec![ru(0), ru(1)]);
        sets.push(vec![u(0), au(1)]);
        sets.push(vec![u(0), ad(1)]);
        sets.push(vec![d(0), au(1)]);
        sets.push(vec![ru(0), au(1)]);
    }
    // three handles: two writers and a reader
    for p in READ_PATHS {
        sets.push(vec![
            vec![St::Begin, St::Upd { tab: 0, id: 1, via: AP::Pk }, St::Commit],
            vec![St::Begin, St::Ins { tab: 0, id: new_id(1, 0) }, St::Rollback],
            vec![St::Begin, St::Read { tab: 0, path: p }, St::Read { tab: 0, path: p }, St::Commit],
        ]);
    }
    sets
}

fn random_prog(rng: &mut Rng, h: usize, two_tabs: bool) -> Vec<St> {
    let tab = if two_tabs && rng.chance(1, 3) { 1 } else { 0 };
    let x = *rng.pick(&INIT_IDS);
    let y = *rng.pick(&INIT_IDS);
    let via = *rng.pick(&WRITE_VIAS);
    let p = *rng.pick(&READ_PATHS);
    let p2 = *rng.pick(&READ_PATHS);
    let n = new_id(h, 0);
    let n2 = new_id(h, 1);
    let end = if rng.chance(2, 3) { St::Commit } else { St::Rollback };
    let w = |rng: &mut Rng, id: i64| -> St {
        match rng.below(3) {
            0 => St::Upd { tab, id, via },
            1 => St::Del { tab, id, via },
            _ => St::Ins { tab, id: n },
        }
    };
    match rng.below(12) {
        0 => vec![St::Begin, w(rng, x), end],
        1 => vec![St::Begin, w(rng, x), St::Upd { tab, id: y, via }, end],
        2 => vec![St::Begin, St::Read { tab, path: p }, w(rng, x), end],
        3 => vec![St::Begin, w(rng, x), St::Read { tab, path: p }, end],
        4 => vec![St::Begin, St::Read { tab, path: p }, St::Read { tab, path: p2 }, St::Commit],
        5 => vec![St::Read { tab, path: p }, St::Read { tab, path: p2 }],
        6 => vec![w(rng, x)],
        7 => vec![St::Ins { tab, id: n2 }, St::Del { tab, id: n2, via }],
        8 => vec![St::Upd { tab, id: x, via }, St::Read { tab, path: p }],
        9 => vec![St::Begin, St::Ins { tab, id: n }, St::Del { tab, id: x, via }, end],
        10 => vec![St::Read { tab, path: p }, St::Begin, w(rng, x), end],
        _ => vec![St::Begin, St::Del { tab, id: x, via }, St::Read { tab, path: p }, end],
    }
}

fn multinomial(lens: &[usize]) -> u64 {
    let mut r: u64 = 1;
    let mut n = 0u64;
    for &l in lens {
        for i in 1..=l as u64 {
            n += 1;
            r = r.saturating_mul(n) / i;
        }
    }
    r
}

fn all_merges(lens: &[usize]) -> Vec<Vec<usize>> {
    fn rec(rem: &mut Vec<usize>, cur: &mut Vec<usize>, out: &mut Vec<Vec<usize>>) {
        if rem.iter().all(|&r| r == 0) {
            out.push(cur.clone());
            return;
        }
        for h in 0..rem.len() {
            if rem[h] > 0 {
                rem[h] -= 1;
                cur.push(h);
                rec(rem, cur, out);
                cur.pop();
                rem[h] += 1;
            }
        }
    }
    let mut out = vec![];
    rec(&mut lens.to_vec(), &mut vec![], &mut out);
    out
}

fn random_merge(rng: &mut Rng, lens: &[usize]) -> Vec<usize> {
    let mut v = vec![];
    for (h, &l) in lens.iter().enumerate() {
        v.extend(std::iter::repeat(h).take(l));
    }
    // shuffling the multiset gives a uniformly random merge
    rng.shuffle(&mut v);
    v
}

/// canonical overlapping merges: every handle starts before any handle finishes
fn canonical_merges(lens: &[usize]) -> Vec<Vec<usize>> {
    let n = lens.len();
    let mut out = vec![];
    // round robin
    let mut rr = vec![];
    let mut rem = lens.to_vec();
    while rem.iter().any(|&r| r > 0) {
        for h in 0..n {
            if rem[h] > 0 {
                rem[h] -= 1;
                rr.push(h);
            }
        }
    }
    out.push(rr);
    // nested: handle 0 all but last, then the others entirely, then handle 0's last; and the mirror image
    for outer in 0..n.min(2) {
        let mut v = vec![];
        v.extend(std::iter::repeat(outer).take(lens[outer].saturating_sub(1)));
        for h in 0..n {
            if h != outer {
                v.extend(std::iter::repeat(h).take(lens[h]));
            }
        }
        v.push(outer);
        out.push(v);
        // writer does its write, reader reads once, writer ends, reader reads again
        if n == 2 {
            let other = 1 - outer;
            let mut v = vec![];
            v.extend(std::iter::repeat(outer).take(lens[outer].saturating_sub(1)));
            v.extend(std::iter::repeat(other).take(lens[other] / 2));
            v.push(outer);
            v.extend(std::iter::repeat(other).take(lens[other] - lens[other] / 2));
            out.push(v);
            // reader begins first, then the writer runs completely, then the reader reads
            let mut v = vec![other];
            v.extend(std::iter::repeat(outer).take(lens[outer]));
            v.extend(std::iter::repeat(other).take(lens[other].saturating_sub(1)));
            out.push(v);
        }
    }
    out.sort();
    out.dedup();
    out
}

/// lazily generated, index-addressable stream of deterministic cases
struct DetStream {
    rng: Rng,
    quick: bool,
    base: Vec<Vec<Vec<St>>>,
    set_no: usize,
    pending: std::collections::VecDeque<Case>,
    pub sets_emitted: u64,
    pub sets_exhaustive: u64,
}

impl DetStream {
    fn new(seed: u64, quick: bool) -> Self {
        let mut rng = Rng::derive(seed, 8);
        let mut base = base_sets();
        // key / table variation of the base library per seed
        let shift = rng.below(3) as i64;
        for set in base.iter_mut() {
            for p in set.iter_mut() {
                for st in p.iter_mut() {
                    match st {
                        St::Upd { id, .. } | St::Del { id, .. } if *id <= 3 => *id = (*id - 1 + shift) % 3 + 1,
                        _ => {}
                    }
                }
            }
        }
        rng.shuffle(&mut base);
        // two-handle sets first: the systematic writer x reader x path grid is covered before the big three-handle sets
        base.sort_by_key(|set| set.len());
        DetStream { rng, quick, base, set_no: 0, pending: Default::default(), sets_emitted: 0, sets_exhaustive: 0 }
    }
    fn refill(&mut self) {
        let progs: Vec<Vec<St>> = if self.set_no < self.base.len() {
            self.base[self.set_no].clone()
        } else {
            let n = if self.rng.chance(1, 3) { 3 } else { 2 };
            let two = self.rng.chance(1, 4);
            (0..n).map(|h| random_prog(&mut self.rng, h, two)).collect()
        };
        self.set_no += 1;
        self.sets_emitted += 1;
        let lens: Vec<usize> = progs.iter().map(|p| p.len()).collect();
        let total = multinomial(&lens);
        let cap = if self.quick { 0 } else { 4200 };
        let wal = self.rng.chance(1, 4);
        let scheds: Vec<Vec<usize>> = if total <= cap {
            self.sets_exhaustive += 1;
            all_merges(&lens)
        } else {
            let mut v = canonical_merges(&lens);
            let extra = if self.quick { 2 } else { 40 };
            for _ in 0..extra {
                v.push(random_merge(&mut self.rng, &lens));
            }
            v.sort();
            v.dedup();
            v
        };
        for s in scheds {
            self.pending.push_back(Case { progs: progs.clone(), sched: s, wal });
        }
    }
    fn next(&mut self) -> Case {
        while self.pending.is_empty() {
            self.refill();
        }
        self.pending.pop_front().unwrap()
    }
}

/// greedy shrinking of a case that shows `sig`: drop handles, drop non-control statements, drop whole transactions
fn shrink(case: &Case, sig: &str, dir: &std::path::Path, budget: usize) -> Case {
    let shows = |c: &Case| -> bool { run_det(c, dir).map(|r| r.viols.iter().any(|v| v.sig == sig)).unwrap_or(false) };
    let mut best = case.clone();
    let mut runs = 0;
    let mut progress = true;
    while progress && runs < budget {
        progress = false;
        let mut cands: Vec<Case> = vec![];
        // remove a handle
        if best.progs.len() > 2 {
            for h in 0..best.progs.len() {
                let mut c = best.clone();
                c.progs.remove(h);
                c.sched = c.sched.iter().filter(|&&x| x != h).map(|&x| if x > h { x - 1 } else { x }).collect();
                cands.push(c);
            }
        }
        // remove one statement (and its slot in the schedule); control statements only as BEGIN..END pairs
        for h in 0..best.progs.len() {
            for si in 0..best.progs[h].len() {
                let st = &best.progs[h][si];
                let mut remove: Vec<usize> = vec![];
                if !st.is_ctl() {
                    remove.push(si);
                } else if matches!(st, St::Begin) {
                    if let Some(e) = (si + 1..best.progs[h].len()).find(|&j| matches!(best.progs[h][j], St::Commit | St::Rollback)) {
                        // unwrap the transaction: statements become autocommit
                        remove.push(si);
                        remove.push(e);
                    }
                }
                if remove.is_empty() {
                    continue;
                }
                let mut c = best.clone();
                for &ri in remove.iter().rev() {
                    c.progs[h].remove(ri);
                    // drop the ri-th occurrence of h in the schedule
                    let mut seen = 0;
                    if let Some(pos) = c.sched.iter().position(|&x| {
                        if x == h {
                            seen += 1;
                            seen - 1 == ri
                        } else {
                            false
                        }
                    }) {
                        c.sched.remove(pos);
                    }
                }
                if c.progs.iter().filter(|p| !p.is_empty()).count() >= 1 {
                    cands.push(c);
                }
            }
        }
        if best.wal {
            let mut c = best.clone();
            c.wal = false;
            cands.push(c);
        }
        for c in cands {
            if runs >= budget {
                break;
            }
            runs += 1;
            if shows(&c) {
                best = c;
                progress = true;
                break;
            }
        }
    }
    best
}

// ------------------------------------------------------------------------------------------------ threaded driver

fn yield_action(rng: &mut Rng) {
    match rng.below(8) {
        0 | 1 => {}
        2 | 3 => std::thread::yield_now(),
        4 => {
            for _ in 0..rng.below(2000) {
                std::hint::spin_loop();
            }
        }
        5 | 6 => std::thread::sleep(Duration::from_micros(1 + rng.below(200))),
        _ => std::thread::sleep(Duration::from_micros(200 + rng.below(1500))),
    }
}

struct ThrResult {
    viols: Vec<Viol>,
    fingerprint: u64,
    hook_fingerprint: u64,
    txn_overlap: bool,
    commit_window_overlap: bool,
    exercised: bool,
    stmts: usize,
    hook_events: u64,
}

fn run_threaded(seed: u64, dir: &std::path::Path) -> Result<(ThrResult, J), String> {
    let mut rng = Rng::derive(seed, 8);
    let n = rng.usize(2, 4);
    let wal = rng.chance(2, 3);
    let two = rng.chance(1, 4);
    let progs: Vec<Vec<St>> = (0..n)
        .map(|h| {
            let mut p = vec![];
            let k = rng.usize(2, 4);
            for j in 0..k {
                // distinct insert ids per sub-program
                let mut sub = random_prog(&mut rng, h, two);
                for st in sub.iter_mut() {
                    if let St::Ins { id, .. } | St::Del { id, .. } = st {
                        if *id >= 10 {
                            *id += 100 * (j as i64 + 1);
                        }
                    }
                }
                p.extend(sub);
            }
            p
        })
        .collect();
    let case = Case { progs, sched: vec![], wal };
    let _ = std::fs::remove_dir_all(dir);
    let tabs = case.tabs();
    let root = open_db(dir, &tabs, wal, false)?;
    let clock = Arc::new(AtomicU64::new(1));
    // yield hook: perturbs and records the order of hook events; tracks the commit window
    let in_window: Arc<Vec<AtomicBool>> = Arc::new((0..8).map(|_| AtomicBool::new(false)).collect());
    let overlap = Arc::new(AtomicBool::new(false));
    let hook_log: Arc<Mutex<Vec<(usize, &'static str)>>> = Arc::new(Mutex::new(vec![]));
    thread_local! { static TID: std::cell::Cell<usize> = std::cell::Cell::new(99); static HRNG: std::cell::RefCell<Option<Rng>> = std::cell::RefCell::new(None); }
    {
        let in_window = in_window.clone();
        let overlap = overlap.clone();
        let hook_log = hook_log.clone();
        turdb::verif::set_yield_hook(Some(Arc::new(move |name: &'static str| {
            let tid = TID.with(|t| t.get());
            if tid == 99 {
                return;
            }
            hook_log.lock().unwrap().push((tid, name));
            if name == "commit.after_capture" {
                in_window[tid].store(true, Ordering::SeqCst);
                if in_window.iter().enumerate().any(|(i, w)| i != tid && w.load(Ordering::SeqCst)) {
                    overlap.store(true, Ordering::SeqCst);
                }
            }
            HRNG.with(|r| {
                if let Some(r) = r.borrow_mut().as_mut() {
                    yield_action(r);
                }
            });
        })));
    }
    let barrier = Arc::new(std::sync::Barrier::new(n));
    let case = Arc::new(case);
    let mut joins = vec![];
    for h in 0..n {
        let db = root.clone();
        let clock = clock.clone();
        let case = case.clone();
        let barrier = barrier.clone();
        let in_window = in_window.clone();
        let tseed = seed.wrapping_mul(31).wrapping_add(h as u64);
        joins.push(std::thread::spawn(move || {
            TID.with(|t| t.set(h));
            HRNG.with(|r| *r.borrow_mut() = Some(Rng::derive(tseed, 808)));
            let mut lrng = Rng::derive(tseed, 809);
            let mut run = Runner::new(h, &db, &clock);
            let uni = |t: u8| case.universe(t);
            barrier.wait();
            for (si, st) in case.progs[h].iter().enumerate() {
                let val = case.val_of(h, si);
                run.step(st, &val, &uni);
                if matches!(st, St::Commit) {
                    in_window[h].store(false, Ordering::SeqCst);
                }
                if lrng.chance(1, 2) {
                    yield_action(&mut lrng);
                }
            }
            run.abort_open();
            in_window[h].store(false, Ordering::SeqCst);
            run.hist
        }));
    }
    let mut parts = vec![];
    for j in joins {
        match j.join() {
            Ok(h) => parts.push(h),
            Err(_) => {
                turdb::verif::set_yield_hook(None);
                return Err("worker thread panicked outside a statement".into());
            }
        }
    }
    turdb::verif::set_yield_hook(None);
    let mut obs = Runner::new(n, &root, &clock);
    for &t in &tabs {
        for p in [AP::Scan, AP::Pk, AP::Sec] {
            obs.read(t, p, &case.universe(t));
        }
    }
    parts.push(obs.hist);
    let hist = merge_hists(parts);
    let viols = Oracle::new(&hist, false).check();
    // fingerprint: global order of statements (by invocation) as (handle, kind)
    let mut order: Vec<(u64, usize, u8)> = vec![];
    for t in &hist.txns {
        if t.h >= n {
            continue;
        }
        if t.explicit {
            order.push((t.begin_inv, t.h, 0));
            if t.end_inv != u64::MAX {
                order.push((t.end_inv, t.h, 1));
            }
        }
        for w in &t.writes {
            order.push((w.inv, t.h, 2));
        }
    }
    for r in &hist.reads {
        let h = hist.txns[r.txn].h;
        if h < n {
            order.push((r.inv, h, 3));
        }
    }
    order.sort();
    let fp = fnv(format!("{:?}|{:?}", case.progs, order.iter().map(|o| (o.1, o.2)).collect::<Vec<_>>()).as_bytes());
    let hl = hook_log.lock().unwrap().clone();
    let hfp = fnv(format!("{:?}", hl).as_bytes());
    let mut txn_overlap = false;
    for (i, t1) in hist.txns.iter().enumerate() {
        for t2 in hist.txns.iter().skip(i + 1) {
            if t1.h != t2.h && t1.explicit && t2.explicit && t1.begin_ret < t2.end_inv && t2.begin_ret < t1.end_inv {
                txn_overlap = true;
            }
        }
    }
    let stmts = case.progs.iter().map(|p| p.len()).sum();
    let descr = json!({"threads": n, "wal": wal, "programs": case.progs.iter().enumerate().map(|(h, p)| p.iter().enumerate().map(|(si, st)| st.sql(&case.val_of(h, si))).collect::<Vec<_>>()).collect::<Vec<_>>()});
    let res = ThrResult { viols, fingerprint: fp, hook_fingerprint: hfp, txn_overlap, commit_window_overlap: overlap.load(Ordering::SeqCst), exercised: exercised(&hist), stmts, hook_events: hl.len() as u64 };
    std::mem::forget(root);
    DB_OPENS.fetch_add(1, Ordering::Relaxed);
    let _ = std::fs::remove_dir_all(dir);
    Ok((res, descr))
}

// ------------------------------------------------------------------------------------------------ worker process

fn emit(v: J) {
    let out = std::io::stdout();
    let mut l = out.lock();
    let _ = writeln!(l, "{}", v);
    let _ = l.flush();
}

/// `tv C08 --tier T --seed S worker <det|thr> <start index> <budget seconds> [only]`
fn worker_main(a: &Args) -> i32 {
    let phase = a.rest.get(1).map(|s| s.as_str()).unwrap_or("det").to_string();
    let start: u64 = a.rest.get(2).and_then(|s| s.parse().ok()).unwrap_or(0);
    let budget: f64 = a.rest.get(3).and_then(|s| s.parse().ok()).unwrap_or(10.0);
    let only = a.rest.get(4).map(|s| s == "only").unwrap_or(false);
    let quick = a.tier == "quick";
    let t0 = Instant::now();
    let scratch = Scratch::new(&format!("c08w{}", phase));
    let mut seen_sigs: BTreeSet<String> = BTreeSet::new();
    let mut recycle = false;
    if phase == "det" {
        let mut stream = DetStream::new(a.seed, quick);
        let mut idx = 0u64;
        loop {
            let case = stream.next();
            if idx < start {
                idx += 1;
                continue;
            }
            if t0.elapsed().as_secs_f64() > budget && !only {
                break;
            }
            emit(json!({"start": idx}));
            let dir = scratch.dir("db");
            match run_det(&case, &dir) {
                Err(e) => emit(json!({"case": idx, "setup_error": e})),
                Ok(res) => {
                    let mut sigs = vec![];
                    for v in &res.viols {
                        let first = seen_sigs.insert(v.sig.clone());
                        if first {
                            // minimal schedule for the first occurrence of each signature
                            let small = if v.assertion == "no_panic" || (case.sched.len() <= 5 && case.progs.len() == 2) { case.clone() } else { shrink(&case, &v.sig, &scratch.dir("shrink"), if quick { 25 } else { 60 }) };
                            let small_detail = run_det(&small, &scratch.dir("shrink")).ok().and_then(|r| r.viols.into_iter().find(|x| x.sig == v.sig)).map(|x| x.detail);
                            sigs.push(json!({"assertion": v.assertion, "sig": v.sig, "detail": {"original": case.render(), "original_detail": v.detail, "minimal": small.render(), "minimal_detail": small_detail, "minimal_statements": small.sched.len()}}));
                        } else {
                            sigs.push(json!({"assertion": v.assertion, "sig": v.sig}));
                        }
                    }
                    emit(json!({"case": idx, "hash": case.hash(), "exercised": res.exercised, "sigs": sigs, "errors": res.errors, "reads": res.reads, "stmts": res.stmts, "handles": case.progs.len(), "wal": case.wal,
                        "sample": if idx % 97 == 3 { case.render() } else { J::Null }}));
                }
            }
            idx += 1;
            if only {
                break;
            }
            if DB_OPENS.load(Ordering::Relaxed) > 700 {
                recycle = true;
                break;
            }
        }
        emit(json!({"done": true, "next": idx, "recycle": recycle, "sets": stream.sets_emitted, "sets_exhaustive": stream.sets_exhaustive}));
    } else {
        let mut idx = start;
        loop {
            if t0.elapsed().as_secs_f64() > budget && !only {
                break;
            }
            emit(json!({"start": idx}));
            let rseed = a.seed.wrapping_mul(1_000_003).wrapping_add(idx);
            match run_threaded(rseed, &scratch.dir("db")) {
                Err(e) => emit(json!({"case": idx, "setup_error": e})),
                Ok((res, descr)) => {
                    let mut sigs = vec![];
                    for v in &res.viols {
                        let first = seen_sigs.insert(v.sig.clone());
                        if first {
                            sigs.push(json!({"assertion": v.assertion, "sig": v.sig, "detail": {"threaded_round": descr, "round_seed": rseed, "detail": v.detail}}));
                        } else {
                            sigs.push(json!({"assertion": v.assertion, "sig": v.sig}));
                        }
                    }
                    emit(json!({"case": idx, "hash": res.fingerprint, "hook_fp": res.hook_fingerprint, "exercised": res.exercised, "sigs": sigs, "txn_overlap": res.txn_overlap, "commit_window_overlap": res.commit_window_overlap,
                        "stmts": res.stmts, "hook_events": res.hook_events, "sample": if idx % 41 == 1 { descr } else { J::Null }}));
                }
            }
            idx += 1;
            if only {
                break;
            }
            if DB_OPENS.load(Ordering::Relaxed) > 700 {
                recycle = true;
                break;
            }
        }
        emit(json!({"done": true, "next": idx, "recycle": recycle}));
    }
    0
}

// ------------------------------------------------------------------------------------------------ supervisor (shared with C38)

pub enum Outcome {
    Finished,
    /// no output for the stall limit; the case announced last
    Stalled(Option<u64>),
    /// the worker died (signal / abort / non-zero exit)
    Died(String, Option<u64>),
}

/// Run `tv <prop> --tier .. --seed .. worker <args>` and feed every JSON line it prints to `on_line`.
pub fn supervise(prop: &str, tier: &str, seed: u64, args: &[String], stall: Duration, on_line: &mut dyn FnMut(&J)) -> Outcome {
    let exe = std::env::current_exe().unwrap();
    let mut cmd = std::process::Command::new(exe);
    cmd.arg(prop).arg("--tier").arg(tier).arg("--seed").arg(seed.to_string()).arg("worker");
    for x in args {
        cmd.arg(x);
    }
    cmd.env("RUST_BACKTRACE", "0");
    let mut child = match cmd.stdout(std::process::Stdio::piped()).stderr(std::process::Stdio::null()).spawn() {
        Ok(c) => c,
        Err(e) => return Outcome::Died(format!("spawn failed: {}", e), None),
    };
    let stdout = child.stdout.take().unwrap();
    let (tx, rx) = mpsc::channel::<String>();
    let reader = std::thread::spawn(move || {
        let br = std::io::BufReader::new(stdout);
        for line in br.lines() {
            match line {
                Ok(l) => {
                    if tx.send(l).is_err() {
                        break;
                    }
                }
                Err(_) => break,
            }
        }
    });
    let mut last_start: Option<u64> = None;
    let mut done = false;
    let outcome = loop {
        match rx.recv_timeout(stall) {
            Ok(l) => {
                if let Ok(v) = serde_json::from_str::<J>(&l) {
                    if let Some(s) = v.get("start").and_then(|s| s.as_u64()) {
                        last_start = Some(s);
                    }
                    if v.get("done").is_some() {
                        done = true;
                    }
                    on_line(&v);
                }
            }
            Err(mpsc::RecvTimeoutError::Timeout) => {
                let _ = child.kill();
                let _ = child.wait();
                break Outcome::Stalled(last_start);
            }
            Err(mpsc::RecvTimeoutError::Disconnected) => {
                let st = child.wait();
                break match st {
                    Ok(s) if s.success() && done => Outcome::Finished,
                    Ok(s) => Outcome::Died(format!("{:?}", s), last_start),
                    Err(e) => Outcome::Died(e.to_string(), last_start),
                };
            }
        }
    };
    let _ = reader.join();
    // scratch directory of a killed worker
    outcome
}

pub fn cleanup_worker_scratch(prefix: &str) {
    if let Ok(rd) = std::fs::read_dir(format!("{}/scratch", crate::report::VERIF_DIR)) {
        for e in rd.flatten() {
            let name = e.file_name().to_string_lossy().to_string();
            if name.starts_with(prefix) {
                // only directories of processes that no longer exist
                if let Some(pid) = name.rsplit('-').next().and_then(|p| p.parse::<u32>().ok()) {
                    if !std::path::Path::new(&format!("/proc/{}", pid)).exists() {
                        let _ = std::fs::remove_dir_all(e.path());
                    }
                }
            }
        }
    }
}

pub fn run(a: &Args) -> i32 {
    if cfg!(miri) {
        // Database needs mmap'ed files and the drivers need worker subprocesses: neither exists under Miri
        println!("INCONCLUSIVE property=C08 reason=not runnable under Miri (mmap, subprocesses)");
        return 2;
    }
    if a.rest.first().map(|s| s == "worker").unwrap_or(false) {
        return worker_main(a);
    }
    let mut ctx = Ctx::new(
        "C08",
        &a.tier,
        a.seed,
        "exploration",
        "(i) deterministic statement-level interleavings: 2-3 cloned handles on one thread, per-handle programs (autocommit statements or BEGIN..COMMIT/ROLLBACK with INSERT/UPDATE/DELETE located by PK, secondary index or scan predicate, and reads through full scan / PK lookup / secondary-index lookup / COUNT(*)) on 1-2 three-row tables; thorough enumerates ALL merges of every program set with <= 4200 merges (systematic writer x reader x path library plus random sets), quick runs canonical overlapping merges plus random ones; each schedule on a fresh database, 1/4 with PRAGMA wal=ON. (ii) threaded rounds: 2-4 threads on cloned handles running random programs, yield hook perturbing the commit path. Every written value is unique (h<handle>t<txn>s<stmt>). Oracle = history checker: no_dirty_read, no_aborted_read, snapshot (committed state at BEGIN plus own writes, per key), no_lost_update, per access path; first occurrence of each signature is shrunk to a minimal schedule. distinct_nontrivial = distinct (programs, schedule) / threaded statement-order fingerprints in which a read ran while another handle's writing transaction was open or two writing transactions overlapped",
    );
    let quick = ctx.quick();
    let (det_budget, thr_budget, stall) = if quick { (26.0, 12.0, 25u64) } else { (330.0, 170.0, 40u64) };
    let mut minimal: BTreeMap<String, J> = BTreeMap::new();
    let mut fps: BTreeSet<u64> = BTreeSet::new();
    let mut hook_fps: BTreeSet<u64> = BTreeSet::new();
    let mut sig_counts: BTreeMap<String, u64> = BTreeMap::new();
    let mut sets_max: (u64, u64) = (0, 0);
    for phase in ["det", "thr"] {
        let total_budget = if phase == "det" { det_budget } else { thr_budget };
        let phase_start = Instant::now();
        let mut start_idx = 0u64;
        let mut restarts = 0;
        loop {
            let remaining = total_budget - phase_start.elapsed().as_secs_f64();
            if remaining < 1.0 || restarts > 3 {
                break;
            }
            let args = vec![phase.to_string(), start_idx.to_string(), format!("{:.1}", remaining)];
            let mut next_idx = start_idx;
            let mut recycle = false;
            let outcome = {
                let recycle = &mut recycle;
                let sets_max = &mut sets_max;
                let ctx = &mut ctx;
                let minimal = &mut minimal;
                let fps = &mut fps;
                let hook_fps = &mut hook_fps;
                let sig_counts = &mut sig_counts;
                let next_idx = &mut next_idx;
                supervise("C08", &a.tier, a.seed, &args, Duration::from_secs(stall), &mut |v: &J| {
                    if let Some(n) = v.get("next").and_then(|n| n.as_u64()) {
                        *next_idx = n;
                        *recycle = v["recycle"].as_bool().unwrap_or(false);
                        if let Some(s) = v.get("sets").and_then(|s| s.as_u64()) {
                            // cumulative over the case stream (a restarted worker regenerates the stream)
                            sets_max.0 = sets_max.0.max(s);
                            sets_max.1 = sets_max.1.max(v["sets_exhaustive"].as_u64().unwrap_or(0));
                        }
                        return;
                    }
                    if v.get("case").is_none() {
                        return;
                    }
                    if let Some(e) = v.get("setup_error").and_then(|e| e.as_str()) {
                        ctx.count("setup_errors", 1);
                        ctx.violation("setup", &format!("C08/setup_failed/{}", phase), json!({"error": e}));
                        return;
                    }
                    ctx.eval();
                    ctx.count(&format!("{}_cases", phase), 1);
                    ctx.count(&format!("{}_statements", phase), v["stmts"].as_u64().unwrap_or(0));
                    if v["exercised"].as_bool().unwrap_or(false) {
                        ctx.nontrivial(v["hash"].as_u64().unwrap_or(0) ^ if phase == "thr" { 0x5555 } else { 0 });
                        ctx.count(&format!("{}_cases_with_overlap", phase), 1);
                    }
                    if phase == "det" {
                        ctx.count("det_read_probes", v["reads"].as_u64().unwrap_or(0));
                        ctx.count("det_statement_errors", v["errors"].as_u64().unwrap_or(0));
                        ctx.count(&format!("det_cases_{}_handles", v["handles"].as_u64().unwrap_or(0)), 1);
                        if v["wal"].as_bool().unwrap_or(false) {
                            ctx.count("det_cases_wal_on", 1);
                        }
                        fps.insert(v["hash"].as_u64().unwrap_or(0));
                    } else {
                        fps.insert(v["hash"].as_u64().unwrap_or(0) ^ 0x5555);
                        hook_fps.insert(v["hook_fp"].as_u64().unwrap_or(0));
                        ctx.count("thr_yield_hook_events", v["hook_events"].as_u64().unwrap_or(0));
                        if v["txn_overlap"].as_bool().unwrap_or(false) {
                            ctx.count("thr_rounds_with_overlapping_transactions", 1);
                        }
                        if v["commit_window_overlap"].as_bool().unwrap_or(false) {
                            ctx.count("thr_rounds_with_two_threads_in_commit_window", 1);
                        }
                    }
                    if !v["sample"].is_null() {
                        ctx.sample(v["sample"].clone());
                    }
                    if let Some(sigs) = v["sigs"].as_array() {
                        for s in sigs {
                            let sig = s["sig"].as_str().unwrap_or("").to_string();
                            *sig_counts.entry(sig.clone()).or_insert(0) += 1;
                            let detail = s.get("detail").cloned().unwrap_or(J::Null);
                            if !detail.is_null() {
                                let n = detail["minimal_statements"].as_u64().unwrap_or(u64::MAX);
                                let better = minimal.get(&sig).map(|m| m["minimal_statements"].as_u64().unwrap_or(u64::MAX) > n).unwrap_or(true);
                                if better {
                                    minimal.insert(sig.clone(), json!({"minimal_statements": n, "minimal": detail.get("minimal").cloned().unwrap_or(detail.clone()), "detail": detail.get("minimal_detail").cloned().unwrap_or(J::Null)}));
                                }
                            }
                            ctx.violation(s["assertion"].as_str().unwrap_or("?"), &sig, detail);
                        }
                    }
                })
            };
            match outcome {
                Outcome::Finished if recycle => {
                    // the worker retired itself (leaked mappings); the next one continues where it stopped
                    start_idx = next_idx;
                    continue;
                }
                Outcome::Finished => break,
                Outcome::Stalled(idx) | Outcome::Died(_, idx) => {
                    let died = if let Outcome::Died(s, _) = &outcome { Some(s.clone()) } else { None };
                    restarts += 1;
                    let Some(idx) = idx else {
                        ctx.inconclusive(&format!("{} worker failed before announcing a case: {:?}", phase, died));
                        break;
                    };
                    // solitary re-run with a generous limit
                    let args = vec![phase.to_string(), idx.to_string(), "0".to_string(), "only".to_string()];
                    let again = supervise("C08", &a.tier, a.seed, &args, Duration::from_secs(90), &mut |_v: &J| {});
                    match (&again, &died) {
                        (Outcome::Stalled(_), _) => {
                            ctx.violation("progress", &format!("C08/progress/{}_case_blocks", phase), json!({"phase": phase, "case_index": idx, "seed": a.seed, "why": "the case produced no result within the limit, twice, the second time alone"}));
                        }
                        (Outcome::Died(s2, _), _) => {
                            ctx.violation("no_crash", &format!("C08/process_death/{}", phase), json!({"phase": phase, "case_index": idx, "status": s2, "first_status": died}));
                        }
                        (Outcome::Finished, Some(s)) => {
                            ctx.count("worker_deaths_not_reproduced", 1);
                            ctx.extra.insert("last_unreproduced_death".into(), json!({"phase": phase, "case_index": idx, "status": s}));
                        }
                        (Outcome::Finished, None) => ctx.count("stalls_not_reproduced", 1),
                    }
                    start_idx = idx + 1;
                }
            }
            if matches!(outcome, Outcome::Finished) {
                break;
            }
            let _ = next_idx;
        }
    }
    cleanup_worker_scratch("c08w");
    ctx.count("det_program_sets", sets_max.0);
    ctx.count("det_program_sets_all_merges_enumerated", sets_max.1);
    ctx.count("distinct_interleavings_observed", fps.len() as u64);
    ctx.count("thr_distinct_yield_hook_orders", hook_fps.len() as u64);
    ctx.extra.insert("signature_counts".into(), json!(sig_counts));
    ctx.extra.insert("minimal_schedules".into(), json!(minimal));
    ctx.assumptions.push("snapshot = committed state when BEGIN returned (README: snapshot isolation); an autocommit statement is a transaction of its own; a client that gets an error inside a transaction rolls back and stops; PK conflicts between concurrent inserts are not generated; threaded rounds judge only what is certain from invocation/return order (a value is 'dirty' only if its writer's COMMIT was issued after the read returned)".into());
    ctx.finish()
}

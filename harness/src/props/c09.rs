//! C09: declared constraints hold exactly (engine in dmlengine.rs, focus = constraint-heavy schemas).
use super::dmlengine::{run_prop, Focus};
use crate::Args;

pub fn run(a: &Args) -> i32 {
    run_prop(a, "C09", Focus::Constraints, "generated histories over 2-3 tables with PRIMARY KEY, UNIQUE, NOT NULL, CHECK (comparison / BETWEEN / OR forms) and FOREIGN KEY (RESTRICT or CASCADE) declarations; the model decides every write: a valid write must be accepted (valid_statement_accepted) and an invalid one rejected (invalid_statement_rejected), including updates of key columns, delete-then-reinsert of a key, parent deletes, NULL children and rollbacks in between. distinct_nontrivial = distinct histories with more than 8 executed statements")
}

//! C09: declared constraints hold exactly (engine in dmlengine.rs, focus = constraint-heavy schemas).
use super::dmlengine::{run_prop, Focus};
use crate::Args;

pub fn run(a: &Args) -> i32 {
    run_prop(a, "C09", Focus::Constraints, "generated histories over 2-3 tables with PRIMARY KEY, UNIQUE, UNIQUE INDEX, NOT NULL, column CHECKs (col >= k, k <= col, AND/OR of comparisons, BETWEEN, <>, IN; negative literals) and FOREIGN KEYs to t0(id) (ON DELETE RESTRICT/CASCADE, optional ON UPDATE RESTRICT, nullable and NOT NULL children). Rows are generated valid by construction except where one chosen constraint is violated on purpose; the relational model decides every write on the state after the whole statement: a valid write must be accepted (valid_statement_accepted), an invalid one rejected (invalid_statement_rejected) - inserts, updates of key / unique / FK / checked columns (incl. SET id = id + 1), delete-then-reinsert of a key, parent deletes and parent key updates, NULL children, rollbacks in between. After every statement all declared constraints are re-evaluated on the state dumped from TurDB (state_satisfies_constraints). distinct_nontrivial = distinct histories with more than 8 executed statements")
}

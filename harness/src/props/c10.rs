//! C10: Indexes never change query results.
//!
//! Twin databases are fed the same generated history: twin A declares PRIMARY KEY / UNIQUE /
//! secondary (single-column and composite) indexes, twin B declares the same table without any of
//! them (the harness tracks keys, so the history never violates the constraints B does not have).
//! After every few statements a probe set runs on both twins; results must be equal as bags (and
//! equal to the reference model where the model covers the query). On twin A, CREATE INDEX /
//! DROP INDEX mid-history must not change any probe result (before/after comparison).
use crate::report::{catch, Ctx};
use crate::rng::{fnv, Rng};
use crate::sqlm::db::Scratch;
use crate::sqlm::expr::{bin, col, lit, AggFn, BinOp, E};
use crate::sqlm::query::{run_model, FromItem, Item, MTable, OrderKey, Query, Select};
use crate::sqlm::val::{row_key, rows_json, Row, V};
use crate::Args;
use serde_json::{json, Value as J};
use std::collections::{BTreeMap, HashMap, HashSet};
use std::path::Path;
use std::time::Instant;
use turdb::{Database, ExecuteResult, OwnedValue};

// ---------------------------------------------------------------------------------------------
// key types and value domains
// ---------------------------------------------------------------------------------------------

#[derive(Clone, Copy, Debug, PartialEq, Eq, Hash)]
enum KT {
    Int,
    BigInt,
    Text,
    Double,
    Bool,
    Date,
    Ts,
}

impl KT {
    fn sql(self) -> &'static str {
        match self {
            KT::Int => "INT",
            KT::BigInt => "BIGINT",
            KT::Text => "TEXT",
            KT::Double => "DOUBLE",
            KT::Bool => "BOOLEAN",
            KT::Date => "DATE",
            KT::Ts => "TIMESTAMP",
        }
    }
    fn tag(self) -> &'static str {
        match self {
            KT::Int => "int",
            KT::BigInt => "bigint",
            KT::Text => "text",
            KT::Double => "double",
            KT::Bool => "boolean",
            KT::Date => "date",
            KT::Ts => "timestamp",
        }
    }
    /// the model understands comparisons of this type against the literals we render
    /// (DATE/TIMESTAMP columns compared with string literals are outside the documented dialect:
    /// such probes are judged twin-against-twin only)
    fn model_compares(self) -> bool {
        !matches!(self, KT::Date | KT::Ts)
    }
    fn is_int(self) -> bool {
        matches!(self, KT::Int | KT::BigInt)
    }
}

fn civil(days: i64) -> (i64, i64, i64) {
    let z = days + 719468;
    let era = if z >= 0 { z } else { z - 146096 } / 146097;
    let doe = z - era * 146097;
    let yoe = (doe - doe / 1460 + doe / 36524 - doe / 146096) / 365;
    let y = yoe + era * 400;
    let doy = doe - (365 * yoe + yoe / 4 - yoe / 100);
    let mp = (5 * doy + 2) / 153;
    let d = doy - (153 * mp + 2) / 5 + 1;
    let m = if mp < 10 { mp + 3 } else { mp - 9 };
    (if m <= 2 { y + 1 } else { y }, m, d)
}
fn iso_date(days: i64) -> String {
    let (y, m, d) = civil(days);
    format!("{:04}-{:02}-{:02}", y, m, d)
}
fn iso_ts(micros: i64) -> String {
    let secs = micros.div_euclid(1_000_000);
    let days = secs.div_euclid(86400);
    let r = secs.rem_euclid(86400);
    format!("{} {:02}:{:02}:{:02}", iso_date(days), r / 3600, (r / 60) % 60, r % 60)
}

/// n-th value of the type's domain (injective in n for every type but BOOLEAN)
fn val(kt: KT, n: i64) -> V {
    match kt {
        KT::Int => V::Int(n - 300),
        KT::BigInt => {
            if n % 2 == 0 {
                V::Int(n / 2 - 100)
            } else {
                V::Int((1i64 << 40) + n)
            }
        }
        // many keys share the 4-byte prefix "keyA" (the leaf prefix-hint width)
        KT::Text => V::Text(format!("{}{:04}", ["keyA", "keyB", "keyAA", "key"][(n.rem_euclid(4)) as usize], n.div_euclid(4))),
        KT::Double => V::Float((n - 200) as f64 / 4.0),
        KT::Bool => V::Bool(n.rem_euclid(2) == 1),
        KT::Date => V::Text(iso_date(19000 + n - 100)),
        KT::Ts => V::Text(iso_ts((1_700_000_000 + (n - 100) * 12_345) * 1_000_000)),
    }
}

fn conv_value(o: &OwnedValue) -> V {
    match o {
        OwnedValue::Date(d) => V::Text(iso_date(*d as i64)),
        OwnedValue::Timestamp(us) => V::Text(iso_ts(*us)),
        other => V::from_owned(other),
    }
}
fn conv_rows(rows: &[turdb::Row]) -> Vec<Row> {
    rows.iter().map(|r| r.values.iter().map(conv_value).collect()).collect()
}

// ---------------------------------------------------------------------------------------------
// case (schema), operations
// ---------------------------------------------------------------------------------------------

const COLS: [&str; 7] = ["id", "u", "s", "a", "b", "d", "pay"];
const C_ID: usize = 0;
const C_U: usize = 1;
const C_S: usize = 2;
const C_A: usize = 3;
const C_B: usize = 4;
const C_D: usize = 5;

#[derive(Clone, Debug)]
struct Case {
    pk: KT,
    ut: KT,
    st: KT,
    dt: KT,
    // which indexes twin A declares (the shrinker switches unneeded ones off)
    with_pk: bool,
    with_unique: bool,
    with_ix_s: bool,
    with_ix_ab: bool,
}

impl Case {
    fn ty(&self, ci: usize) -> KT {
        match ci {
            C_ID => self.pk,
            C_U => self.ut,
            C_S => self.st,
            C_D => self.dt,
            C_A | C_B => KT::Int,
            _ => KT::Text,
        }
    }
    fn ddl(&self, indexed: bool) -> Vec<String> {
        let mut v = vec![format!(
            "CREATE TABLE t (id {}{}, u {}{}, s {}, a INT, b INT, d {}, pay TEXT)",
            self.pk.sql(),
            if indexed && self.with_pk { " PRIMARY KEY" } else { "" },
            self.ut.sql(),
            if indexed && self.with_unique { " UNIQUE" } else { "" },
            self.st.sql(),
            self.dt.sql()
        )];
        if indexed && self.with_ix_s {
            v.push("CREATE INDEX ix_s ON t (s)".into());
        }
        if indexed && self.with_ix_ab {
            v.push("CREATE INDEX ix_ab ON t (a, b)".into());
        }
        v
    }
    fn tag(&self) -> String {
        format!("pk={} u={} s={} d={}", self.pk.tag(), self.ut.tag(), self.st.tag(), self.dt.tag())
    }
}

#[derive(Clone, Debug)]
enum Op {
    Insert(Vec<Row>),
    /// WHERE, tag of the column the WHERE addresses
    Delete(E, usize),
    Update(Vec<(usize, V)>, E, usize),
    Begin,
    Commit,
    Rollback,
    Truncate,
    /// twin A only
    CreateIdx,
    DropIdx,
}

impl Op {
    fn sql(&self) -> String {
        match self {
            Op::Insert(rows) => format!("INSERT INTO t VALUES {}", rows.iter().map(|r| format!("({})", r.iter().map(|v| v.sql()).collect::<Vec<_>>().join(", "))).collect::<Vec<_>>().join(", ")),
            Op::Delete(e, _) => format!("DELETE FROM t WHERE {}", e.sql()),
            Op::Update(sets, e, _) => format!("UPDATE t SET {} WHERE {}", sets.iter().map(|(c, v)| format!("{} = {}", COLS[*c], v.sql())).collect::<Vec<_>>().join(", "), e.sql()),
            Op::Begin => "BEGIN".into(),
            Op::Commit => "COMMIT".into(),
            Op::Rollback => "ROLLBACK".into(),
            Op::Truncate => "TRUNCATE TABLE t".into(),
            Op::CreateIdx => "CREATE INDEX ix_d ON t (d)".into(),
            Op::DropIdx => "DROP INDEX ix_d".into(),
        }
    }
    fn kind(&self) -> &'static str {
        match self {
            Op::Insert(_) => "insert",
            Op::Delete(..) => "delete",
            Op::Update(..) => "update",
            Op::Begin => "begin",
            Op::Commit => "commit",
            Op::Rollback => "rollback",
            Op::Truncate => "truncate",
            Op::CreateIdx => "create_index",
            Op::DropIdx => "drop_index",
        }
    }
}

// ---------------------------------------------------------------------------------------------
// model: rows + per-key provenance (to name the cause of a discrepancy)
// ---------------------------------------------------------------------------------------------

#[derive(Clone, Debug, Default)]
struct Prov {
    /// last event on this primary key: insert | reinsert | update | delete | truncate
    last: &'static str,
    /// the key was touched inside a transaction that was rolled back afterwards
    rb: bool,
}

#[derive(Clone)]
struct Snap {
    rows: Vec<Row>,
    prov: HashMap<String, Prov>,
    fate: HashMap<String, &'static str>,
}

struct Model {
    tables: BTreeMap<String, MTable>,
    prov: HashMap<String, Prov>,
    /// how a row version (identified by its unique `pay`) died: delete | truncate | rollback
    fate: HashMap<String, &'static str>,
    /// values that were present once (per column), candidates for "deleted value" probes
    grave: Vec<Vec<V>>,
    txn: Option<Snap>,
    touched: HashSet<String>,
    has_ix_d: bool,
}

fn k1(v: &V) -> String {
    v.key(true)
}

impl Model {
    fn new() -> Model {
        let mut tables = BTreeMap::new();
        tables.insert("t".to_string(), MTable { name: "t".into(), cols: COLS.iter().map(|s| s.to_string()).collect(), rows: vec![] });
        Model { tables, prov: HashMap::new(), fate: HashMap::new(), grave: vec![vec![]; 7], txn: None, touched: HashSet::new(), has_ix_d: false }
    }
    fn rows(&self) -> &Vec<Row> {
        &self.tables["t"].rows
    }
    fn rows_mut(&mut self) -> &mut Vec<Row> {
        &mut self.tables.get_mut("t").unwrap().rows
    }
    fn bury(&mut self, r: &Row) {
        for ci in [C_ID, C_U, C_S, C_D] {
            if !r[ci].is_null() && self.grave[ci].len() < 4000 {
                self.grave[ci].push(r[ci].clone());
            }
        }
    }
    fn touch(&mut self, idk: &str, what: &'static str) {
        let p = self.prov.entry(idk.to_string()).or_default();
        p.last = what;
        p.rb = false;
        if self.txn.is_some() {
            self.touched.insert(idk.to_string());
        }
    }
    /// indices of rows matched by the predicate (through the reference evaluator)
    fn matching(&self, e: &E) -> Option<Vec<usize>> {
        let q = Query::Select(Select { items: vec![Item::Expr { e: col("id"), alias: None }], from: vec![FromItem::Table { name: "t".into(), alias: None }], where_: Some(e.clone()), ..Default::default() });
        let res = run_model(&q, &self.tables).ok()?;
        let ids: HashSet<String> = res.rows.iter().map(|r| k1(&r[0])).collect();
        Some(self.rows().iter().enumerate().filter(|(_, r)| ids.contains(&k1(&r[C_ID]))).map(|(i, _)| i).collect())
    }
    /// Apply the operation if it is valid in the current state; returns the concrete operation to
    /// run on the twins and the number of rows it must affect. None = skipped (it would violate a
    /// key, or it does not fit the transaction state) — this makes every sub-history replayable.
    fn apply(&mut self, op: &Op) -> Option<(Op, Option<usize>)> {
        match op {
            Op::Insert(rows) => {
                let mut ids: HashSet<String> = self.rows().iter().map(|r| k1(&r[C_ID])).collect();
                let mut us: HashSet<String> = self.rows().iter().filter(|r| !r[C_U].is_null()).map(|r| k1(&r[C_U])).collect();
                let mut ok = vec![];
                for r in rows {
                    if ids.contains(&k1(&r[C_ID])) || (!r[C_U].is_null() && us.contains(&k1(&r[C_U]))) {
                        continue;
                    }
                    ids.insert(k1(&r[C_ID]));
                    if !r[C_U].is_null() {
                        us.insert(k1(&r[C_U]));
                    }
                    ok.push(r.clone());
                }
                if ok.is_empty() {
                    return None;
                }
                for r in &ok {
                    let idk = k1(&r[C_ID]);
                    let what = if self.prov.contains_key(&idk) { "reinsert" } else { "insert" };
                    self.touch(&idk, what);
                    self.rows_mut().push(r.clone());
                }
                let n = ok.len();
                Some((Op::Insert(ok), Some(n)))
            }
            Op::Delete(e, _) => {
                let m = self.matching(e)?;
                let set: HashSet<usize> = m.iter().copied().collect();
                let old = std::mem::take(self.rows_mut());
                let mut keep = Vec::with_capacity(old.len());
                for (i, r) in old.into_iter().enumerate() {
                    if set.contains(&i) {
                        self.bury(&r);
                        self.fate.insert(k1(&r[6]), "delete");
                        self.touch(&k1(&r[C_ID]), "delete");
                    } else {
                        keep.push(r);
                    }
                }
                *self.rows_mut() = keep;
                Some((op.clone(), Some(m.len())))
            }
            Op::Update(sets, e, _) => {
                let m = self.matching(e)?;
                let touches_key = sets.iter().any(|(c, _)| *c == C_ID || *c == C_U);
                if touches_key {
                    if m.len() > 1 {
                        return None;
                    }
                    for (c, v) in sets {
                        if (*c == C_ID || *c == C_U) && !v.is_null() {
                            let clash = self.rows().iter().enumerate().any(|(i, r)| !m.contains(&i) && k1(&r[*c]) == k1(v));
                            if clash {
                                return None;
                            }
                        }
                    }
                }
                for &i in &m {
                    let old = self.rows()[i].clone();
                    self.bury(&old);
                    self.touch(&k1(&old[C_ID]), "update");
                    for (c, v) in sets {
                        self.rows_mut()[i][*c] = v.clone();
                    }
                    if sets.iter().any(|(c, _)| *c == C_ID) {
                        let nk = k1(&self.rows()[i][C_ID]);
                        self.touch(&nk, "update");
                    }
                }
                Some((op.clone(), Some(m.len())))
            }
            Op::Begin => {
                if self.txn.is_some() {
                    return None;
                }
                self.txn = Some(Snap { rows: self.rows().clone(), prov: self.prov.clone(), fate: self.fate.clone() });
                self.touched.clear();
                Some((Op::Begin, None))
            }
            Op::Commit => {
                self.txn.take()?;
                self.touched.clear();
                Some((Op::Commit, None))
            }
            Op::Rollback => {
                let s = self.txn.take()?;
                let restored: HashSet<String> = s.rows.iter().map(|r| k1(&r[6])).collect();
                let undone: Vec<String> = self.rows().iter().map(|r| k1(&r[6])).filter(|p| !restored.contains(p)).collect();
                *self.rows_mut() = s.rows;
                self.prov = s.prov;
                self.fate = s.fate;
                for p in undone {
                    self.fate.insert(p, "rollback");
                }
                let touched: Vec<String> = self.touched.drain().collect();
                for k in touched {
                    self.prov.entry(k).or_default().rb = true;
                }
                Some((Op::Rollback, None))
            }
            Op::Truncate => {
                if self.txn.is_some() {
                    return None;
                }
                let old = std::mem::take(self.rows_mut());
                for r in &old {
                    self.bury(r);
                    self.fate.insert(k1(&r[6]), "truncate");
                    self.touch(&k1(&r[C_ID]), "truncate");
                }
                Some((Op::Truncate, None))
            }
            Op::CreateIdx => {
                if self.txn.is_some() || self.has_ix_d {
                    return None;
                }
                self.has_ix_d = true;
                Some((Op::CreateIdx, None))
            }
            Op::DropIdx => {
                if self.txn.is_some() || !self.has_ix_d {
                    return None;
                }
                self.has_ix_d = false;
                Some((Op::DropIdx, None))
            }
        }
    }
}

// ---------------------------------------------------------------------------------------------
// twins
// ---------------------------------------------------------------------------------------------

#[derive(Debug, Clone)]
enum Out {
    Dml(usize),
    Rows(Vec<Row>),
    Other,
}

fn exec(db: &Database, sql: &str) -> Result<Out, String> {
    match catch(|| db.execute(sql)) {
        Ok(Ok(r)) => Ok(match r {
            ExecuteResult::Insert { rows_affected, .. } | ExecuteResult::Update { rows_affected, .. } | ExecuteResult::Delete { rows_affected, .. } => Out::Dml(rows_affected),
            ExecuteResult::Select { rows, .. } => Out::Rows(conv_rows(&rows)),
            _ => Out::Other,
        }),
        Ok(Err(e)) => Err(format!("{:#}", e)),
        Err(p) => Err(format!("PANIC: {}", p)),
    }
}
fn query(db: &Database, sql: &str) -> Result<Vec<Row>, String> {
    match catch(|| db.query(sql)) {
        Ok(Ok(rows)) => Ok(conv_rows(&rows)),
        Ok(Err(e)) => Err(format!("{:#}", e)),
        Err(p) => Err(format!("PANIC: {}", p)),
    }
}
fn explain(db: &Database, sql: &str) -> Option<String> {
    match catch(|| db.execute(&format!("EXPLAIN {}", sql))) {
        Ok(Ok(ExecuteResult::Explain { plan })) => Some(plan),
        _ => None,
    }
}
fn err_class(e: &str) -> String {
    if e.starts_with("PANIC: ") {
        let site = crate::report::panic_site(e);
        return format!("panic@{}", site.rsplit('/').next().unwrap_or(""));
    }
    e.split(|c: char| !c.is_ascii_alphabetic()).filter(|w| !w.is_empty()).take(6).collect::<Vec<_>>().join("_").to_lowercase()
}

struct Twins {
    a: Database,
    b: Database,
    m: Model,
    /// statements executed on twin A (twin B: the same minus index DDL)
    log: Vec<String>,
}

enum Step {
    Skipped,
    Ok,
    /// (assertion, cause, detail): the statement behaved differently on the twins
    Diverged(&'static str, String, J),
    /// the index-free twin disagrees with the model (not a C10 matter); history must be cut
    ScanTwinOff(String),
}

impl Twins {
    fn create(case: &Case, dir_a: &Path, dir_b: &Path) -> Result<Twins, String> {
        let mk = |p: &Path| match catch(|| Database::create(p)) {
            Ok(Ok(d)) => Ok(d),
            Ok(Err(e)) => Err(format!("{:#}", e)),
            Err(p) => Err(format!("PANIC: {}", p)),
        };
        let a = mk(dir_a)?;
        let b = mk(dir_b)?;
        let mut log = vec![];
        for (db, indexed) in [(&a, true), (&b, false)] {
            let _ = exec(db, "PRAGMA synchronous = OFF");
            for s in case.ddl(indexed) {
                exec(db, &s).map_err(|e| format!("{}: {}", s, e))?;
                if indexed {
                    log.push(s);
                }
            }
        }
        Ok(Twins { a, b, m: Model::new(), log })
    }

    fn step(&mut self, op: &Op) -> Step {
        let (cop, want) = match self.m.apply(op) {
            Some(x) => x,
            None => return Step::Skipped,
        };
        let sql = cop.sql();
        self.log.push(sql.clone());
        let ra = exec(&self.a, &sql);
        if matches!(cop, Op::CreateIdx | Op::DropIdx) {
            return match ra {
                Ok(_) => Step::Ok,
                Err(e) => Step::Diverged("ddl", format!("error:{}", err_class(&e)), json!({"sql": sql, "error": e})),
            };
        }
        let rb = exec(&self.b, &sql);
        match (&ra, &rb) {
            (Err(ea), Ok(_)) => Step::Diverged("dml", format!("error:{}", err_class(ea)), json!({"sql": short(&sql), "index_twin_error": ea})),
            (_, Err(eb)) => Step::ScanTwinOff(format!("{}: {}", short(&sql), eb)),
            (Ok(oa), Ok(ob)) => {
                if let Some(w) = want {
                    let (na, nb) = (dml_n(oa), dml_n(ob));
                    if nb != Some(w) {
                        return Step::ScanTwinOff(format!("{}: rows_affected {:?}, model {}", short(&sql), nb, w));
                    }
                    if na != nb {
                        return Step::Diverged("dml", "rows_affected_differs".into(), json!({"sql": short(&sql), "index_twin": na, "scan_twin": nb, "model": w}));
                    }
                }
                Step::Ok
            }
        }
    }
}

fn dml_n(o: &Out) -> Option<usize> {
    match o {
        Out::Dml(n) => Some(*n),
        _ => None,
    }
}
fn short(s: &str) -> String {
    if s.len() > 300 {
        format!("{} ... [{} bytes]", &s[..300], s.len())
    } else {
        s.to_string()
    }
}

// ---------------------------------------------------------------------------------------------
// probes
// ---------------------------------------------------------------------------------------------

#[derive(Clone, Debug)]
struct ProbeQ {
    kind: &'static str,
    /// sub-kind kept out of the signature (present/deleted/never, operator)
    sub: &'static str,
    /// pk | unique | secondary | composite | created (index built by CREATE INDEX mid-history) | none
    ik: &'static str,
    ty: KT,
    col: usize,
    q: Query,
    /// the model covers the predicate
    model: bool,
    /// output column holding the ORDER BY key, desc
    order: Option<(usize, bool)>,
    limit: Option<u64>,
    count: bool,
}

impl ProbeQ {
    fn sql(&self) -> String {
        self.q.sql()
    }
}

fn sel(items: Vec<Item>, w: Option<E>) -> Select {
    Select { items, from: vec![FromItem::Table { name: "t".into(), alias: None }], where_: w, ..Default::default() }
}
fn item(c: &str) -> Item {
    Item::Expr { e: col(c), alias: None }
}

struct ProbeGen<'a> {
    rng: &'a mut Rng,
    out: Vec<ProbeQ>,
}

impl<'a> ProbeGen<'a> {
    fn items(&mut self, ci: usize) -> Vec<Item> {
        if self.rng.chance(1, 2) {
            vec![Item::Star]
        } else if ci == C_ID {
            vec![item("id"), item("pay")]
        } else {
            vec![item("id"), item(COLS[ci]), item("pay")]
        }
    }
    fn push_where(&mut self, kind: &'static str, sub: &'static str, ik: &'static str, ty: KT, ci: usize, w: E, model: bool) {
        let items = self.items(ci);
        self.out.push(ProbeQ { kind, sub, ik, ty, col: ci, q: Query::Select(sel(items, Some(w))), model, order: None, limit: None, count: false });
    }
}

fn pick_present(rng: &mut Rng, m: &Model, ci: usize) -> Option<V> {
    let rows = m.rows();
    if rows.is_empty() {
        return None;
    }
    for _ in 0..8 {
        let r = &rows[rng.below(rows.len() as u64) as usize];
        if !r[ci].is_null() {
            return Some(r[ci].clone());
        }
    }
    None
}
fn pick_deleted(rng: &mut Rng, m: &Model, ci: usize) -> Option<V> {
    let g = &m.grave[ci];
    if g.is_empty() {
        return None;
    }
    let live: HashSet<String> = m.rows().iter().map(|r| k1(&r[ci])).collect();
    for _ in 0..8 {
        let v = &g[rng.below(g.len() as u64) as usize];
        if !live.contains(&k1(v)) {
            return Some(v.clone());
        }
    }
    None
}

/// probe set for one indexed column
fn probes_for_column(g: &mut ProbeGen, m: &Model, ci: usize, ik: &'static str, ty: KT, full: bool) {
    let c = COLS[ci];
    let mc = ty.model_compares();
    let present = pick_present(g.rng, m, ci);
    let deleted = pick_deleted(g.rng, m, ci);
    let never = val(ty, 500_000 + g.rng.below(1000) as i64);
    // point lookups
    if let Some(v) = &present {
        g.push_where("point_eq", "present", ik, ty, ci, bin(BinOp::Eq, col(c), lit(v.clone())), mc);
        if full || g.rng.chance(1, 3) {
            g.push_where("point_eq", "literal_left", ik, ty, ci, bin(BinOp::Eq, lit(v.clone()), col(c)), mc);
        }
        if full || g.rng.chance(1, 2) {
            let w = bin(BinOp::And, bin(BinOp::Eq, col(c), lit(v.clone())), bin(BinOp::Ge, col("a"), lit(V::Int(1))));
            g.push_where("point_eq_and", "present", ik, ty, ci, w, mc);
        }
        if full || g.rng.chance(1, 2) {
            let q = Query::Select(sel(vec![Item::Expr { e: E::Agg(AggFn::CountStar, None), alias: None }], Some(bin(BinOp::Eq, col(c), lit(v.clone())))));
            g.out.push(ProbeQ { kind: "count_eq", sub: "present", ik, ty, col: ci, q, model: mc, order: None, limit: None, count: true });
        }
        // literal of the other numeric class
        if ty.is_int() {
            if let V::Int(i) = v {
                if i.abs() < (1 << 50) {
                    g.push_where("int_col_eq_float_literal", "present", ik, ty, ci, bin(BinOp::Eq, col(c), lit(V::Float(*i as f64))), true);
                }
            }
        }
        if ty == KT::Double {
            if let V::Float(f) = v {
                if f.fract() == 0.0 {
                    g.push_where("float_col_eq_int_literal", "present", ik, ty, ci, bin(BinOp::Eq, col(c), lit(V::Int(*f as i64))), true);
                }
            }
        }
    }
    if let Some(v) = &deleted {
        g.push_where("point_eq", "deleted", ik, ty, ci, bin(BinOp::Eq, col(c), lit(v.clone())), mc);
        if full || g.rng.chance(1, 2) {
            let q = Query::Select(sel(vec![Item::Expr { e: E::Agg(AggFn::CountStar, None), alias: None }], Some(bin(BinOp::Eq, col(c), lit(v.clone())))));
            g.out.push(ProbeQ { kind: "count_eq", sub: "deleted", ik, ty, col: ci, q, model: mc, order: None, limit: None, count: true });
        }
    }
    if full || g.rng.chance(1, 2) {
        g.push_where("point_eq", "never", ik, ty, ci, bin(BinOp::Eq, col(c), lit(never.clone())), mc);
    }
    // NULL tests
    if full || g.rng.chance(1, 2) {
        let neg = g.rng.chance(1, 3);
        g.push_where("is_null", if neg { "is_not_null" } else { "is_null" }, ik, ty, ci, E::IsNull(Box::new(col(c)), neg), true);
    }
    // ranges, BETWEEN, IN, LIKE (not for BOOLEAN: ordering of truth values is not documented)
    if ty != KT::Bool {
        let v1 = present.clone().or(deleted.clone()).unwrap_or(never.clone());
        let v2 = pick_present(g.rng, m, ci).unwrap_or(never.clone());
        for (op, sub) in [(BinOp::Lt, "lt"), (BinOp::Le, "le"), (BinOp::Gt, "gt"), (BinOp::Ge, "ge")] {
            if full || g.rng.chance(1, 3) {
                g.push_where("range", sub, ik, ty, ci, bin(op, col(c), lit(v1.clone())), mc);
            }
        }
        if full || g.rng.chance(1, 2) {
            let (lo, hi) = if v1.order_cmp(&v2) == std::cmp::Ordering::Greater { (v2.clone(), v1.clone()) } else { (v1.clone(), v2.clone()) };
            g.push_where("between", "between", ik, ty, ci, E::Between(Box::new(col(c)), Box::new(lit(lo)), Box::new(lit(hi)), false), mc);
        }
        if full || g.rng.chance(1, 2) {
            let mut l = vec![lit(v1.clone()), lit(v2.clone()), lit(never.clone())];
            if let Some(d) = &deleted {
                l.push(lit(d.clone()));
            }
            g.push_where("in_list", "in", ik, ty, ci, E::InList(Box::new(col(c)), l, false), mc);
        }
        if ty == KT::Text {
            if let V::Text(s) = &v1 {
                let cut = g.rng.usize(3, s.len() - 1);
                let pat = format!("{}%", &s[..cut]);
                g.push_where("like_prefix", "like", ik, ty, ci, E::Like(Box::new(col(c)), Box::new(lit(V::Text(pat))), false), true);
            }
        }
    }
    // ORDER BY the indexed column. `SELECT * .. ORDER BY` is a separate probe kind: the plain sort
    // path does not sort star projections at all (a defect outside C10), so it gets its own signatures.
    for (desc, lim) in [(false, false), (true, false), (false, true), (true, true)] {
        if !(full || g.rng.chance(1, 2)) {
            continue;
        }
        let star = g.rng.chance(1, 4);
        let (items, keycol) = if star {
            (vec![Item::Star], ci)
        } else if ci == C_ID {
            (vec![item("id"), item("pay")], 0)
        } else {
            (vec![item("id"), item(c), item("pay")], 1)
        };
        let mut s = sel(items, None);
        s.order_by = vec![OrderKey::Expr(col(c), desc)];
        let limit = if lim { Some(*g.rng.pick(&[1u64, 3, 10, 57])) } else { None };
        s.limit = limit;
        let kind = match (star, lim) {
            (false, false) => "order_by",
            (false, true) => "order_by_limit",
            (true, false) => "star_order_by",
            (true, true) => "star_order_by_limit",
        };
        g.out.push(ProbeQ { kind, sub: if desc { "desc" } else { "asc" }, ik, ty, col: ci, q: Query::Select(s), model: true, order: Some((keycol, desc)), limit, count: false });
    }
}

fn probes_composite(g: &mut ProbeGen, m: &Model, full: bool) {
    let ik = "composite";
    let x = pick_present(g.rng, m, C_A).unwrap_or(V::Int(1));
    let y = pick_present(g.rng, m, C_B).unwrap_or(V::Int(2));
    let a_eq = bin(BinOp::Eq, col("a"), lit(x.clone()));
    g.push_where("composite_prefix_eq", "a=x", ik, KT::Int, C_A, a_eq.clone(), true);
    g.push_where("composite_prefix_eq_range", "a=x AND b>y", ik, KT::Int, C_A, bin(BinOp::And, a_eq.clone(), bin(BinOp::Gt, col("b"), lit(y.clone()))), true);
    g.push_where("composite_full_eq", "a=x AND b=y", ik, KT::Int, C_A, bin(BinOp::And, a_eq.clone(), bin(BinOp::Eq, col("b"), lit(y.clone()))), true);
    if full || g.rng.chance(1, 2) {
        g.push_where("composite_full_eq", "b=y AND a=x", ik, KT::Int, C_A, bin(BinOp::And, bin(BinOp::Eq, col("b"), lit(y.clone())), a_eq.clone()), true);
        g.push_where("composite_second_only", "b=y", ik, KT::Int, C_B, bin(BinOp::Eq, col("b"), lit(y.clone())), true);
        g.push_where("composite_prefix_eq_null", "a=x AND b IS NULL", ik, KT::Int, C_A, bin(BinOp::And, a_eq.clone(), E::IsNull(Box::new(col("b")), false)), true);
        g.push_where("int_col_eq_float_literal", "a=x.0", ik, KT::Int, C_A, bin(BinOp::Eq, col("a"), lit(V::Float(x.as_f64().unwrap_or(1.0)))), true);
    }
    if full || g.rng.chance(1, 2) {
        let desc = g.rng.chance(1, 2);
        let mut s = sel(vec![item("id"), item("a"), item("pay")], None);
        s.order_by = vec![OrderKey::Expr(col("a"), desc)];
        let lim = g.rng.chance(1, 2);
        s.limit = if lim { Some(7) } else { None };
        let kind = if lim { "order_by_limit" } else { "order_by" };
        g.out.push(ProbeQ { kind, sub: if desc { "desc" } else { "asc" }, ik, ty: KT::Int, col: C_A, q: Query::Select(s.clone()), model: true, order: Some((1, desc)), limit: s.limit, count: false });
    }
}

fn gen_probes(rng: &mut Rng, case: &Case, m: &Model, full: bool) -> Vec<ProbeQ> {
    let mut g = ProbeGen { rng, out: vec![] };
    probes_for_column(&mut g, m, C_ID, "pk", case.pk, full);
    probes_for_column(&mut g, m, C_U, "unique", case.ut, full);
    probes_for_column(&mut g, m, C_S, "secondary", case.st, full);
    probes_for_column(&mut g, m, C_D, if m.has_ix_d { "created" } else { "none" }, case.dt, full);
    probes_composite(&mut g, m, full);
    g.out
}

// ---------------------------------------------------------------------------------------------
// judging one probe
// ---------------------------------------------------------------------------------------------

#[derive(Clone, Debug)]
struct Mis {
    assertion: &'static str,
    cause: String,
    detail: J,
    /// primary keys of the offending rows (the shrinker first tries the history restricted to them)
    ids: Vec<String>,
}

#[derive(Default)]
struct Judged {
    mis: Vec<Mis>,
    both_err: Option<String>,
    scan_err: Option<String>,
    scan_unsorted: bool,
    both_unsorted: bool,
    /// index-free twin differs from the model (assertion, detail)
    model_off: Option<(String, J)>,
    /// rows the index-free twin returned
    b_rows: usize,
}

fn bag(rows: &[Row]) -> HashMap<String, i64> {
    let mut m = HashMap::new();
    for r in rows {
        *m.entry(row_key(r, true)).or_insert(0) += 1;
    }
    m
}
/// rows of `x` not covered by `y` (bag difference), at most 3
fn minus(x: &[Row], y: &[Row]) -> Vec<Row> {
    let mut by = bag(y);
    let mut out = vec![];
    for r in x {
        let k = row_key(r, true);
        match by.get_mut(&k) {
            Some(c) if *c > 0 => *c -= 1,
            _ => {
                if out.len() < 3 {
                    out.push(r.clone());
                }
            }
        }
    }
    out
}

fn unsorted_at(rows: &[Row], kc: usize, desc: bool) -> Option<usize> {
    let mut prev: Option<&V> = None;
    for (i, r) in rows.iter().enumerate() {
        let v = match r.get(kc) {
            Some(v) if !v.is_null() => v,
            _ => continue,
        };
        if let Some(p) = prev {
            let o = p.order_cmp(v);
            let o = if desc { o.reverse() } else { o };
            if o == std::cmp::Ordering::Greater {
                return Some(i);
            }
        }
        prev = Some(v);
    }
    None
}

fn classify_extra(e: &Row, m: &Model) -> String {
    let idk = e.first().map(k1).unwrap_or_default();
    let p = m.prov.get(&idk).cloned().unwrap_or_default();
    // the row version is identified by its `pay` (last column of every probe's select list)
    if e.len() >= 3 {
        let payk = k1(&e[e.len() - 1]);
        if let Some(f) = m.fate.get(&payk) {
            return format!("stale_after_{}", f);
        }
        if let Some(live) = m.rows().iter().find(|r| k1(&r[6]) == payk) {
            let same = if e.len() == COLS.len() { row_key(e, true) == row_key(live, true) } else { k1(&e[0]) == k1(&live[C_ID]) };
            if p.rb {
                return "stale_after_rollback".into();
            }
            if !same || p.last == "update" {
                return "stale_after_update".into();
            }
            return "extra_rows".into();
        }
        return "extra_rows_never_written".into();
    }
    if p.rb {
        return "stale_after_rollback".into();
    }
    let live = m.rows().iter().any(|r| k1(&r[C_ID]) == idk);
    if live {
        return if p.last == "update" { "stale_after_update".into() } else { "extra_rows".into() };
    }
    match p.last {
        "delete" => "stale_after_delete".into(),
        "truncate" => "stale_after_truncate".into(),
        "update" => "stale_after_update".into(),
        _ => "extra_rows".into(),
    }
}
fn classify_missing(r: &Row, keycol: Option<usize>, m: &Model) -> String {
    let idk = r.first().map(k1).unwrap_or_default();
    let p = m.prov.get(&idk).cloned().unwrap_or_default();
    if p.rb {
        return "stale_after_rollback".into();
    }
    match p.last {
        "update" => return "stale_after_update".into(),
        "reinsert" => return "missing_rows_reinserted_key".into(),
        _ => {}
    }
    if let Some(kc) = keycol {
        if r.get(kc).map(|v| v.is_null()).unwrap_or(false) {
            return "missing_rows_null_key".into();
        }
    }
    "missing_rows".into()
}

/// Compare the index twin's answer `ra` with the reference answer `rb` (index-free twin, or the
/// same twin before the index DDL).
fn judge(p: &ProbeQ, ra: &Result<Vec<Row>, String>, rb: &Result<Vec<Row>, String>, m: &Model, use_model: bool) -> Judged {
    let mut j = Judged::default();
    let mres = if p.model && use_model { run_model(&p.q, &m.tables).ok() } else { None };
    if let (Some(mr), Ok(b)) = (&mres, rb) {
        if p.order.is_none() {
            if let Some(f) = crate::sqlm::cmp::compare(b, mr).into_iter().next() {
                j.model_off = Some((f.assertion.to_string(), f.detail));
            }
        } else if p.limit.is_none() {
            // ORDER BY: NULL placement and the plain sort itself belong to C15; only the bag is ours
            if let Some(d) = crate::sqlm::cmp::bag_diff(b, &mr.rows) {
                j.model_off = Some(("bag".to_string(), d));
            }
        }
    }
    let (a, b) = match (ra, rb) {
        (Err(e), Err(_)) => {
            j.both_err = Some(e.clone());
            return j;
        }
        (Ok(_), Err(e)) => {
            j.scan_err = Some(e.clone());
            return j;
        }
        (Err(e), Ok(_)) => {
            j.mis.push(Mis { assertion: "no_error", cause: format!("error:{}", err_class(e)), detail: json!({"index_twin_error": e}), ids: vec![] });
            return j;
        }
        (Ok(a), Ok(b)) => (a, b),
    };
    j.b_rows = b.len();
    let a_matches_model = mres
        .as_ref()
        .map(|mr| if p.order.is_some() && p.limit.is_none() { crate::sqlm::cmp::bag_diff(a, &mr.rows).is_none() } else { crate::sqlm::cmp::compare(a, mr).is_empty() })
        .unwrap_or(false);
    let detail = |a: &[Row], b: &[Row], extra: &[Row], missing: &[Row]| json!({"index_twin_rows": a.len(), "scan_twin_rows": b.len(), "extra_on_index_twin": rows_json(extra, 3), "missing_on_index_twin": rows_json(missing, 3), "index_twin_equals_model": a_matches_model});
    if p.count {
        let na = a.first().and_then(|r| r.first()).and_then(|v| v.as_f64()).unwrap_or(-1.0);
        let nb = b.first().and_then(|r| r.first()).and_then(|v| v.as_f64()).unwrap_or(-1.0);
        if na != nb {
            let cause = if a_matches_model { "scan_twin_wrong" } else if na < nb { "missing_rows" } else { "extra_rows" };
            j.mis.push(Mis { assertion: "twin_count", cause: cause.into(), detail: json!({"index_twin": na, "scan_twin": nb}), ids: vec![] });
        }
        return j;
    }
    if let Some((kc, desc)) = p.order {
        let b_unsorted = unsorted_at(b, kc, desc).is_some();
        if b_unsorted {
            j.scan_unsorted = true;
        }
        if let Some(i) = unsorted_at(a, kc, desc) {
            if !b_unsorted {
                j.mis.push(Mis { assertion: "sorted", cause: "unsorted".into(), detail: json!({"at": i, "prev": a[i - 1].get(kc).map(|v| v.to_json()), "next": a[i].get(kc).map(|v| v.to_json()), "rows": a.len()}), ids: vec![k1(&a[i - 1][0]), k1(&a[i][0])] });
            } else {
                j.both_unsorted = true;
            }
        }
    }
    if p.limit.is_none() {
        let extra = minus(a, b);
        let missing = minus(b, a);
        if !extra.is_empty() || !missing.is_empty() {
            let cause = if a_matches_model {
                "scan_twin_wrong".to_string()
            } else if p.kind.ends_with("_literal") && extra.is_empty() {
                // the literal's numeric class alone decides (history-independent)
                "missing_rows".to_string()
            } else if let Some(e) = extra.first() {
                if b.iter().any(|r| row_key(r, true) == row_key(e, true)) {
                    "duplicate_rows".to_string()
                } else {
                    classify_extra(e, m)
                }
            } else {
                classify_missing(&missing[0], p.order.map(|o| o.0), m)
            };
            let ids = extra.iter().chain(missing.iter()).map(|r| k1(&r[0])).collect();
            j.mis.push(Mis { assertion: "twin_bag", cause, detail: detail(a, b, &extra, &missing), ids });
        }
        return j;
    }
    // LIMIT window: the key multiset is determined, the choice among ties is not
    let kc = p.order.map(|o| o.0).unwrap_or(0);
    let keys = |rows: &[Row]| -> Vec<Row> { rows.iter().map(|r| vec![r.get(kc).cloned().unwrap_or(V::Null)]).collect() };
    let (ka, kb) = (keys(a), keys(b));
    let extra_k = minus(&ka, &kb);
    let missing_k = minus(&kb, &ka);
    if !extra_k.is_empty() || !missing_k.is_empty() {
        let nulls = |k: &[Row]| k.iter().filter(|r| r[0].is_null()).count();
        let cause = if nulls(&ka) != nulls(&kb) {
            "null_placement".to_string()
        } else if a_matches_model {
            "scan_twin_wrong".to_string()
        } else if let Some(e) = a.iter().find(|r| extra_k.iter().any(|k| k1(&k[0]) == k1(&r[kc]))) {
            classify_extra(e, m)
        } else if let Some(r) = b.iter().find(|r| missing_k.iter().any(|k| k1(&k[0]) == k1(&r[kc]))) {
            classify_missing(r, Some(kc), m)
        } else {
            "missing_rows".to_string()
        };
        let mut ids: Vec<String> = a.iter().filter(|r| extra_k.iter().any(|k| k1(&k[0]) == k1(&r[kc]))).take(3).map(|r| k1(&r[0])).collect();
        ids.extend(b.iter().filter(|r| missing_k.iter().any(|k| k1(&k[0]) == k1(&r[kc]))).take(3).map(|r| k1(&r[0])));
        j.mis.push(Mis { assertion: "twin_window_keys", cause, detail: json!({"index_twin_rows": a.len(), "scan_twin_rows": b.len(), "keys_only_on_index_twin": rows_json(&extra_k, 3), "keys_only_on_scan_twin": rows_json(&missing_k, 3)}), ids });
        return j;
    }
    // every returned row must be a live row
    if use_model {
        let star = a.first().map(|r| r.len() == COLS.len()).unwrap_or(false);
        let pool: Vec<Row> = m.rows().iter().map(|r| if star { r.clone() } else if p.col == C_ID { vec![r[C_ID].clone(), r[6].clone()] } else { vec![r[C_ID].clone(), r[p.col].clone(), r[6].clone()] }).collect();
        let ghosts = minus(a, &pool);
        if let Some(e) = ghosts.first() {
            j.mis.push(Mis { assertion: "twin_window_rows", cause: classify_extra(e, m), detail: json!({"rows_not_in_table": rows_json(&ghosts, 3)}), ids: ghosts.iter().map(|r| k1(&r[0])).collect() });
        }
    }
    j
}

fn star_variant(p: &ProbeQ) -> Option<ProbeQ> {
    if let Query::Select(s) = &p.q {
        let mut s2 = s.clone();
        s2.items = vec![Item::Star];
        let mut p2 = p.clone();
        p2.q = Query::Select(s2);
        p2.count = false;
        return Some(p2);
    }
    None
}

fn run_probe(tw: &Twins, p: &ProbeQ) -> Judged {
    let sql = p.sql();
    let ra = query(&tw.a, &sql);
    let rb = query(&tw.b, &sql);
    let mut j = judge(p, &ra, &rb, &tw.m, true);
    if p.count && !j.mis.is_empty() {
        // name the cause from the rows behind the count
        if let Some(p2) = star_variant(p) {
            let s2 = p2.sql();
            let j2 = judge(&p2, &query(&tw.a, &s2), &query(&tw.b, &s2), &tw.m, true);
            if let Some(m2) = j2.mis.first() {
                j.mis[0].cause = m2.cause.clone();
                j.mis[0].ids = m2.ids.clone();
            }
        }
    }
    j
}

fn sig_of(p: &ProbeQ, ik: &str, mis: &Mis) -> String {
    format!("C10/{}/{}/{}/{}", p.kind, ik, p.ty.tag(), mis.cause)
}

/// index named in the EXPLAIN output, if the plan goes through one
fn plan_index(plan: &str) -> Option<String> {
    for line in plan.lines() {
        if let Some(pos) = line.find("IndexScan on ") {
            let rest = &line[pos..];
            if let Some(u) = rest.find(" using ") {
                let name: String = rest[u + 7..].chars().take_while(|c| c.is_alphanumeric() || *c == '_').collect();
                return Some(name);
            }
            return Some("(index)".into());
        }
    }
    None
}

// ---------------------------------------------------------------------------------------------
// history generator
// ---------------------------------------------------------------------------------------------

#[derive(Clone, Debug, Default)]
struct Feats {
    deletes: bool,
    bulk_delete: bool,
    updates: bool,
    key_updates: bool,
    rollback: bool,
    commit_txn: bool,
    truncate: bool,
    nulls: bool,
    reinsert: bool,
    ddl: bool,
}

impl Feats {
    fn tags(&self) -> Vec<&'static str> {
        let mut v = vec![];
        for (on, t) in [(self.deletes, "deletes"), (self.bulk_delete, "bulk_delete"), (self.updates, "updates"), (self.key_updates, "key_updates"), (self.rollback, "rollback"), (self.commit_txn, "commit_txn"), (self.truncate, "truncate"), (self.nulls, "nulls"), (self.reinsert, "reinsert"), (self.ddl, "index_ddl")] {
            if on {
                v.push(t);
            }
        }
        v
    }
}

struct Gen {
    id_pool: Vec<i64>,
    u_pool: Vec<i64>,
    serial: u64,
    s_dom: i64,
    d_dom: i64,
    truncated: bool,
}

fn gen_row(rng: &mut Rng, case: &Case, f: &Feats, g: &mut Gen, id: Option<V>) -> Option<Row> {
    let id = match id {
        Some(v) => v,
        None => val(case.pk, g.id_pool.pop()?),
    };
    let null = |rng: &mut Rng, pm: u64| f.nulls && rng.below(1000) < pm;
    let u = if null(rng, 150) { V::Null } else { val(case.ut, g.u_pool.pop()?) };
    let s = if null(rng, 150) { V::Null } else { val(case.st, rng.below(g.s_dom as u64) as i64) };
    let a = if null(rng, 100) { V::Null } else { V::Int(rng.below(5) as i64) };
    let b = if null(rng, 100) { V::Null } else { V::Int(rng.below(9) as i64) };
    let d = if null(rng, 150) { V::Null } else { val(case.dt, rng.below(g.d_dom as u64) as i64) };
    g.serial += 1;
    Some(vec![id, u, s, a, b, d, V::Text(format!("p{}", g.serial))])
}

fn id_pred(v: &V) -> E {
    bin(BinOp::Eq, col("id"), lit(v.clone()))
}

fn gen_op(rng: &mut Rng, case: &Case, f: &Feats, g: &mut Gen, m: &Model) -> Op {
    let in_txn = m.txn.is_some();
    if in_txn && rng.chance(1, 4) {
        return if f.rollback && (!f.commit_txn || rng.chance(2, 3)) { Op::Rollback } else { Op::Commit };
    }
    let nlive = m.rows().len();
    for _ in 0..20 {
        let r = rng.below(100);
        if r < 22 {
            let n = rng.usize(1, 40);
            let mut rows = vec![];
            for _ in 0..n {
                let reuse = if f.reinsert && rng.chance(1, 3) { pick_deleted(rng, m, C_ID) } else { None };
                if let Some(row) = gen_row(rng, case, f, g, reuse) {
                    rows.push(row);
                }
            }
            if !rows.is_empty() {
                return Op::Insert(rows);
            }
        } else if r < 40 && f.deletes && nlive > 0 {
            let k = rng.below(10);
            if k < 4 {
                if let Some(v) = pick_present(rng, m, C_ID) {
                    return Op::Delete(id_pred(&v), C_ID);
                }
            } else if k < 7 && f.bulk_delete {
                // a contiguous key range of up to a third of the table: empties whole leaves
                let mut ids: Vec<V> = m.rows().iter().map(|r| r[C_ID].clone()).collect();
                ids.sort_by(|x, y| x.order_cmp(y));
                let i = rng.below(ids.len() as u64) as usize;
                let span = rng.usize(1, (ids.len() / 3).max(1));
                let jx = (i + span).min(ids.len() - 1);
                return Op::Delete(E::Between(Box::new(col("id")), Box::new(lit(ids[i].clone())), Box::new(lit(ids[jx].clone())), false), C_ID);
            } else if k < 9 && case.st.model_compares() {
                if let Some(v) = pick_present(rng, m, C_S) {
                    return Op::Delete(bin(BinOp::Eq, col("s"), lit(v)), C_S);
                }
            } else if case.ut.model_compares() {
                if let Some(v) = pick_present(rng, m, C_U) {
                    return Op::Delete(bin(BinOp::Eq, col("u"), lit(v)), C_U);
                }
            }
        } else if r < 62 && f.updates && nlive > 0 {
            let k = rng.below(12);
            let idv = match pick_present(rng, m, C_ID) {
                Some(v) => v,
                None => continue,
            };
            let new_s = val(case.st, rng.below(g.s_dom as u64 + 3) as i64);
            if k < 3 {
                return Op::Update(vec![(C_S, new_s)], id_pred(&idv), C_ID);
            } else if k < 4 && f.nulls {
                return Op::Update(vec![(C_S, V::Null)], id_pred(&idv), C_ID);
            } else if k < 5 && f.nulls {
                return Op::Update(vec![(C_S, new_s)], E::IsNull(Box::new(col("s")), false), C_S);
            } else if k < 6 {
                let mut ids: Vec<V> = m.rows().iter().map(|r| r[C_ID].clone()).collect();
                ids.sort_by(|x, y| x.order_cmp(y));
                let i = rng.below(ids.len() as u64) as usize;
                let jx = (i + rng.usize(1, 30)).min(ids.len() - 1);
                return Op::Update(vec![(C_S, new_s)], E::Between(Box::new(col("id")), Box::new(lit(ids[i].clone())), Box::new(lit(ids[jx].clone())), false), C_ID);
            } else if k < 7 && case.st.model_compares() {
                if let Some(v) = pick_present(rng, m, C_S) {
                    return Op::Update(vec![(C_S, new_s)], bin(BinOp::Eq, col("s"), lit(v)), C_S);
                }
            } else if k < 8 {
                return Op::Update(vec![(C_A, V::Int(rng.below(5) as i64)), (C_B, V::Int(rng.below(9) as i64))], id_pred(&idv), C_ID);
            } else if k < 9 {
                return Op::Update(vec![(C_A, V::Int(rng.below(5) as i64))], bin(BinOp::Eq, col("b"), lit(V::Int(rng.below(9) as i64))), C_B);
            } else if k < 10 {
                return Op::Update(vec![(C_D, val(case.dt, rng.below(g.d_dom as u64 + 3) as i64))], id_pred(&idv), C_ID);
            } else if f.key_updates {
                if k < 11 {
                    let nu = if f.nulls && rng.chance(1, 4) { V::Null } else { g.u_pool.pop().map(|n| val(case.ut, n)).unwrap_or(V::Null) };
                    return Op::Update(vec![(C_U, nu)], id_pred(&idv), C_ID);
                } else if let Some(n) = g.id_pool.pop() {
                    return Op::Update(vec![(C_ID, val(case.pk, n))], id_pred(&idv), C_ID);
                }
            }
        } else if r < 70 && (f.rollback || f.commit_txn) && !in_txn {
            return Op::Begin;
        } else if r < 73 && f.truncate && !in_txn && !g.truncated && nlive > 0 {
            g.truncated = true;
            return Op::Truncate;
        } else if r < 82 && f.ddl && !in_txn {
            return if m.has_ix_d { Op::DropIdx } else { Op::CreateIdx };
        }
    }
    let mut rows = vec![];
    for _ in 0..5 {
        if let Some(row) = gen_row(rng, case, f, g, None) {
            rows.push(row);
        }
    }
    Op::Insert(rows)
}

// ---------------------------------------------------------------------------------------------
// replay and shrinking
// ---------------------------------------------------------------------------------------------

#[derive(Clone)]
enum Target {
    /// the probe, run after the history, fails with this signature
    Probe(ProbeQ, String),
    /// the last operation of the history diverges with this signature
    LastOp(String),
    /// the last operation is index DDL on twin A; the probe answers differently before and after
    Ddl(ProbeQ, String),
    /// full-scan content of the twins differs
    Base(String),
}

fn op_sig(case: &Case, op: &Op, cause: &str) -> String {
    let (ci, kind) = match op {
        Op::Delete(_, c) => (Some(*c), "dml_delete"),
        Op::Update(_, _, c) => (Some(*c), "dml_update"),
        Op::Insert(_) => (None, "dml_insert"),
        Op::CreateIdx => (Some(C_D), "ddl_create_index"),
        Op::DropIdx => (Some(C_D), "ddl_drop_index"),
        _ => (None, "txn_or_truncate"),
    };
    let (ik, ty) = match ci {
        Some(C_ID) => ("pk", case.pk.tag()),
        Some(C_U) => ("unique", case.ut.tag()),
        Some(C_S) => ("secondary", case.st.tag()),
        Some(C_B) => ("composite", "int"),
        Some(C_D) => ("created", case.dt.tag()),
        _ => ("all", "any"),
    };
    format!("C10/{}/{}/{}/{}", kind, ik, ty, cause)
}

fn base_check(tw: &Twins) -> Result<Option<(String, J)>, String> {
    let sql = "SELECT * FROM t";
    let ra = query(&tw.a, sql);
    let rb = query(&tw.b, sql);
    let b = match &rb {
        Ok(b) => b,
        Err(e) => return Err(format!("scan twin full scan failed: {}", e)),
    };
    if !minus(b, tw.m.rows()).is_empty() || !minus(tw.m.rows(), b).is_empty() {
        return Err(format!("scan twin content differs from the model ({} vs {} rows)", b.len(), tw.m.rows().len()));
    }
    match &ra {
        Err(e) => Ok(Some((format!("C10/base_state/all/any/error:{}", err_class(e)), json!({"error": e})))),
        Ok(a) => {
            let extra = minus(a, b);
            let missing = minus(b, a);
            if extra.is_empty() && missing.is_empty() {
                return Ok(None);
            }
            let cause = if let Some(e) = extra.first() { classify_extra(e, &tw.m) } else { classify_missing(&missing[0], None, &tw.m) };
            Ok(Some((format!("C10/base_state/all/any/{}", cause), json!({"index_twin_rows": a.len(), "scan_twin_rows": b.len(), "extra_on_index_twin": rows_json(&extra, 3), "missing_on_index_twin": rows_json(&missing, 3)}))))
        }
    }
}

fn ddl_judge(tw: &mut Twins, op: &Op, probes: &[ProbeQ]) -> (Step, Vec<(ProbeQ, Mis)>) {
    let before: Vec<Result<Vec<Row>, String>> = probes.iter().map(|p| query(&tw.a, &p.sql())).collect();
    let st = tw.step(op);
    let mut out = vec![];
    if matches!(st, Step::Ok) {
        for (p, bf) in probes.iter().zip(before.iter()) {
            let af = query(&tw.a, &p.sql());
            // the side that has the index is judged against the side that has not
            let j = if matches!(op, Op::DropIdx) { judge(p, bf, &af, &tw.m, false) } else { judge(p, &af, bf, &tw.m, false) };
            for mis in j.mis {
                out.push((p.clone(), mis));
            }
        }
    }
    (st, out)
}

struct Replayer<'a> {
    scratch: &'a Scratch,
    runs: usize,
}

impl<'a> Replayer<'a> {
    fn fails(&mut self, case: &Case, ops: &[Op], target: &Target) -> bool {
        self.runs += 1;
        let da = self.scratch.dir("rA");
        let db = self.scratch.dir("rB");
        let res = (|| {
            let mut tw = match Twins::create(case, &da, &db) {
                Ok(t) => t,
                Err(_) => return false,
            };
            let (body, last) = match target {
                Target::LastOp(_) | Target::Ddl(..) => match ops.split_last() {
                    Some((l, b)) => (b, Some(l)),
                    None => return false,
                },
                _ => (ops, None),
            };
            for op in body {
                match tw.step(op) {
                    Step::Diverged(..) | Step::ScanTwinOff(_) => return false,
                    _ => {}
                }
            }
            match target {
                Target::Probe(p, sig) => run_probe(&tw, p).mis.iter().any(|m| &sig_of(p, p.ik, m) == sig),
                Target::LastOp(sig) => match tw.step(last.unwrap()) {
                    Step::Diverged(_, cause, _) => &op_sig(case, last.unwrap(), &cause) == sig,
                    _ => false,
                },
                Target::Ddl(p, sig) => {
                    let (_, v) = ddl_judge(&mut tw, last.unwrap(), std::slice::from_ref(p));
                    v.iter().any(|(p, m)| &sig_of(p, p.ik, m) == sig)
                }
                Target::Base(sig) => matches!(base_check(&tw), Ok(Some((s, _))) if &s == sig),
            }
        })();
        let _ = std::fs::remove_dir_all(&da);
        let _ = std::fs::remove_dir_all(&db);
        res
    }
}

/// ddmin over the history (the last `fixed` operations stay), then over the rows of the
/// remaining INSERTs, then over the indexes twin A declares.
fn shrink(rp: &mut Replayer, case: &Case, ops: &[Op], target: &Target, focus: &[String], max_runs: usize, deadline: Instant) -> Option<(Case, Vec<Op>)> {
    let fixed = if matches!(target, Target::LastOp(_) | Target::Ddl(..)) { 1 } else { 0 };
    let mut case = case.clone();
    let mut cur: Vec<Op> = ops.to_vec();
    // 0. most defects need only the offending rows: try the history restricted to their keys
    //    (progressively fewer keys), which makes every later replay cheap
    let mut reproduced = false;
    if !focus.is_empty() {
        for take in [1usize, 2, focus.len()] {
            if take > focus.len() {
                continue;
            }
            let keep: HashSet<&String> = focus.iter().take(take).collect();
            let mut cand: Vec<Op> = vec![];
            for (k, op) in cur.iter().enumerate() {
                match op {
                    Op::Insert(rows) if k + fixed < cur.len() || fixed == 0 => {
                        let r: Vec<Row> = rows.iter().filter(|r| keep.contains(&k1(&r[C_ID]))).cloned().collect();
                        if !r.is_empty() {
                            cand.push(Op::Insert(r));
                        }
                    }
                    other => cand.push(other.clone()),
                }
            }
            if rp.fails(&case, &cand, target) {
                cur = cand;
                reproduced = true;
                break;
            }
            if take == focus.len() {
                break;
            }
        }
    }
    // only shrink what reproduces on fresh twins
    if !reproduced && !rp.fails(&case, &cur, target) {
        return None;
    }
    let start_runs = rp.runs;
    let out_of_budget = |rp: &Replayer| rp.runs - start_runs >= max_runs || Instant::now() >= deadline;
    // 1. operations
    let mut n = 2usize;
    while cur.len() - fixed >= 1 && !out_of_budget(rp) {
        let body = cur.len() - fixed;
        let chunk = (body + n - 1) / n;
        let mut reduced = false;
        let mut i = 0;
        while i * chunk < body {
            if out_of_budget(rp) {
                break;
            }
            let (lo, hi) = (i * chunk, ((i + 1) * chunk).min(body));
            let cand: Vec<Op> = cur.iter().enumerate().filter(|(k, _)| *k < lo || *k >= hi).map(|(_, o)| o.clone()).collect();
            if rp.fails(&case, &cand, target) {
                cur = cand;
                n = (n - 1).max(2);
                reduced = true;
                break;
            }
            i += 1;
        }
        if !reduced {
            if chunk <= 1 {
                break;
            }
            n = (n * 2).min(body);
        }
    }
    // 2. rows of multi-row inserts
    let mut progress = true;
    while progress && !out_of_budget(rp) {
        progress = false;
        for k in 0..cur.len() {
            if let Op::Insert(rows) = &cur[k] {
                if rows.len() < 2 {
                    continue;
                }
                let half = rows.len() / 2;
                for part in [rows[..half].to_vec(), rows[half..].to_vec()] {
                    if out_of_budget(rp) {
                        break;
                    }
                    let mut cand = cur.clone();
                    cand[k] = Op::Insert(part);
                    if rp.fails(&case, &cand, target) {
                        cur = cand;
                        progress = true;
                        break;
                    }
                }
            }
        }
    }
    // 3. indexes the repro does not need
    for which in 0..4 {
        if out_of_budget(rp) {
            break;
        }
        let mut c2 = case.clone();
        let flag = match which {
            0 => &mut c2.with_ix_ab,
            1 => &mut c2.with_ix_s,
            2 => &mut c2.with_unique,
            _ => &mut c2.with_pk,
        };
        if !*flag {
            continue;
        }
        *flag = false;
        if rp.fails(&c2, &cur, target) {
            case = c2;
        }
    }
    Some((case, cur))
}

fn repro_sql(case: &Case, ops: &[Op], target: &Target, full: bool) -> Vec<String> {
    let mut v = case.ddl(true);
    let mut m = Model::new();
    for op in ops {
        if let Some((c, _)) = m.apply(op) {
            v.push(if full { c.sql() } else { short(&c.sql()) });
        }
    }
    match target {
        Target::Probe(p, _) => v.push(p.sql()),
        Target::Ddl(p, _) => {
            let last = v.pop().unwrap_or_default();
            v.push(p.sql());
            v.push(last);
            v.push(p.sql());
        }
        Target::Base(_) => v.push("SELECT * FROM t".into()),
        Target::LastOp(_) => {}
    }
    v
}

// ---------------------------------------------------------------------------------------------
// driver
// ---------------------------------------------------------------------------------------------

struct SigInfo {
    hits: u64,
    assertion: String,
    repro: Option<Vec<String>>,
    repro_ops: usize,
    first_case: String,
    detail: J,
}

struct Run<'a> {
    ctx: Ctx,
    scratch: &'a Scratch,
    sigs: BTreeMap<String, SigInfo>,
    via_index: BTreeMap<String, u64>,
    via_scan: BTreeMap<String, u64>,
    shrink_spent: f64,
    shrink_budget: f64,
    shrink_runs: usize,
    quick: bool,
    err_examples: BTreeMap<String, (u64, String, String)>,
    families: HashSet<String>,
}

impl<'a> Run<'a> {
    /// record a discrepancy; the first occurrence of a signature is shrunk to a minimal history
    fn report(&mut self, case: &Case, case_tag: &str, ops: &[Op], target: Target, focus: &[String], assertion: &str, sig: &str, detail: J, hist_sigs: &mut HashSet<String>) {
        if !hist_sigs.insert(sig.to_string()) {
            return;
        }
        let family = {
            let p: Vec<&str> = sig.split('/').collect();
            let kind = p.get(1).copied().unwrap_or("");
            let class = if kind.starts_with("star_order") { "star_order" } else if kind.starts_with("order") { "order" } else { kind };
            format!("{}/{}/{}", class, p.get(2).copied().unwrap_or(""), p.get(4).copied().unwrap_or(""))
        };
        let first = self.families.insert(family);
        let mut repro = None;
        let mut repro_ops = ops.len();
        if first && self.shrink_spent < self.shrink_budget {
            let t0 = Instant::now();
            let per: f64 = if self.quick { 3.0 } else { 9.0 };
            let deadline = t0 + std::time::Duration::from_secs_f64(per.min(self.shrink_budget - self.shrink_spent).max(0.5));
            let mut rp = Replayer { scratch: self.scratch, runs: 0 };
            match shrink(&mut rp, case, ops, &target, focus, if self.quick { 80 } else { 300 }, deadline) {
                Some((c2, small)) => {
                    repro_ops = small.len();
                    repro = Some(repro_sql(&c2, &small, &target, false));
                }
                None => self.ctx.count("not_reproduced_on_fresh_twins", 1),
            }
            self.shrink_runs += rp.runs;
            self.shrink_spent += t0.elapsed().as_secs_f64();
        }
        if repro.is_none() && first && sig.contains("/error:") {
            // rare and important: keep the whole history in the evidence when it could not be shrunk
            repro = Some(repro_sql(case, ops, &target, true));
        }
        let e = self.sigs.entry(sig.to_string()).or_insert(SigInfo { hits: 0, assertion: assertion.to_string(), repro: None, repro_ops, first_case: case_tag.to_string(), detail: detail.clone() });
        e.hits += 1;
        if e.repro.is_none() && repro.is_some() {
            e.repro = repro.clone();
            e.repro_ops = repro_ops;
        }
        let full = json!({"case": case_tag, "detail": detail, "minimal_history": repro, "unshrunk_history": if repro.is_none() && first { Some(repro_sql(case, ops, &target, true)) } else { None }, "history_len": ops.len(), "probe": match &target { Target::Probe(p, _) | Target::Ddl(p, _) => json!({"sql": p.sql(), "kind": p.kind, "sub": p.sub}), _ => J::Null }});
        self.ctx.violation(assertion, sig, full);
    }

    fn probe_round(&mut self, case: &Case, case_tag: &str, case_no: u64, tw: &Twins, rng: &mut Rng, plans: &mut HashMap<String, Option<String>>, hist_sigs: &mut HashSet<String>, round: u64, hist: &[Op]) -> bool {
        // full-scan content first: a probe can only be attributed when the base tables agree
        match base_check(tw) {
            Err(why) => {
                self.ctx.count("histories_cut_scan_twin_differs_from_model", 1);
                if self.ctx.samples.len() < 6 {
                    self.ctx.sample(json!({"history_cut": why, "case": case_tag, "last_statements": tw.log.iter().rev().take(4).map(|s| short(s)).collect::<Vec<_>>()}));
                }
                return false;
            }
            Ok(Some((sig, detail))) => {
                self.report(case, case_tag, hist, Target::Base(sig.clone()), &[], "base_state", &sig, detail, hist_sigs);
                return false;
            }
            Ok(None) => {}
        }
        let probes = gen_probes(rng, case, &tw.m, false);
        for p in probes {
            self.ctx.eval();
            let sql = p.sql();
            let pkey = format!("{}|{}|{}|{}", p.kind, p.sub, p.col, tw.m.has_ix_d);
            let plan_ix = plans.entry(pkey).or_insert_with(|| explain(&tw.a, &sql).and_then(|pl| plan_index(&pl))).clone();
            let label = format!("{}/{}/{}", p.kind, p.ik, p.ty.tag());
            let j = run_probe(tw, &p);
            if let Some(ix) = &plan_ix {
                *self.via_index.entry(label.clone()).or_insert(0) += 1;
                self.ctx.count(&format!("probes_via_index:{}", ix_class(ix)), 1);
                self.ctx.nontrivial(fnv(format!("{}#{}#{}#{}", case_no, round, sql, tw.m.rows().len()).as_bytes()));
                if j.b_rows > 0 {
                    self.ctx.count("probes_via_index_nonempty", 1);
                }
            } else {
                *self.via_scan.entry(label.clone()).or_insert(0) += 1;
                self.ctx.count("probes_table_scan_plan", 1);
            }
            if let Some(e) = &j.both_err {
                self.ctx.count("probe_error_on_both_twins", 1);
                let x = self.err_examples.entry(format!("both:{}:{}", p.kind, err_class(e))).or_insert((0, sql.clone(), e.clone()));
                x.0 += 1;
            }
            if let Some(e) = &j.scan_err {
                self.ctx.count("probe_error_on_scan_twin_only", 1);
                let x = self.err_examples.entry(format!("scan_twin_only:{}:{}", p.kind, err_class(e))).or_insert((0, sql.clone(), e.clone()));
                x.0 += 1;
            }
            if j.both_unsorted {
                self.ctx.count("both_twins_unsorted_not_judged", 1);
            }
            if j.scan_unsorted {
                self.ctx.count("scan_twin_unsorted_not_judged", 1);
            }
            if !p.model {
                self.ctx.count("probes_twin_only_model_does_not_cover", 1);
                if j.b_rows == 0 {
                    self.ctx.count("probes_twin_only_empty_on_both", 1);
                }
            }
            if let Some((assertion, d)) = &j.model_off {
                // the index-free twin itself disagrees with the model: not an index matter, but the
                // brief asks for model agreement; reported under its own assertion
                let sig = format!("C10/model/{}/{}/scan_twin_differs_from_model:{}", p.kind, p.ty.tag(), assertion);
                if hist_sigs.insert(sig.clone()) {
                    let e = self.sigs.entry(sig.clone()).or_insert(SigInfo { hits: 0, assertion: "model".into(), repro: None, repro_ops: 0, first_case: case_tag.to_string(), detail: json!({"sql": sql, "fail": d}) });
                    e.hits += 1;
                    self.ctx.violation("model", &sig, json!({"case": case_tag, "sql": sql, "fail": d, "history": tw.log.iter().map(|s| short(s)).collect::<Vec<_>>()}));
                }
            }
            for mis in &j.mis {
                let sig = sig_of(&p, p.ik, mis);
                let detail = json!({"sql": sql, "sub": p.sub, "plan_index": plan_ix, "fail": mis.detail});
                self.report(case, case_tag, hist, Target::Probe(p.clone(), sig.clone()), &mis.ids, mis.assertion, &sig, detail, hist_sigs);
            }
            if j.mis.is_empty() && self.ctx.samples.len() < 3 && plan_ix.is_some() && j.b_rows > 0 {
                self.ctx.sample(json!({"case": case_tag, "probe": sql, "plan_index": plan_ix, "rows": j.b_rows, "table_rows": tw.m.rows().len(), "statements_so_far": tw.log.len()}));
            }
        }
        true
    }
}

fn ix_class(ix: &str) -> &'static str {
    if ix.ends_with("_pkey") {
        "pk"
    } else if ix.ends_with("_key") {
        "unique"
    } else if ix == "ix_ab" {
        "composite"
    } else if ix == "ix_d" {
        "created"
    } else {
        "secondary"
    }
}

pub fn run(a: &Args) -> i32 {
    let ctx = Ctx::new(
        "C10",
        &a.tier,
        a.seed,
        "exploration",
        "twin databases fed the same generated history (200-2000 rows, non-monotonic keys with shared 4-byte prefixes, range deletes emptying leaves, updates of indexed columns incl. to NULL and back, BEGIN..ROLLBACK/COMMIT, TRUNCATE, re-insert of deleted keys; features stratified per history): twin A with PRIMARY KEY + UNIQUE + secondary + composite (a,b) indexes, twin B without any; key types INT/BIGINT/TEXT/DOUBLE/BOOLEAN/DATE/TIMESTAMP. After every few statements: full-scan contents equal, then a probe set (point =, <,<=,>,>=, BETWEEN, IN, LIKE 'p%', IS [NOT] NULL, ORDER BY [DESC] [LIMIT], COUNT(*), composite prefixes, int-vs-float literals) must give equal bags / equal key windows on both twins and on the model; CREATE INDEX / DROP INDEX on twin A must not change any probe answer (before/after). EXPLAIN on twin A says which probes went through an index. evaluations = probes executed; distinct_nontrivial = distinct (history, state, probe) whose plan on twin A is an index scan",
    );
    if cfg!(miri) {
        let mut ctx = ctx;
        ctx.inconclusive("C10 needs file-backed databases (mmap); not runnable under Miri");
        return ctx.finish();
    }
    let quick = ctx.quick();
    let scratch = Scratch::new("c10");
    let mut run = Run { ctx, scratch: &scratch, sigs: BTreeMap::new(), via_index: BTreeMap::new(), via_scan: BTreeMap::new(), shrink_spent: 0.0, shrink_budget: if quick { 15.0 } else { 200.0 }, shrink_runs: 0, quick, err_examples: BTreeMap::new(), families: HashSet::new() };
    let mut rng = Rng::derive(a.seed, 10);
    let explore_budget = if quick { 31.0 } else { 330.0 };
    let hard_budget = if quick { 52.0 } else { 560.0 };
    let mut case_no = 0u64;
    let mut explore_spent = 0.0f64;
    let mut feature_hist: BTreeMap<String, u64> = BTreeMap::new();
    while explore_spent < explore_budget && run.ctx.elapsed() < hard_budget {
        case_no += 1;
        let t_case = Instant::now();
        let shrink_before = run.shrink_spent;
        let case = Case {
            pk: *rng.pick(&[KT::BigInt, KT::BigInt, KT::Int, KT::Text]),
            ut: *rng.pick(&[KT::Int, KT::BigInt, KT::Text, KT::Double, KT::Date, KT::Ts]),
            st: *rng.pick(&[KT::Int, KT::BigInt, KT::Text, KT::Text, KT::Double, KT::Bool, KT::Date, KT::Ts]),
            dt: *rng.pick(&[KT::Int, KT::BigInt, KT::Text, KT::Double, KT::Bool, KT::Date, KT::Ts]),
            with_pk: true,
            with_unique: true,
            with_ix_s: true,
            with_ix_ab: true,
        };
        // stratified features: a fifth of the histories are insert-only, the rest draw a few features
        let mut f = Feats::default();
        if !rng.chance(1, 5) {
            f.deletes = rng.chance(1, 2);
            f.bulk_delete = f.deletes && rng.chance(2, 3);
            f.updates = rng.chance(2, 5);
            f.key_updates = f.updates && rng.chance(1, 3);
            f.rollback = rng.chance(1, 4);
            f.commit_txn = rng.chance(1, 4);
            f.truncate = rng.chance(1, 8);
            f.nulls = rng.chance(1, 2);
            f.reinsert = f.deletes && rng.chance(1, 2);
            f.ddl = rng.chance(1, 3);
        }
        for t in f.tags() {
            *feature_hist.entry(t.to_string()).or_insert(0) += 1;
        }
        let nrows = if quick { rng.usize(200, 600) } else { rng.usize(200, 2000) };
        let mut ids: Vec<i64> = (0..(nrows as i64 * 3)).collect();
        rng.shuffle(&mut ids);
        let mut us: Vec<i64> = (0..(nrows as i64 * 4)).collect();
        rng.shuffle(&mut us);
        let mut g = Gen { id_pool: ids, u_pool: us, serial: 0, s_dom: (nrows as i64 / 6).max(4), d_dom: (nrows as i64 / 10).max(4), truncated: false };
        let case_tag = format!("#{} {} rows~{} features={}", case_no, case.tag(), nrows, f.tags().join("+"));
        let mut tw = match Twins::create(&case, &scratch.dir("A"), &scratch.dir("B")) {
            Ok(t) => t,
            Err(e) => {
                run.ctx.violation("setup", &format!("C10/setup/all/any/error:{}", err_class(&e)), json!({"case": case_tag, "error": e}));
                continue;
            }
        };
        let mut hist: Vec<Op> = vec![];
        let mut hist_sigs: HashSet<String> = HashSet::new();
        let mut plans: HashMap<String, Option<String>> = HashMap::new();
        let mut round = 0u64;
        let mut alive = true;
        // one step of the history; false = stop this history
        let do_op = |run: &mut Run, tw: &mut Twins, hist: &mut Vec<Op>, hist_sigs: &mut HashSet<String>, rng: &mut Rng, op: Op| -> bool {
            let is_ddl = matches!(op, Op::CreateIdx | Op::DropIdx);
            let mut ddl_mis = vec![];
            let st = if is_ddl {
                let mut pg = ProbeGen { rng, out: vec![] };
                probes_for_column(&mut pg, &tw.m, C_D, if matches!(op, Op::CreateIdx) { "created" } else { "dropped" }, case.dt, true);
                let probes = pg.out;
                run.ctx.evals(probes.len() as u64);
                run.ctx.count("ddl_before_after_probes", probes.len() as u64);
                let (st, v) = ddl_judge(tw, &op, &probes);
                ddl_mis = v;
                st
            } else {
                tw.step(&op)
            };
            match st {
                Step::Skipped => true,
                Step::Ok => {
                    hist.push(op.clone());
                    run.ctx.count(&format!("ops:{}", op.kind()), 1);
                    for (p, mis) in ddl_mis {
                        let sig = sig_of(&p, p.ik, &mis);
                        let detail = json!({"sql": p.sql(), "ddl": op.sql(), "fail": mis.detail});
                        run.report(&case, &case_tag, hist, Target::Ddl(p.clone(), sig.clone()), &mis.ids, "ddl_before_after", &sig, detail, hist_sigs);
                    }
                    true
                }
                Step::Diverged(assertion, cause, detail) => {
                    hist.push(op.clone());
                    let sig = op_sig(&case, &op, &cause);
                    run.report(&case, &case_tag, hist, Target::LastOp(sig.clone()), &[], assertion, &sig, detail, hist_sigs);
                    false
                }
                Step::ScanTwinOff(why) => {
                    run.ctx.count("histories_cut_scan_twin_differs_from_model", 1);
                    if run.ctx.samples.len() < 6 {
                        run.ctx.sample(json!({"history_cut": why, "case": case_tag}));
                    }
                    false
                }
            }
        };
        // load in non-monotonic key order
        let mut loaded = 0usize;
        while loaded < nrows && alive {
            let n = rng.usize(20, 120).min(nrows - loaded);
            let rows: Vec<Row> = (0..n).filter_map(|_| gen_row(&mut rng, &case, &f, &mut g, None)).collect();
            loaded += n;
            alive = do_op(&mut run, &mut tw, &mut hist, &mut hist_sigs, &mut rng, Op::Insert(rows));
        }
        if alive {
            round += 1;
            alive = run.probe_round(&case, &case_tag, case_no, &tw, &mut rng, &mut plans, &mut hist_sigs, round, &hist);
        }
        let nops = if quick { rng.usize(8, 20) } else { rng.usize(10, 36) };
        let mut since = 0;
        let mut next_probe = rng.usize(2, 5);
        for _ in 0..nops {
            if !alive || run.ctx.elapsed() > hard_budget {
                break;
            }
            let op = gen_op(&mut rng, &case, &f, &mut g, &tw.m);
            alive = do_op(&mut run, &mut tw, &mut hist, &mut hist_sigs, &mut rng, op);
            since += 1;
            if alive && since >= next_probe {
                since = 0;
                next_probe = rng.usize(2, 5);
                round += 1;
                alive = run.probe_round(&case, &case_tag, case_no, &tw, &mut rng, &mut plans, &mut hist_sigs, round, &hist);
            }
        }
        if alive && tw.m.txn.is_some() {
            let end = if f.rollback { Op::Rollback } else { Op::Commit };
            alive = do_op(&mut run, &mut tw, &mut hist, &mut hist_sigs, &mut rng, end);
        }
        if alive {
            round += 1;
            run.probe_round(&case, &case_tag, case_no, &tw, &mut rng, &mut plans, &mut hist_sigs, round, &hist);
        }
        run.ctx.count("histories", 1);
        if hist_sigs.is_empty() {
            run.ctx.count("histories_without_discrepancy", 1);
        }
        if hist_sigs.iter().all(|s| s.contains("_literal/")) {
            run.ctx.count("histories_without_discrepancy_other_than_literal_class", 1);
        }
        drop(tw);
        let _ = std::fs::remove_dir_all(scratch.root.join("A"));
        let _ = std::fs::remove_dir_all(scratch.root.join("B"));
        explore_spent += t_case.elapsed().as_secs_f64() - (run.shrink_spent - shrink_before);
    }
    let Run { mut ctx, sigs, via_index, via_scan, shrink_runs, shrink_spent, err_examples, .. } = run;
    ctx.extra.insert("probe_errors_not_judged".into(), json!(err_examples.iter().map(|(k, v)| (k.clone(), json!({"count": v.0, "sql": v.1, "error": v.2}))).collect::<BTreeMap<_, _>>()));
    let mut sj = serde_json::Map::new();
    for (s, i) in &sigs {
        sj.insert(s.clone(), json!({"hits": i.hits, "assertion": i.assertion, "first_case": i.first_case, "minimal_history": i.repro, "minimal_history_ops": i.repro_ops, "first_detail": i.detail}));
    }
    ctx.extra.insert("signatures".into(), J::Object(sj));
    ctx.extra.insert("probes_with_index_plan".into(), json!(via_index));
    ctx.extra.insert("probes_with_table_scan_plan".into(), json!(via_scan));
    ctx.extra.insert("history_features".into(), json!(feature_hist));
    ctx.count("shrink_replays", shrink_runs as u64);
    ctx.count("shrink_seconds", shrink_spent as u64);
    ctx.assumptions.push("twin B (no PRIMARY KEY / UNIQUE / indexes) is the reference for twin A; the harness tracks keys so the history never violates a constraint; DATE/TIMESTAMP comparisons against string literals are judged twin-against-twin only (outside the documented dialect); ORDER BY judges sortedness over non-NULL keys only, NULL placement only through LIMIT windows; a history is cut (counted, not judged) once the index-free twin itself departs from the model".into());
    ctx.finish()
}

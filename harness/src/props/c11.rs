//! C11: every stored value reads back unchanged.
//!
//! For every column type of the README "Data Types" table that `OwnedValue` can carry, boundary-stratified
//! values are written by SQL literal and by bound parameter, via INSERT and via UPDATE, and read back by full
//! scan, by primary-key lookup, after a large neighbour row was written, and after close + reopen.
//! Sub-assertion `same_type_same_value`; the expectation is computed by the harness (own calendar arithmetic,
//! own JSON comparison) with the type's documented narrowing applied to the EXPECTATION only.
use crate::report::{catch, Ctx};
use crate::rng::{fnv, Rng};
use crate::sqlm::db::{is_panic, panic_tag, Db, Scratch};
use crate::Args;
use serde_json::{json, Value as J};
use std::collections::BTreeMap;
use turdb::records::jsonb::{JsonbBuilder, JsonbBuilderValue, JsonbValue, JsonbView};
use turdb::records::types::{ColumnDef as RColumnDef, DataType as RDT};
use turdb::OwnedValue as OV;

// ---------------------------------------------------------------------------------------------
// expectations

#[derive(Clone, Debug)]
pub enum Exp {
    /// same variant, same value (floats by bit pattern, NaN by NaN-ness)
    Exact(OV),
    /// REAL: the written f64 or its nearest f32 (documented narrowing), by bit pattern
    FloatAny(Vec<f64>),
    /// DECIMAL, exactly representable values only: Decimal with equal numeric value, or Float equal to it
    DecimalNum(i128, i16),
    /// CHAR(n): padding is undocumented, so only equality after trimming trailing spaces is asserted
    CharTrim(String),
    /// JSONB: compared as JSON values
    Json(J),
    /// TIMESTAMPTZ written by a literal without offset: variant TimestampTz with these micros (offset not judged)
    TsTzMicros(i64),
}

fn f64_same(a: f64, b: f64) -> bool {
    if a.is_nan() {
        b.is_nan()
    } else {
        a.to_bits() == b.to_bits()
    }
}
fn f32_same(a: f32, b: f32) -> bool {
    if a.is_nan() {
        b.is_nan()
    } else {
        a.to_bits() == b.to_bits()
    }
}

fn ov_same(a: &OV, b: &OV) -> bool {
    match (a, b) {
        (OV::Float(x), OV::Float(y)) => f64_same(*x, *y),
        (OV::Vector(x), OV::Vector(y)) => x.len() == y.len() && x.iter().zip(y.iter()).all(|(p, q)| f32_same(*p, *q)),
        (OV::Point(a1, a2), OV::Point(b1, b2)) => f64_same(*a1, *b1) && f64_same(*a2, *b2),
        (OV::Box(a1, a2), OV::Box(b1, b2)) => f64_same(a1.0, b1.0) && f64_same(a1.1, b1.1) && f64_same(a2.0, b2.0) && f64_same(a2.1, b2.1),
        (OV::Circle(a1, r1), OV::Circle(b1, r2)) => f64_same(a1.0, b1.0) && f64_same(a1.1, b1.1) && f64_same(*r1, *r2),
        _ => a == b,
    }
}

pub fn jsonb_to_json(bytes: &[u8]) -> Result<J, String> {
    fn conv(v: JsonbValue<'_>) -> Result<J, String> {
        Ok(match v {
            JsonbValue::Null => J::Null,
            JsonbValue::Bool(b) => J::Bool(b),
            JsonbValue::Number(n) => serde_json::Number::from_f64(n).map(J::Number).ok_or_else(|| format!("non-finite number {}", n))?,
            JsonbValue::String(s) => J::String(s.to_string()),
            JsonbValue::Array(view) => {
                let mut out = vec![];
                for item in view.iter_array().map_err(|e| format!("{:#}", e))? {
                    out.push(conv(item.map_err(|e| format!("{:#}", e))?)?);
                }
                J::Array(out)
            }
            JsonbValue::Object(view) => {
                let mut out = serde_json::Map::new();
                for item in view.iter_object().map_err(|e| format!("{:#}", e))? {
                    let (k, v) = item.map_err(|e| format!("{:#}", e))?;
                    if out.insert(k.to_string(), conv(v)?).is_some() {
                        return Err(format!("duplicate key {:?}", k));
                    }
                }
                J::Object(out)
            }
        })
    }
    let r = catch(|| -> Result<J, String> {
        let view = JsonbView::new(bytes).map_err(|e| format!("{:#}", e))?;
        conv(view.as_value().map_err(|e| format!("{:#}", e))?)
    });
    match r {
        Ok(x) => x,
        Err(p) => Err(format!("PANIC: {}", p)),
    }
}

pub fn json_eq(a: &J, b: &J) -> bool {
    match (a, b) {
        (J::Number(x), J::Number(y)) => x.as_f64() == y.as_f64(),
        (J::Array(x), J::Array(y)) => x.len() == y.len() && x.iter().zip(y.iter()).all(|(p, q)| json_eq(p, q)),
        (J::Object(x), J::Object(y)) => x.len() == y.len() && x.iter().all(|(k, v)| y.get(k).map(|w| json_eq(v, w)).unwrap_or(false)),
        _ => a == b,
    }
}

fn json_to_builder_value(j: &J) -> JsonbBuilderValue {
    match j {
        J::Null => JsonbBuilderValue::Null,
        J::Bool(b) => JsonbBuilderValue::Bool(*b),
        J::Number(n) => JsonbBuilderValue::Number(n.as_f64().unwrap_or(0.0)),
        J::String(s) => JsonbBuilderValue::String(s.clone()),
        J::Array(a) => JsonbBuilderValue::Array(a.iter().map(json_to_builder_value).collect()),
        J::Object(o) => JsonbBuilderValue::Object(o.iter().map(|(k, v)| (k.clone(), json_to_builder_value(v))).collect()),
    }
}

pub fn json_to_jsonb(j: &J) -> Vec<u8> {
    match j {
        J::Null => JsonbBuilder::new_null().build(),
        J::Bool(b) => JsonbBuilder::new_bool(*b).build(),
        J::Number(n) => JsonbBuilder::new_number(n.as_f64().unwrap_or(0.0)).build(),
        J::String(s) => JsonbBuilder::new_string(s.clone()).build(),
        J::Array(a) => {
            let mut b = JsonbBuilder::new_array();
            for x in a {
                b.push(json_to_builder_value(x));
            }
            b.build()
        }
        J::Object(o) => {
            let mut b = JsonbBuilder::new_object();
            for (k, v) in o {
                b.set(k.clone(), json_to_builder_value(v));
            }
            b.build()
        }
    }
}

fn pow10(s: u32) -> i128 {
    10i128.pow(s)
}

/// None = matches; Some(what) = "null" | "wrong_type" | "wrong_value"
pub fn judge(exp: &Exp, got: &OV) -> Option<&'static str> {
    let null_or_type = |got: &OV| if matches!(got, OV::Null) { "null" } else { "wrong_type" };
    match exp {
        Exp::Exact(e) => {
            if ov_same(e, got) {
                None
            } else if std::mem::discriminant(e) == std::mem::discriminant(got) {
                Some("wrong_value")
            } else {
                Some(null_or_type(got))
            }
        }
        Exp::FloatAny(cands) => match got {
            OV::Float(g) => {
                if cands.iter().any(|c| f64_same(*c, *g)) {
                    None
                } else {
                    Some("wrong_value")
                }
            }
            o => Some(null_or_type(o)),
        },
        Exp::DecimalNum(d, s) => match got {
            OV::Decimal(d2, s2) => {
                let (s, s2) = (*s.max(&0) as u32, (*s2).max(0) as u32);
                let m = s.max(s2);
                if m > 30 {
                    return Some("wrong_value");
                }
                if d.checked_mul(pow10(m - s)) == d2.checked_mul(pow10(m - s2)) {
                    None
                } else {
                    Some("wrong_value")
                }
            }
            OV::Float(f) => {
                let want = (*d as f64) / (pow10((*s).max(0) as u32) as f64);
                if *f == want {
                    None
                } else {
                    Some("wrong_value")
                }
            }
            o => Some(null_or_type(o)),
        },
        Exp::CharTrim(s) => match got {
            OV::Text(t) => {
                if t.trim_end_matches(' ') == s.as_str() {
                    None
                } else {
                    Some("wrong_value")
                }
            }
            o => Some(null_or_type(o)),
        },
        Exp::Json(j) => match got {
            OV::Jsonb(b) => match jsonb_to_json(b) {
                Ok(g) if json_eq(j, &g) => None,
                _ => Some("wrong_value"),
            },
            o => Some(null_or_type(o)),
        },
        Exp::TsTzMicros(m) => match got {
            OV::TimestampTz(g, _) => {
                if g == m {
                    None
                } else {
                    Some("wrong_value")
                }
            }
            o => Some(null_or_type(o)),
        },
    }
}

// ---------------------------------------------------------------------------------------------
// value rendering helpers

pub fn lit_text(s: &str) -> String {
    format!("'{}'", s.replace('\'', "''"))
}
pub fn lit_blob(b: &[u8]) -> String {
    let mut s = String::with_capacity(b.len() * 2 + 3);
    s.push_str("X'");
    const H: &[u8; 16] = b"0123456789abcdef";
    for x in b {
        s.push(H[(x >> 4) as usize] as char);
        s.push(H[(x & 15) as usize] as char);
    }
    s.push('\'');
    s
}
/// float literal the lexer reads as a float (shortest round-trip form, always with '.' or exponent)
pub fn lit_f64(f: f64) -> String {
    format!("{:?}", f)
}

/// days since 1970-01-01 of a proleptic Gregorian date (Howard Hinnant's days_from_civil)
pub fn days_from_civil(y: i64, m: i64, d: i64) -> i64 {
    let y = if m <= 2 { y - 1 } else { y };
    let era = if y >= 0 { y } else { y - 399 } / 400;
    let yoe = y - era * 400;
    let mp = (m + 9) % 12;
    let doy = (153 * mp + 2) / 5 + d - 1;
    let doe = yoe * 365 + yoe / 4 - yoe / 100 + doy;
    era * 146097 + doe - 719468
}

fn short(s: &str, n: usize) -> String {
    if s.len() <= n {
        s.to_string()
    } else {
        let mut cut = n;
        while !s.is_char_boundary(cut) {
            cut -= 1;
        }
        format!("{}...<{} bytes total>", &s[..cut], s.len())
    }
}

fn show_ov(v: &OV) -> String {
    let s = match v {
        OV::Text(t) => format!("Text(len={}, {:?})", t.len(), short(t, 80)),
        OV::Blob(b) => format!("Blob(len={}, head={:02x?})", b.len(), &b[..b.len().min(24)]),
        OV::Jsonb(b) => format!("Jsonb(len={}, json={})", b.len(), jsonb_to_json(b).map(|j| short(&j.to_string(), 120)).unwrap_or_else(|e| format!("<undecodable: {}>", e))),
        OV::Vector(x) => format!("Vector(dim={}, head={:?})", x.len(), &x[..x.len().min(6)]),
        OV::Float(f) => format!("Float({:?} bits={:#018x})", f, f.to_bits()),
        OV::ToastPointer(b) => format!("ToastPointer({} bytes)", b.len()),
        other => format!("{:?}", other),
    };
    short(&s, 300)
}
fn show_exp(e: &Exp) -> String {
    match e {
        Exp::Exact(v) => show_ov(v),
        Exp::FloatAny(c) => format!("Float one of {:?}", c),
        Exp::DecimalNum(d, s) => format!("decimal {}e-{}", d, s),
        Exp::CharTrim(s) => format!("Text equal to {:?} after trimming trailing spaces", short(s, 80)),
        Exp::Json(j) => format!("JSON {}", short(&j.to_string(), 160)),
        Exp::TsTzMicros(m) => format!("TimestampTz({}, any offset)", m),
    }
}

/// stable class of an error message: leading words up to the first quoted/numeric detail
pub fn err_class(e: &str) -> String {
    let cut = e.find(|c: char| c == '\'' || c == '"' || c == '`' || c.is_ascii_digit()).unwrap_or(e.len());
    let head = &e[..cut];
    let words: Vec<String> = head.split(|c: char| !c.is_ascii_alphabetic()).filter(|w| !w.is_empty()).take(7).map(|w| w.to_lowercase()).collect();
    if words.is_empty() {
        "error".into()
    } else {
        words.join("_")
    }
}

// ---------------------------------------------------------------------------------------------
// cases

#[derive(Clone, Debug)]
pub struct Case {
    pub class: String,
    pub lit: Option<String>,
    pub param: Option<OV>,
    pub exp: Exp,
    /// multi-MiB value: only INSERT paths, no "update over"
    pub huge: bool,
    /// additionally: after the value was inserted and read, it is overwritten by UPDATE with a small value
    pub then_overwritten: bool,
}

fn case(class: &str, lit: Option<String>, param: Option<OV>, exp: Exp) -> Case {
    Case { class: class.to_string(), lit, param, exp, huge: false, then_overwritten: false }
}

#[derive(Clone, Debug)]
pub struct Plan {
    /// type name used in signatures
    pub ty: &'static str,
    /// SQL column type
    pub col: String,
    /// record-level data type (for the record round-trip read path)
    pub rdt: RDT,
    pub cases: Vec<Case>,
    /// no "update over another value" variants in this plan (the other value would blur the attribution)
    pub no_update_over: bool,
}

const SIZES: &[usize] = &[0, 1, 999, 1000, 1001, 4000, 4001, 16383, 16384, 16385, 70000];

fn storage_class(n: usize) -> &'static str {
    if n <= 1000 {
        "inline"
    } else if n <= 4000 {
        "toast1"
    } else if n < (1 << 20) {
        "toastn"
    } else {
        "mib"
    }
}

const UNI: &[&str] = &["é", "€", "😀", "e\u{301}", "\u{200d}", "𝄞", "日本語", "שלום", "a\u{308}\u{323}", "\u{1F468}\u{200D}\u{1F469}\u{200D}\u{1F467}", "ß", "\u{FFFD}", "\u{10FFFF}"];
const QUO: &[&str] = &["'", "''", "\\", "\\'", "\"", "%", "_", "--", "/*", "*/", ";", "\n", "\t", "\r\n", "\\n", "\\0", "\u{1}", "\u{7f}", "$1", "?", "x'", "')"];

/// text of exactly `n` bytes
pub fn gen_text(rng: &mut Rng, kind: &str, n: usize) -> String {
    let mut s = String::with_capacity(n);
    match kind {
        "ascii" => {
            while s.len() < n {
                s.push((b' ' + rng.below(95) as u8) as char);
            }
            // avoid the single quote so that "ascii" isolates size effects from quoting effects
            s = s.replace('\'', "q");
        }
        "unicode" => {
            while s.len() + 30 <= n {
                { let p: &&str = rng.pick(UNI); s.push_str(p); }
                if rng.chance(1, 3) {
                    s.push((b'a' + rng.below(26) as u8) as char);
                }
            }
        }
        _ => {
            while s.len() + 4 <= n {
                { let p: &&str = rng.pick(QUO); s.push_str(p); }
                if rng.chance(1, 2) {
                    s.push((b'a' + rng.below(26) as u8) as char);
                }
            }
        }
    }
    while s.len() < n {
        s.push('x');
    }
    debug_assert_eq!(s.len(), n);
    s
}

fn text_cases(rng: &mut Rng, kind: &str, sizes: &[usize], char_col: bool) -> Vec<Case> {
    let mut out = vec![];
    for &n in sizes {
        let s = gen_text(rng, kind, n);
        let class = format!("{}_{}_{}", kind, storage_class(n), n);
        let exp = if char_col { Exp::CharTrim(s.trim_end_matches(' ').to_string()) } else { Exp::Exact(OV::Text(s.clone())) };
        let s = if char_col { s.trim_end_matches(' ').to_string() } else { s };
        out.push(case(&class, Some(lit_text(&s)), Some(OV::Text(s)), exp));
    }
    out
}

fn blob_bytes(rng: &mut Rng, kind: &str, n: usize) -> Vec<u8> {
    match kind {
        "bin" => {
            let mut b = rng.bytes(n);
            if n > 0 {
                b[n / 2] = 0xC0; // never valid UTF-8
            }
            b
        }
        "utf8" => gen_text(rng, if n % 2 == 0 { "ascii" } else { "unicode" }, n).into_bytes(),
        "zeros" => vec![0u8; n],
        _ => vec![0xFFu8; n],
    }
}

fn blob_cases(rng: &mut Rng, kind: &str, sizes: &[usize]) -> Vec<Case> {
    sizes
        .iter()
        .map(|&n| {
            let b = blob_bytes(rng, kind, n);
            case(&format!("{}_{}_{}", kind, storage_class(n), n), Some(lit_blob(&b)), Some(OV::Blob(b.clone())), Exp::Exact(OV::Blob(b)))
        })
        .collect()
}

fn int_cases(rng: &mut Rng, lo: i64, hi: i64, tag: &str) -> Vec<Case> {
    let mut vals: Vec<(String, i64)> = vec![(format!("{}_min", tag), lo), (format!("{}_min_plus1", tag), lo + 1), ("minus1".into(), -1), ("zero".into(), 0), ("one".into(), 1), (format!("{}_max_minus1", tag), hi - 1), (format!("{}_max", tag), hi)];
    if tag == "i64" {
        vals.push(("two53_plus1".into(), (1i64 << 53) + 1));
        vals.push(("neg_two53_minus1".into(), -(1i64 << 53) - 1));
    }
    for _ in 0..3 {
        vals.push(("random".into(), rng.range(lo, hi)));
    }
    vals.into_iter().map(|(c, v)| case(&c, Some(v.to_string()), Some(OV::Int(v)), Exp::Exact(OV::Int(v)))).collect()
}

fn float_specials() -> Vec<(&'static str, f64)> {
    vec![("nan", f64::NAN), ("pos_inf", f64::INFINITY), ("neg_inf", f64::NEG_INFINITY)]
}

fn double_cases(rng: &mut Rng) -> Vec<Case> {
    let mut v: Vec<(String, f64)> = vec![
        ("zero".into(), 0.0),
        ("neg_zero".into(), -0.0),
        ("one".into(), 1.0),
        ("tenth".into(), 0.1),
        ("f64_max".into(), f64::MAX),
        ("f64_min".into(), f64::MIN),
        ("min_positive".into(), f64::MIN_POSITIVE),
        ("subnormal_min".into(), 5e-324),
        ("subnormal".into(), 1.2345e-310),
        ("e21".into(), 1e21),
        ("e_minus7".into(), 1.5e-7),
        ("two53_plus2".into(), 9007199254740994.0),
        ("seventeen_digits".into(), 0.30000000000000004),
    ];
    for _ in 0..4 {
        let f = f64::from_bits(rng.next());
        if f.is_finite() {
            v.push(("random_bits".into(), f));
        }
    }
    let mut out: Vec<Case> = v.into_iter().map(|(c, f)| case(&c, Some(lit_f64(f)), Some(OV::Float(f)), Exp::Exact(OV::Float(f)))).collect();
    for (c, f) in float_specials() {
        // no literal syntax exists for NaN / infinities: parameter path only
        out.push(case(c, None, Some(OV::Float(f)), Exp::Exact(OV::Float(f))));
    }
    // an integer literal written into a floating column must read back as that number
    out.push(case("int_literal", Some("5".into()), None, Exp::Exact(OV::Float(5.0))));
    out
}

fn real_cases(rng: &mut Rng) -> Vec<Case> {
    // only values within the f32 range; expectation = the f64 written or its nearest f32
    let mut v: Vec<(String, f64)> = vec![
        ("zero".into(), 0.0),
        ("neg_zero".into(), -0.0),
        ("one_and_half".into(), 1.5),
        ("tenth".into(), 0.1),
        ("f32_max".into(), f32::MAX as f64),
        ("f32_min".into(), f32::MIN as f64),
        ("f32_min_positive".into(), f32::MIN_POSITIVE as f64),
        ("f32_subnormal_min".into(), f32::from_bits(1) as f64),
        ("f32_exact".into(), 16777217.0f32 as f64),
        ("needs_rounding".into(), 16777217.0),
    ];
    for _ in 0..4 {
        let f = f32::from_bits(rng.next() as u32);
        if f.is_finite() {
            v.push(("random_f32_bits".into(), f as f64));
        }
    }
    let mut out: Vec<Case> = v.into_iter().map(|(c, f)| case(&c, Some(lit_f64(f)), Some(OV::Float(f)), Exp::FloatAny(vec![f, (f as f32) as f64]))).collect();
    for (c, f) in float_specials() {
        out.push(case(c, None, Some(OV::Float(f)), Exp::FloatAny(vec![f])));
    }
    out.push(case("int_literal", Some("5".into()), None, Exp::FloatAny(vec![5.0])));
    out
}

fn decimal_cases(rng: &mut Rng) -> Vec<Case> {
    // values exactly representable in binary floating point and in DECIMAL(20,4)
    let mut v: Vec<(String, i128, i16)> = vec![("zero".into(), 0, 0), ("one".into(), 1, 0), ("minus_one".into(), -1, 0), ("half".into(), 5, 1), ("quarter_frac".into(), 12325, 2), ("neg_sixteenth".into(), -999990625, 4), ("two53".into(), 1i128 << 53, 0), ("small_frac".into(), 625, 4)];
    for _ in 0..3 {
        let whole = rng.range(-1_000_000, 1_000_000) as i128;
        let q = rng.below(16) as i128; // sixteenths: k/16 has at most 4 decimals
        let sign: i128 = if whole < 0 { -1 } else { 1 };
        v.push(("random_sixteenths".into(), whole * 10000 + sign * q * 625, 4));
    }
    v.into_iter()
        .map(|(c, d, s)| {
            let lit = {
                let neg = d < 0;
                let a = d.unsigned_abs();
                let p = 10u128.pow(s as u32);
                // always a decimal point, so that the lexer yields a float/decimal literal
                format!("{}{}.{:0>w$}", if neg { "-" } else { "" }, a / p, a % p, w = (s as usize).max(1))
            };
            case(&c, Some(lit), Some(OV::Decimal(d, s)), Exp::DecimalNum(d, s))
        })
        .chain(std::iter::once(case("int_literal", Some("5".into()), None, Exp::DecimalNum(5, 0))))
        .collect()
}

fn date_civil(rng: &mut Rng) -> Vec<(String, (i64, i64, i64))> {
    let mut v: Vec<(String, (i64, i64, i64))> = vec![
        ("year1_first_day".into(), (1, 1, 1)),
        ("year1_last_day".into(), (1, 12, 31)),
        ("year9999_last_day".into(), (9999, 12, 31)),
        ("pre1970_last_day".into(), (1969, 12, 31)),
        ("epoch".into(), (1970, 1, 1)),
        ("leap_day_2000".into(), (2000, 2, 29)),
        ("century_non_leap_1900".into(), (1900, 3, 1)),
        ("gregorian_gap_1582".into(), (1582, 10, 10)),
        ("y2038".into(), (2038, 1, 19)),
    ];
    for _ in 0..3 {
        let y = rng.range(1, 9999);
        let m = rng.range(1, 12);
        let d = rng.range(1, 28);
        v.push((if y < 1970 { "random_pre1970".into() } else { "random".into() }, (y, m, d)));
    }
    v
}

fn date_cases(rng: &mut Rng) -> Vec<Case> {
    date_civil(rng)
        .into_iter()
        .map(|(c, (y, m, d))| {
            let days = days_from_civil(y, m, d) as i32;
            case(&c, Some(format!("'{:04}-{:02}-{:02}'", y, m, d)), Some(OV::Date(days)), Exp::Exact(OV::Date(days)))
        })
        .collect()
}

fn times(rng: &mut Rng) -> Vec<(String, (i64, i64, i64, i64))> {
    let mut v: Vec<(String, (i64, i64, i64, i64))> = vec![("midnight".into(), (0, 0, 0, 0)), ("last_second".into(), (23, 59, 59, 0)), ("last_microsecond".into(), (23, 59, 59, 999_999)), ("one_microsecond".into(), (0, 0, 0, 1)), ("half_second".into(), (12, 34, 56, 500_000)), ("hundredths".into(), (1, 2, 3, 120_000)), ("millis".into(), (4, 5, 6, 7_000)), ("six_digit_fraction".into(), (7, 8, 9, 123_456))];
    for _ in 0..2 {
        v.push(("random".into(), (rng.range(0, 23), rng.range(0, 59), rng.range(0, 59), rng.range(0, 999_999))));
    }
    v
}
fn time_str(h: i64, mi: i64, s: i64, us: i64) -> String {
    if us == 0 {
        format!("{:02}:{:02}:{:02}", h, mi, s)
    } else {
        // the usual notation: trailing zeros of the fraction are not written ('.5' is half a second)
        let frac = format!("{:06}", us);
        format!("{:02}:{:02}:{:02}.{}", h, mi, s, frac.trim_end_matches('0'))
    }
}
fn time_cases(rng: &mut Rng) -> Vec<Case> {
    times(rng)
        .into_iter()
        .map(|(c, (h, mi, s, us))| {
            let micros = ((h * 60 + mi) * 60 + s) * 1_000_000 + us;
            case(&c, Some(format!("'{}'", time_str(h, mi, s, us))), Some(OV::Time(micros)), Exp::Exact(OV::Time(micros)))
        })
        .collect()
}

fn timestamp_cases(rng: &mut Rng, tz: bool) -> Vec<Case> {
    let ds = date_civil(rng);
    let ts = times(rng);
    let mut out = vec![];
    for (i, (dc, (y, m, d))) in ds.iter().enumerate() {
        let (tc, (h, mi, s, us)) = &ts[i % ts.len()];
        let micros = days_from_civil(*y, *m, *d) * 86_400_000_000 + ((h * 60 + mi) * 60 + s) * 1_000_000 + us;
        let sep = if i % 2 == 0 { " " } else { "T" };
        let lit = format!("'{:04}-{:02}-{:02}{}{}'", y, m, d, sep, time_str(*h, *mi, *s, *us));
        let class = format!("{}_{}", dc, tc);
        if tz {
            // literal without offset: the assumed offset is undocumented, so only the instant's micros are judged
            out.push(case(&class, Some(lit), None, Exp::TsTzMicros(micros)));
            let off = *rng.pick(&[0i32, 3600, -18000, 19800, 50400, -43200]);
            out.push(case(&format!("{}_offset", class), None, Some(OV::TimestampTz(micros, off)), Exp::Exact(OV::TimestampTz(micros, off))));
        } else {
            out.push(case(&class, Some(lit), Some(OV::Timestamp(micros)), Exp::Exact(OV::Timestamp(micros))));
        }
    }
    out
}

fn interval_cases(rng: &mut Rng) -> Vec<Case> {
    let mut out = vec![];
    // (class, literal, micros, days, months)
    let fixed: Vec<(&str, &str, i64, i32, i32)> = vec![
        ("pg_units", "1 year 2 months 3 days 4 hours 5 minutes 6 seconds", ((4 * 60 + 5) * 60 + 6) * 1_000_000, 3, 14),
        ("pg_days_only", "40 days", 0, 40, 0),
        ("pg_zero", "0 seconds", 0, 0, 0),
        ("iso8601", "P1Y2M3DT4H5M6S", ((4 * 60 + 5) * 60 + 6) * 1_000_000, 3, 14),
        ("iso8601_weeks", "P2W", 0, 14, 0),
        ("pg_microseconds", "7 microseconds", 7, 0, 0),
    ];
    for (c, l, us, d, m) in fixed {
        out.push(case(c, Some(format!("'{}'", l)), Some(OV::Interval(us, d, m)), Exp::Exact(OV::Interval(us, d, m))));
    }
    // extremes have no literal form that is documented: parameter path only
    for (c, us, d, m) in [("extreme_min", i64::MIN, i32::MIN, i32::MIN), ("extreme_max", i64::MAX, i32::MAX, i32::MAX), ("negative", -1i64, -1i32, -1i32)] {
        out.push(case(c, None, Some(OV::Interval(us, d, m)), Exp::Exact(OV::Interval(us, d, m))));
    }
    for _ in 0..2 {
        let (us, d, m) = (rng.next() as i64, rng.next() as i32, rng.next() as i32);
        out.push(case("random_bits", None, Some(OV::Interval(us, d, m)), Exp::Exact(OV::Interval(us, d, m))));
    }
    out
}

fn uuid_cases(rng: &mut Rng) -> Vec<Case> {
    let mut v: Vec<(String, [u8; 16])> = vec![("nil".into(), [0; 16]), ("all_ff".into(), [0xff; 16]), ("fe_first".into(), [0xfe; 16])];
    for _ in 0..3 {
        let mut u = [0u8; 16];
        u.copy_from_slice(&rng.bytes(16));
        v.push(("random".into(), u));
    }
    let mut out = vec![];
    for (i, (c, u)) in v.into_iter().enumerate() {
        let h: String = u.iter().map(|b| format!("{:02x}", b)).collect();
        let mut s = format!("{}-{}-{}-{}-{}", &h[0..8], &h[8..12], &h[12..16], &h[16..20], &h[20..32]);
        if i % 2 == 1 {
            s = s.to_uppercase();
        }
        out.push(case(&c, Some(format!("'{}'", s)), Some(OV::Uuid(u)), Exp::Exact(OV::Uuid(u))));
    }
    out
}

fn gen_json(rng: &mut Rng, depth: u32) -> J {
    let k = if depth == 0 { rng.below(5) } else { rng.below(7) };
    match k {
        0 => J::Null,
        1 => J::Bool(rng.chance(1, 2)),
        2 => {
            if rng.chance(1, 2) {
                json!(rng.range(-1_000_000, 1_000_000))
            } else {
                let f = f64::from_bits(rng.next());
                if f.is_finite() {
                    json!(f)
                } else {
                    json!(0.5)
                }
            }
        }
        3 | 4 => {
            let n = rng.usize(0, 12);
            let kind = *rng.pick(&["ascii", "unicode", "quotes"]);
            J::String(json_safe(&gen_text(rng, kind, n)))
        }
        5 => J::Array((0..rng.usize(0, 4)).map(|_| gen_json(rng, depth - 1)).collect()),
        _ => {
            let mut m = serde_json::Map::new();
            for i in 0..rng.usize(0, 4) {
                let kind = *rng.pick(&["ascii", "unicode"]);
                let klen = rng.usize(0, 6);
                let key = format!("{}{}", json_safe(&gen_text(rng, kind, klen)), i);
                m.insert(key, gen_json(rng, depth - 1));
            }
            J::Object(m)
        }
    }
}
/// strings whose JSON text form uses only the escapes RFC 8259 requires every parser to accept in the short forms
/// \" \\ \n \r \t (serde_json writes \b, \f and \u00XX for other control characters: kept out of the generic
/// generator and probed by dedicated classes)
fn json_safe(s: &str) -> String {
    s.chars().filter(|c| !c.is_control() || matches!(c, '\n' | '\r' | '\t')).collect()
}

fn jsonb_cases(rng: &mut Rng, thorough: bool) -> Vec<Case> {
    let mut docs: Vec<(String, J)> = vec![
        ("null".into(), J::Null),
        ("true".into(), json!(true)),
        ("number_int".into(), json!(42)),
        ("number_neg_frac".into(), json!(-0.125)),
        ("number_f64_max".into(), json!(f64::MAX)),
        ("number_two53_plus2".into(), json!(9007199254740994i64)),
        ("string_empty".into(), json!("")),
        ("string_unicode".into(), json!("日本語 😀 e\u{301}")),
        ("string_structural_chars".into(), json!("a,b:c{d}[e]\"f\\g'h")),
        ("empty_object".into(), json!({})),
        ("empty_array".into(), json!([])),
        ("flat_object".into(), json!({"name": "Alice", "age": 30, "ok": true, "none": null})),
        ("nested".into(), json!({"a": {"b": {"c": [1, 2, {"d": [[], {}]}]}}, "e": [[1, [2, [3]]]]})),
        ("object_key_empty".into(), json!({"": 1})),
        ("object_key_unicode_and_quote".into(), json!({"ключ'\"": "v", "k,2:": [true]})),
        ("string_escape_bs_ff".into(), json!("a\u{8}b\u{c}c")),
        ("string_escape_u00xx".into(), json!("a\u{1}b\u{1f}c")),
        ("whitespace_string".into(), json!(" \t lead and trail \n ")),
    ];
    // documents above the TOAST threshold
    let big_arr: Vec<J> = (0..400).map(|i| json!(i * 7)).collect();
    docs.push(("big_array_toast".into(), J::Array(big_arr)));
    docs.push(("big_string_toast_5000".into(), J::String(gen_text(rng, "ascii", 5000))));
    {
        // larger than one 16 KiB page
        let mut m = serde_json::Map::new();
        for i in 0..300 {
            m.insert(format!("key{}", i), json!({"i": i, "s": gen_text(rng, "ascii", 10)}));
        }
        docs.push(("big_object_over_page".into(), J::Object(m)));
    }
    if thorough {
        docs.push(("big_string_toast_70000".into(), J::String(gen_text(rng, "unicode", 70000))));
    }
    for _ in 0..(if thorough { 12 } else { 5 }) {
        docs.push(("random_doc".into(), gen_json(rng, 3)));
    }
    docs.into_iter().map(|(c, j)| case(&c, Some(lit_text(&serde_json::to_string(&j).unwrap())), Some(OV::Jsonb(json_to_jsonb(&j))), Exp::Json(j))).collect()
}

fn vector_cases(rng: &mut Rng, dim: usize) -> Vec<Case> {
    let mut out = vec![];
    let specials = [0.0f32, -0.0, 1.0, -1.5, f32::MAX, f32::MIN, f32::MIN_POSITIVE, f32::from_bits(1), 0.1, 16777216.0, 1e-10, 3.4e38];
    let mk = |class: &str, v: Vec<f32>, lit: bool| {
        let l = format!("'[{}]'", v.iter().map(|f| format!("{:?}", f)).collect::<Vec<_>>().join(", "));
        case(&format!("{}_dim{}", class, dim), if lit { Some(l) } else { None }, Some(OV::Vector(v.clone())), Exp::Exact(OV::Vector(v)))
    };
    out.push(mk("zeros", vec![0.0; dim], true));
    out.push(mk("boundary_values", (0..dim).map(|i| specials[i % specials.len()]).collect(), true));
    out.push(mk("random_bits", (0..dim).map(|_| { let f = f32::from_bits(rng.next() as u32); if f.is_finite() { f } else { 1.0 } }).collect(), true));
    out.push(mk("random_unit", (0..dim).map(|_| (rng.f64() * 2.0 - 1.0) as f32).collect(), true));
    // NaN / infinities: no documented literal form, parameter path only
    out.push(mk("nan_inf", (0..dim).map(|i| [f32::NAN, f32::INFINITY, f32::NEG_INFINITY, 1.0][i % 4]).collect(), false));
    out
}

fn inet_cases(rng: &mut Rng) -> Vec<Case> {
    // no SQL literal form exists for INET (a string literal is taken as text): parameter path only
    let mut out = vec![];
    for (c, ip) in [("v4_zero", [0u8; 4]), ("v4_broadcast", [255; 4]), ("v4_private", [192, 168, 0, 1])] {
        out.push(case(c, None, Some(OV::Inet4(ip)), Exp::Exact(OV::Inet4(ip))));
    }
    let mut lo = [0u8; 16];
    lo[15] = 1;
    let mut r = [0u8; 16];
    r.copy_from_slice(&rng.bytes(16));
    let mut mapped = [0u8; 16];
    mapped[10] = 0xff;
    mapped[11] = 0xff;
    mapped[12..].copy_from_slice(&[10, 0, 0, 1]);
    for (c, ip) in [("v6_unspecified", [0u8; 16]), ("v6_loopback", lo), ("v6_all_ff", [0xff; 16]), ("v6_random", r), ("v6_v4mapped", mapped)] {
        out.push(case(c, None, Some(OV::Inet6(ip)), Exp::Exact(OV::Inet6(ip))));
    }
    out
}

fn macaddr_cases(rng: &mut Rng) -> Vec<Case> {
    let mut r = [0u8; 6];
    r.copy_from_slice(&rng.bytes(6));
    [("zero", [0u8; 6]), ("broadcast", [0xff; 6]), ("random", r)].into_iter().map(|(c, m)| case(c, None, Some(OV::MacAddr(m)), Exp::Exact(OV::MacAddr(m)))).collect()
}

fn geo_floats(rng: &mut Rng) -> Vec<(&'static str, Vec<f64>)> {
    vec![
        ("zeros", vec![0.0; 5]),
        ("neg_zero", vec![-0.0; 5]),
        ("ordinary", vec![1.5, -2.25, 3.0, 4.75, 0.1]),
        ("extremes", vec![f64::MAX, f64::MIN, f64::MIN_POSITIVE, 5e-324, -5e-324]),
        ("nan_inf", vec![f64::NAN, f64::INFINITY, f64::NEG_INFINITY, f64::NAN, f64::INFINITY]),
        ("random", (0..5).map(|_| (rng.f64() - 0.5) * 1e6).collect()),
    ]
}
fn point_cases(rng: &mut Rng) -> Vec<Case> {
    geo_floats(rng).into_iter().map(|(c, f)| case(c, None, Some(OV::Point(f[0], f[1])), Exp::Exact(OV::Point(f[0], f[1])))).collect()
}
fn box_cases(rng: &mut Rng) -> Vec<Case> {
    geo_floats(rng).into_iter().map(|(c, f)| case(c, None, Some(OV::Box((f[0], f[1]), (f[2], f[3]))), Exp::Exact(OV::Box((f[0], f[1]), (f[2], f[3]))))).collect()
}
fn circle_cases(rng: &mut Rng) -> Vec<Case> {
    geo_floats(rng).into_iter().map(|(c, f)| case(c, None, Some(OV::Circle((f[0], f[1]), f[4])), Exp::Exact(OV::Circle((f[0], f[1]), f[4])))).collect()
}

fn random_sizes(rng: &mut Rng, n: usize, max: usize) -> Vec<usize> {
    (0..n)
        .map(|_| match rng.below(4) {
            0 => rng.usize(2, 998),
            1 => rng.usize(1002, 3999),
            2 => rng.usize(4002, 16000),
            _ => rng.usize(16386, max),
        })
        .collect()
}

pub fn build_plans(rng: &mut Rng, quick: bool, miri: bool) -> Vec<Plan> {
    let thorough = !quick;
    let mut plans: Vec<Plan> = vec![];
    let mut add = |ty: &'static str, col: &str, rdt: RDT, cases: Vec<Case>| plans.push(Plan { ty, col: col.to_string(), rdt, cases, no_update_over: false });
    let rounds = if quick { 1 } else { 4 };
    for round in 0..rounds {
        add("BOOLEAN", "BOOLEAN", RDT::Bool, vec![case("true", Some("TRUE".into()), Some(OV::Bool(true)), Exp::Exact(OV::Bool(true))), case("false", Some("FALSE".into()), Some(OV::Bool(false)), Exp::Exact(OV::Bool(false)))]);
        add("SMALLINT", "SMALLINT", RDT::Int2, int_cases(rng, i16::MIN as i64, i16::MAX as i64, "i16"));
        add("INT", "INT", RDT::Int4, int_cases(rng, i32::MIN as i64, i32::MAX as i64, "i32"));
        add("BIGINT", "BIGINT", RDT::Int8, int_cases(rng, i64::MIN, i64::MAX, "i64"));
        add("REAL", "REAL", RDT::Float4, real_cases(rng));
        add("DOUBLE", "DOUBLE PRECISION", RDT::Float8, double_cases(rng));
        add("DECIMAL", "DECIMAL(20,4)", RDT::Decimal, decimal_cases(rng));
        add("DATE", "DATE", RDT::Date, date_cases(rng));
        add("TIME", "TIME", RDT::Time, time_cases(rng));
        add("TIMESTAMP", "TIMESTAMP", RDT::Timestamp, timestamp_cases(rng, false));
        add("TIMESTAMPTZ", "TIMESTAMPTZ", RDT::TimestampTz, timestamp_cases(rng, true));
        add("INTERVAL", "INTERVAL", RDT::Interval, interval_cases(rng));
        add("UUID", "UUID", RDT::Uuid, uuid_cases(rng));
        add("JSONB", "JSONB", RDT::Jsonb, jsonb_cases(rng, thorough));
        add("INET", "INET", RDT::Inet6, inet_cases(rng));
        add("MACADDR", "MACADDR", RDT::MacAddr, macaddr_cases(rng));
        add("POINT", "POINT", RDT::Point, point_cases(rng));
        add("BOX", "BOX", RDT::Box, box_cases(rng));
        add("CIRCLE", "CIRCLE", RDT::Circle, circle_cases(rng));
        let dims: &[usize] = if miri {
            &[3]
        } else if quick {
            &[1, 3, 128, 300]
        } else {
            &[1, 2, 3, 16, 128, 250, 251, 768, 1536, 4200]
        };
        for &d in dims {
            add("VECTOR", &format!("VECTOR({})", d), RDT::Vector, vector_cases(rng, d));
        }
        // CHAR(n): values of at most n bytes, no trailing spaces
        for n in [1usize, 8, 64] {
            let mut cs = vec![];
            for kind in ["ascii", "unicode", "quotes"] {
                let sizes: Vec<usize> = if n == 1 { vec![0, 1] } else { vec![0, 1, n / 2, n - 1, n] };
                cs.extend(text_cases(rng, kind, &sizes, true));
            }
            add("CHAR", &format!("CHAR({})", n), RDT::Char, cs);
        }
        // VARCHAR(n), lengths in bytes up to exactly n
        {
            let mut cs = vec![];
            for kind in ["ascii", "unicode"] {
                cs.extend(text_cases(rng, kind, &[0, 1, 9, 10], false));
            }
            add("VARCHAR", "VARCHAR(10)", RDT::Varchar, cs);
            let sizes: Vec<usize> = if miri { vec![0, 1, 1001] } else { SIZES.iter().copied().chain(random_sizes(rng, 3, 69_000)).collect() };
            for kind in ["ascii", "unicode"] {
                add("VARCHAR", "VARCHAR(70000)", RDT::Varchar, text_cases(rng, kind, &sizes, false));
            }
        }
        let extra = if quick { 3 } else { 8 };
        for kind in ["ascii", "unicode", "quotes"] {
            let sizes: Vec<usize> = if miri { vec![0, 1, 1001] } else { SIZES.iter().copied().chain(random_sizes(rng, extra, 200_000)).collect() };
            add("TEXT", "TEXT", RDT::Text, text_cases(rng, kind, &sizes, false));
        }
        for kind in ["bin", "utf8", "zeros", "ones"] {
            let sizes: Vec<usize> = if miri {
                vec![0, 1, 17, 1001]
            } else if kind == "bin" || kind == "utf8" {
                SIZES.iter().copied().chain(random_sizes(rng, extra, 200_000)).collect()
            } else {
                vec![1, 17, 1000, 1001, 4001]
            };
            let cs = blob_cases(rng, kind, &sizes);
            add("BLOB", "BLOB", RDT::Blob, cs);
        }
        if round == 0 {
            // a 17-byte value starting with 0xFE has the shape of an internal TOAST pointer (marker, size, chunk id);
            // own database, so that whatever it does to the table is attributed to it
            let mut b = rng.bytes(17);
            b[0] = 0xFE;
            b[8] |= 0x80; // as a "pointer" it would announce more than 2^63 bytes
            let mut fe = case("bin_inline_17_fe_first", Some(lit_blob(&b)), Some(OV::Blob(b.clone())), Exp::Exact(OV::Blob(b)));
            fe.then_overwritten = true;
            let mut plain = rng.bytes(17);
            plain[0] = 0x7E;
            let plain = case("bin_inline_17", Some(lit_blob(&plain)), Some(OV::Blob(plain.clone())), Exp::Exact(OV::Blob(plain)));
            add("BLOB", "BLOB", RDT::Blob, vec![plain, fe]);
        }
        // multi-MiB values: a small stratum
        if !miri && (round == 0) {
            let n_huge = if quick { 1 } else { 3 };
            for i in 0..n_huge {
                let n = rng.usize(2 << 20, if quick { (2 << 20) + 4096 } else { 5 << 20 });
                let kind = ["unicode", "ascii", "quotes"][i % 3];
                let s = gen_text(rng, kind, n);
                let mut c = case(&format!("{}_mib_{}MiB", kind, n >> 20), Some(lit_text(&s)), Some(OV::Text(s.clone())), Exp::Exact(OV::Text(s)));
                c.huge = true;
                add("TEXT", "TEXT", RDT::Text, vec![c]);
                let n = rng.usize(2 << 20, if quick { (2 << 20) + 4096 } else { 5 << 20 });
                let bk = ["bin", "utf8", "bin"][i % 3];
                let b = blob_bytes(rng, bk, n);
                let mut c = case(&format!("{}_mib_{}MiB", bk, n >> 20), Some(lit_blob(&b)), Some(OV::Blob(b.clone())), Exp::Exact(OV::Blob(b)));
                c.huge = true;
                add("BLOB", "BLOB", RDT::Blob, vec![c]);
            }
        }
    }
    for p in plans.iter_mut() {
        if p.cases.iter().any(|c| c.then_overwritten) {
            p.no_update_over = true;
        }
    }
    plans
}


// ---------------------------------------------------------------------------------------------
// event sink: the TurDB calls run on a worker thread so that a call that never returns becomes a recorded
// violation (`hang`) instead of a stuck run

pub enum Ev {
    Eval,
    Count(String, u64),
    Nontrivial(u64),
    Sample(J),
    Violation(String, String, J),
    Inconclusive(String),
    /// what the worker is about to do (signature fragment used if it never comes back)
    Current(String, J),
    Tally(String),
    /// watchdog limit (seconds) for the calls that follow; 0 = back to the default
    Limit(u64),
    Done,
}

#[derive(Clone)]
pub struct Sink(pub std::sync::mpsc::Sender<Ev>);

impl Sink {
    pub fn eval(&self) {
        let _ = self.0.send(Ev::Eval);
    }
    pub fn count(&self, k: &str, n: u64) {
        let _ = self.0.send(Ev::Count(k.to_string(), n));
    }
    pub fn nontrivial(&self, h: u64) {
        let _ = self.0.send(Ev::Nontrivial(h));
    }
    pub fn sample(&self, j: J) {
        let _ = self.0.send(Ev::Sample(j));
    }
    pub fn violation(&self, assertion: &str, sig: &str, detail: J) {
        let _ = self.0.send(Ev::Violation(assertion.to_string(), sig.to_string(), detail));
    }
    pub fn inconclusive(&self, r: &str) {
        let _ = self.0.send(Ev::Inconclusive(r.to_string()));
    }
    pub fn current(&self, frag: String, detail: J) {
        let _ = self.0.send(Ev::Current(frag, detail));
    }
    pub fn tally(&self, k: String) {
        let _ = self.0.send(Ev::Tally(k));
    }
    pub fn limit(&self, secs: u64) {
        let _ = self.0.send(Ev::Limit(secs));
    }
    pub fn done(&self) {
        let _ = self.0.send(Ev::Done);
    }
}

/// apply the worker's events to `ctx` until it is done; Err((fragment, detail)) if no event arrived for `limit`
pub fn pump(ctx: &mut Ctx, rx: &std::sync::mpsc::Receiver<Ev>, limit: std::time::Duration, tally: &mut BTreeMap<String, u64>) -> Result<(), (String, J)> {
    let mut cur: (String, J) = ("start".to_string(), J::Null);
    let debug = std::env::var("TV_DEBUG").is_ok();
    let mut cur_limit = limit;
    loop {
        match rx.recv_timeout(cur_limit) {
            Ok(Ev::Eval) => ctx.eval(),
            Ok(Ev::Count(k, n)) => ctx.count(&k, n),
            Ok(Ev::Nontrivial(h)) => ctx.nontrivial(h),
            Ok(Ev::Sample(j)) => ctx.sample(j),
            Ok(Ev::Limit(n)) => cur_limit = if n == 0 { limit } else { std::time::Duration::from_secs(n) },
            Ok(Ev::Violation(a, s, d)) => {
                if debug && !tally.contains_key(&format!("sig:{}", s)) {
                    eprintln!("VIOL {} {}", s, short(&d.to_string(), 900));
                }
                *tally.entry(format!("sig:{}", s)).or_insert(0) += 1;
                ctx.violation(&a, &s, d);
            }
            Ok(Ev::Inconclusive(r)) => ctx.inconclusive(&r),
            Ok(Ev::Current(f, d)) => cur = (f, d),
            Ok(Ev::Tally(k)) => *tally.entry(k).or_insert(0) += 1,
            Ok(Ev::Done) => return Ok(()),
            Err(std::sync::mpsc::RecvTimeoutError::Timeout) => return Err(cur),
            Err(std::sync::mpsc::RecvTimeoutError::Disconnected) => return Ok(()),
        }
    }
}

// ---------------------------------------------------------------------------------------------
// execution

fn exec_params(db: &Db, sql: &str, params: &[OV]) -> Result<turdb::ExecuteResult, String> {
    match catch(|| db.db.execute_with_params(sql, params)) {
        Ok(Ok(r)) => Ok(r),
        Ok(Err(e)) => Err(format!("{:#}", e)),
        Err(p) => Err(format!("PANIC: {}", p)),
    }
}
fn exec_sql(db: &Db, sql: &str) -> Result<turdb::ExecuteResult, String> {
    match catch(|| db.db.execute(sql)) {
        Ok(Ok(r)) => Ok(r),
        Ok(Err(e)) => Err(format!("{:#}", e)),
        Err(p) => Err(format!("PANIC: {}", p)),
    }
}
fn query_raw(db: &Db, sql: &str) -> Result<Vec<turdb::Row>, String> {
    match catch(|| db.db.query(sql)) {
        Ok(Ok(r)) => Ok(r),
        Ok(Err(e)) => Err(format!("{:#}", e)),
        Err(p) => Err(format!("PANIC: {}", p)),
    }
}

fn what_of_err(e: &str) -> String {
    if is_panic(e) {
        format!("panic:{}", panic_tag(e))
    } else {
        format!("error:{}", err_class(e))
    }
}

#[derive(Clone)]
struct Variant {
    id: i64,
    case_idx: usize,
    write: &'static str,
    op: &'static str,
    stmts: Vec<String>,
    /// expectation if it is not the case's own (row overwritten afterwards)
    exp_override: Option<Exp>,
}

struct Runner<'a> {
    ctx: &'a Sink,
    plan: &'a Plan,
    create: String,
}

impl<'a> Runner<'a> {
    fn sig(&self, c: &Case, v: &Variant, read: &str, what: &str) -> String {
        format!("C11/{}/{}/{}/{}/{}/{}", self.plan.ty, c.class, v.write, v.op, read, what)
    }
    fn report(&mut self, c: &Case, v: &Variant, read: &str, what: &str, got: Option<&OV>, err: Option<&str>) {
        let sig = self.sig(c, v, read, what);
        self.ctx.tally(format!("{}/{}", self.plan.ty, what.split(':').next().unwrap_or(what)));
        let detail = json!({
            "create": self.create,
            "statements": v.stmts.iter().map(|s| short(s, 400)).collect::<Vec<_>>(),
            "param": c.param.as_ref().filter(|_| v.write == "param").map(show_ov),
            "read_path": read,
            "expected": show_exp(v.exp_override.as_ref().unwrap_or(&c.exp)),
            "got": got.map(show_ov),
            "error": err.map(|e| short(e, 400)),
        });
        self.ctx.violation("same_type_same_value", &sig, detail);
    }
    /// announce the next TurDB call (used for the signature if it never returns)
    fn mark(&self, c: &Case, v: &Variant, read: &str) {
        self.ctx.current(format!("{}/{}/{}/{}/{}", self.plan.ty, c.class, v.write, v.op, read), json!({"create": self.create, "statements": v.stmts.iter().map(|s| short(s, 400)).collect::<Vec<_>>(), "about_to": read}));
    }
    /// compare one observed value
    fn check(&mut self, c: &Case, v: &Variant, read: &str, got: Result<Option<OV>, String>) -> bool {
        match got {
            Ok(Some(g)) => match judge(v.exp_override.as_ref().unwrap_or(&c.exp), &g) {
                None => true,
                Some(w) => {
                    self.report(c, v, read, w, Some(&g), None);
                    false
                }
            },
            Ok(None) => {
                self.report(c, v, read, "missing_row", None, None);
                false
            }
            Err(e) => {
                let w = what_of_err(&e);
                self.report(c, v, read, &w, None, Some(&e));
                false
            }
        }
    }
}

fn find_in_scan(rows: &Result<Vec<turdb::Row>, String>, id: i64) -> Result<Option<OV>, String> {
    match rows {
        Err(e) => Err(e.clone()),
        Ok(rows) => {
            let mut hit: Option<OV> = None;
            let mut n = 0;
            for r in rows {
                if r.values.len() == 2 && matches!(&r.values[0], OV::Int(i) if *i == id) {
                    hit = Some(r.values[1].clone());
                    n += 1;
                }
            }
            if n > 1 {
                return Err(format!("duplicate rows for id {} in scan ({} copies)", id, n));
            }
            Ok(hit)
        }
    }
}
fn pk_lookup(db: &Db, id: i64) -> Result<Option<OV>, String> {
    let rows = query_raw(db, &format!("SELECT v FROM t WHERE id = {}", id))?;
    match rows.len() {
        0 => Ok(None),
        1 => rows[0].values.get(0).cloned().map(Some).ok_or_else(|| "row without columns".to_string()),
        n => Err(format!("duplicate rows for id {} in primary key lookup ({} copies)", id, n)),
    }
}

fn run_plan(ctx: &Sink, path: &std::path::Path, idx: usize, plan: &Plan, rng: &mut Rng, neighbour: &str) {
    let _ = std::fs::remove_dir_all(path);
    let mut db = match Db::create(path) {
        Ok(d) => d,
        Err(e) => {
            ctx.inconclusive(&format!("cannot create database: {}", e));
            return;
        }
    };
    // no crash is involved (close + reopen only): skip the fsync per statement
    let _ = db.exec("PRAGMA synchronous = OFF");
    let create = format!("CREATE TABLE t (id INT PRIMARY KEY, v {}, pad TEXT)", plan.col);
    if let Err(e) = db.exec(&create) {
        let w = what_of_err(&e);
        ctx.violation("same_type_same_value", &format!("C11/{}/create_table/-/-/-/{}", plan.ty, w), json!({"create": create, "error": e}));
        return;
    }
    let mut r = Runner { ctx, plan, create };
    // primary-key values far away from the internal row ids (1, 2, ...): UPDATE derives TOAST chunk ids from the
    // primary key, INSERT from the row id; the aliasing of the two is probed by its own scenario
    let mut next_id: i64 = 1_000_001;
    let mut written: Vec<Variant> = vec![];
    let mut overwrite_later: Vec<(usize, &'static str, i64, Vec<String>)> = vec![];
    for (ci, c) in plan.cases.iter().enumerate() {
        let mut combos: Vec<(&'static str, &'static str)> = vec![];
        for w in ["literal", "param"] {
            if (w == "literal" && c.lit.is_none()) || (w == "param" && c.param.is_none()) {
                continue;
            }
            combos.push((w, "insert"));
            if !c.huge {
                combos.push((w, "update"));
                if !plan.no_update_over {
                    combos.push((w, "update_over"));
                }
            } else if w == "param" {
                combos.push((w, "update"));
            }
        }
        for (write, op) in combos {
            let id = next_id;
            next_id += 2;
            let mut v = Variant { id, case_idx: ci, write, op, stmts: vec![], exp_override: None };
            r.ctx.eval();
            // --- write
            let val_sql = if write == "literal" { c.lit.clone().unwrap() } else { "?".to_string() };
            let params: Vec<OV> = if write == "literal" { vec![] } else { vec![c.param.clone().unwrap()] };
            let write_res: Result<(), String>;
            if op == "insert" {
                let sql = if rng.chance(1, 2) { format!("INSERT INTO t VALUES ({}, {}, 'p')", id, val_sql) } else { format!("INSERT INTO t (id, v, pad) VALUES ({}, {}, 'p')", id, val_sql) };
                v.stmts.push(sql.clone());
                r.mark(c, &v, "write");
                let res = if write == "literal" { exec_sql(&db, &sql) } else { exec_params(&db, &sql, &params) };
                write_res = res.map(|_| ());
            } else {
                // baseline row: NULL, or another value of the same type (a different case), written by the path that exists
                let base_sql = if op == "update" {
                    format!("INSERT INTO t VALUES ({}, NULL, 'p')", id)
                } else {
                    let other = &plan.cases[(ci + 1 + rng.below(plan.cases.len() as u64) as usize) % plan.cases.len()];
                    match (&other.lit, other.huge) {
                        (Some(l), false) => format!("INSERT INTO t VALUES ({}, {}, 'p')", id, l),
                        _ => format!("INSERT INTO t VALUES ({}, NULL, 'p')", id),
                    }
                };
                v.stmts.push(base_sql.clone());
                r.ctx.current(format!("{}/baseline_row/literal/insert/write", plan.ty), json!({"create": r.create, "statement": short(&base_sql, 400)}));
                if let Err(e) = exec_sql(&db, &base_sql) {
                    // the baseline itself could not be written: that failure belongs to the other case's own variants
                    r.ctx.count("baseline_write_failed", 1);
                    let _ = e;
                    continue;
                }
                let sql = format!("UPDATE t SET v = {} WHERE id = {}", val_sql, id);
                v.stmts.push(sql.clone());
                r.mark(c, &v, "write");
                let res = if write == "literal" { exec_sql(&db, &sql) } else { exec_params(&db, &sql, &params) };
                write_res = match res {
                    Ok(turdb::ExecuteResult::Update { rows_affected, .. }) if rows_affected != 1 => Err(format!("update reported {} rows affected", rows_affected)),
                    Ok(_) => Ok(()),
                    Err(e) => Err(e),
                };
            }
            if let Err(e) = write_res {
                let w = what_of_err(&e);
                r.report(c, &v, "write", &w, None, Some(&e));
                continue;
            }
            // --- read back: full scan, primary key lookup
            let mut ok = true;
            r.mark(c, &v, "scan");
            let scan = query_raw(&db, "SELECT id, v FROM t");
            ok &= r.check(c, &v, "scan", find_in_scan(&scan, id));
            drop(scan);
            r.mark(c, &v, "pk");
            ok &= r.check(c, &v, "pk", pk_lookup(&db, id));
            // --- a second, large row is written next to it
            let nsql = format!("INSERT INTO t VALUES ({}, NULL, '{}')", id + 1, neighbour);
            r.mark(c, &v, "after_neighbour");
            match exec_sql(&db, &nsql) {
                Ok(_) => {
                    ok &= r.check(c, &v, "after_neighbour", pk_lookup(&db, id));
                }
                Err(_) => r.ctx.count("neighbour_write_failed", 1),
            }
            let h = fnv(format!("{}|{}|{}|{}|{}", plan.ty, plan.col, c.class, write, op).as_bytes());
            r.ctx.nontrivial(h);
            r.ctx.count(&format!("variants_{}_{}", write, op), 1);
            if ok {
                r.ctx.count("variants_all_reads_equal_before_reopen", 1);
            }
            if (ci + idx) % 7 == 3 && written.len() % 5 == 0 {
                r.ctx.sample(json!({"type": plan.col, "class": c.class, "write": write, "op": op, "statements": v.stmts.iter().map(|s| short(s, 160)).collect::<Vec<_>>(), "expected": show_exp(&c.exp)}));
            }
            if op == "insert" && c.then_overwritten {
                overwrite_later.push((ci, write, id, v.stmts.clone()));
            }
            written.push(v);
        }
    }
    // rows that are overwritten after everything else in this plan was written and read
    for (ci, write, id, stmts) in overwrite_later {
        let c = &plan.cases[ci];
        // the stored value is overwritten: the UPDATE must succeed and the row must read back as NULL
        let mut v2 = Variant { id, case_idx: ci, write, op: "then_overwritten", stmts, exp_override: Some(Exp::Exact(OV::Null)) };
        let sql = format!("UPDATE t SET v = {} WHERE id = {}", if write == "literal" { "NULL" } else { "?" }, id);
        v2.stmts.push(sql.clone());
        r.ctx.eval();
        r.mark(c, &v2, "write");
        // a single-row UPDATE of a 17-byte value takes well under a millisecond
        r.ctx.limit(8);
        let res = if write == "literal" { exec_sql(&db, &sql) } else { exec_params(&db, &sql, &[OV::Null]) };
        r.ctx.limit(0);
        written.retain(|w| w.id != id);
        match res {
            Ok(_) => {
                r.mark(c, &v2, "pk");
                r.check(c, &v2, "pk", pk_lookup(&db, id));
                r.ctx.nontrivial(fnv(format!("{}|{}|{}|{}|then_overwritten", plan.ty, plan.col, c.class, write).as_bytes()));
                written.push(v2);
            }
            Err(e) => {
                let w = what_of_err(&e);
                r.report(c, &v2, "write", &w, None, Some(&e));
            }
        }
    }
    if let Ok(dir) = std::env::var("TV_DUMP_DIR") {
        // debugging aid: the literal-path statements of this plan, replayable with `tv C11 --replay <file>`
        let mut log: Vec<String> = vec![r.create.clone()];
        for v in &written {
            if v.write == "literal" {
                log.extend(v.stmts.iter().cloned());
                log.push("SELECT id, v FROM t".into());
                log.push(format!("INSERT INTO t VALUES ({}, NULL, '{}')", v.id + 1, neighbour));
            }
        }
        let _ = std::fs::create_dir_all(&dir);
        let _ = std::fs::write(format!("{}/plan{}.json", dir, idx), serde_json::to_string(&log).unwrap());
    }
    // --- close + reopen
    r.ctx.current(format!("{}/reopen/-/-/reopen", plan.ty), json!({"create": r.create, "rows_written": written.len()}));
    drop(db);
    let db = match Db::open(path) {
        Ok(d) => d,
        Err(e) => {
            let w = what_of_err(&e);
            r.ctx.violation("same_type_same_value", &format!("C11/{}/reopen/-/-/reopen/{}", plan.ty, w), json!({"create": r.create, "error": e, "rows_written": written.len()}));
            return;
        }
    };
    let scan = query_raw(&db, "SELECT id, v FROM t");
    for v in &written {
        let c = &plan.cases[v.case_idx];
        r.check(c, v, "reopen_scan", find_in_scan(&scan, v.id));
        r.mark(c, v, "reopen_pk");
        r.check(c, v, "reopen_pk", pk_lookup(&db, v.id));
        r.ctx.count("reopen_reads", 2);
    }
}

/// UPDATE and INSERT must not confuse a row's primary-key value with another row's internal row id when they
/// move values out of line: six rows with TOAST-sized values whose primary keys are the reverse of the insertion
/// order, then every row is updated to a new TOAST-sized value, then to a small one; after each statement every
/// row must read back as last written.
fn scenario_pk_vs_rowid(ctx: &Sink, path: &std::path::Path, ty: &'static str, col: &str, rng: &mut Rng) {
    let _ = std::fs::remove_dir_all(path);
    let mut db = match Db::create(path) {
        Ok(d) => d,
        Err(e) => {
            ctx.inconclusive(&format!("cannot create database: {}", e));
            return;
        }
    };
    let mk = |rng: &mut Rng, n: usize| -> (String, OV) {
        if ty == "BLOB" {
            let b = blob_bytes(rng, "bin", n);
            (lit_blob(&b), OV::Blob(b))
        } else {
            let t = gen_text(rng, "ascii", n);
            (lit_text(&t), OV::Text(t))
        }
    };
    let _ = db.exec("PRAGMA synchronous = OFF");
    let create = format!("CREATE TABLE t (id INT PRIMARY KEY, v {})", col);
    let mut log = vec![create.clone()];
    if db.exec(&create).is_err() {
        return;
    }
    let n = 6i64;
    let mut want: BTreeMap<i64, OV> = BTreeMap::new();
    let mut steps: Vec<(String, i64, OV, &'static str)> = vec![];
    for k in 0..n {
        let id = n - k;
        let (l, v) = mk(rng, 1400 + 10 * k as usize);
        steps.push((format!("INSERT INTO t VALUES ({}, {})", id, l), id, v, "insert"));
    }
    for id in 1..=n {
        let (l, v) = mk(rng, 1500 + 10 * id as usize);
        steps.push((format!("UPDATE t SET v = {} WHERE id = {}", l, id), id, v, "update_over"));
    }
    for id in 1..=n {
        let (l, v) = mk(rng, 5);
        steps.push((format!("UPDATE t SET v = {} WHERE id = {}", l, id), id, v, "update_to_inline"));
    }
    let class = "pk_equals_other_rowid_toast1_1500";
    for (sql, id, v, op) in steps {
        ctx.eval();
        ctx.current(format!("{}/{}/literal/{}/write", ty, class, op), json!({"statements": log.iter().map(|s| short(s, 120)).collect::<Vec<_>>(), "about_to": short(&sql, 120)}));
        log.push(sql.clone());
        let detail = |extra: J| json!({"statements": log.iter().map(|s| short(s, 120)).collect::<Vec<_>>(), "extra": extra});
        match exec_sql(&db, &sql) {
            Ok(_) => {
                want.insert(id, v);
            }
            Err(e) => {
                ctx.tally(format!("{}/{}", ty, what_of_err(&e).split(':').next().unwrap_or("error")));
                ctx.violation("same_type_same_value", &format!("C11/{}/{}/literal/{}/write/{}", ty, class, op, what_of_err(&e)), detail(json!({"error": e})));
                continue;
            }
        }
        // every row written so far reads back as last written (primary-key lookups: one row's damage must not hide the others)
        for (rid, exp) in &want {
            let got = pk_lookup(&db, *rid);
            let what = match &got {
                Ok(Some(g)) => judge(&Exp::Exact(exp.clone()), g).map(|s| s.to_string()),
                Ok(None) => Some("missing_row".to_string()),
                Err(e) => Some(what_of_err(e)),
            };
            if let Some(w) = what {
                let whose = if *rid == id { "pk" } else { "other_row_pk" };
                ctx.tally(format!("{}/{}", ty, w.split(':').next().unwrap_or(&w)));
                ctx.violation("same_type_same_value", &format!("C11/{}/{}/literal/{}/{}/{}", ty, class, op, whose, w), detail(json!({"row": rid, "expected": show_ov(exp), "got": got.as_ref().ok().and_then(|g| g.as_ref()).map(show_ov), "error": got.as_ref().err()})));
            }
        }
        ctx.nontrivial(fnv(format!("scenario|{}|{}|{}", ty, op, id).as_bytes()));
    }
}

/// record-level round trip (no files, also usable under Miri): OwnedValue -> RecordBuilder -> RecordView -> OwnedValue
fn record_roundtrip(ctx: &mut Ctx, plans: &[Plan], by_what: &mut BTreeMap<String, u64>) {
    for plan in plans {
        let schema = turdb::records::Schema::new(vec![RColumnDef::new("id".to_string(), RDT::Int4), RColumnDef::new("v".to_string(), plan.rdt), RColumnDef::new("pad".to_string(), RDT::Text)]);
        for c in &plan.cases {
            let Some(p) = &c.param else { continue };
            if c.huge {
                continue;
            }
            // values above 65535 bytes cannot be inline records (they are TOASTed by the SQL layer)
            let len = match p {
                OV::Text(s) => s.len(),
                OV::Blob(b) | OV::Jsonb(b) => b.len(),
                OV::Vector(v) => v.len() * 4,
                _ => 0,
            };
            if len > 60_000 {
                continue;
            }
            // a 17-byte value starting with 0xFE is, by design of the record layer, reported as a TOAST pointer;
            // what that means for users is judged at the SQL level
            if matches!(p, OV::Blob(b) if b.len() == 17 && b[0] == 0xFE) {
                continue;
            }
            // INET columns are declared Inet6; an Inet4 value has its own record type
            let rdt = if matches!(p, OV::Inet4(_)) { RDT::Inet4 } else { plan.rdt };
            let schema_local;
            let schema_ref = if rdt != plan.rdt {
                schema_local = turdb::records::Schema::new(vec![RColumnDef::new("id".to_string(), RDT::Int4), RColumnDef::new("v".to_string(), rdt), RColumnDef::new("pad".to_string(), RDT::Text)]);
                &schema_local
            } else {
                &schema
            };
            ctx.eval();
            let vals = vec![OV::Int(7), p.clone(), OV::Text("p".into())];
            let res = catch(|| -> Result<OV, String> {
                let rec = OV::build_record_from_values(&vals, schema_ref).map_err(|e| format!("{:#}", e))?;
                let view = turdb::records::RecordView::new(&rec, schema_ref).map_err(|e| format!("{:#}", e))?;
                OV::from_record_column(&view, 1, rdt).map_err(|e| format!("{:#}", e))
            });
            let res = match res {
                Ok(r) => r,
                Err(p) => Err(format!("PANIC: {}", p)),
            };
            // the record layer returns DECIMAL as Decimal, REAL as f32-narrowed Float: same expectations apply
            let what = match &res {
                Ok(g) => judge(&c.exp, g).map(|s| s.to_string()),
                Err(e) => Some(what_of_err(e)),
            };
            ctx.count("record_roundtrips", 1);
            ctx.nontrivial(fnv(format!("rec|{}|{}|{}", plan.ty, plan.col, c.class).as_bytes()));
            if let Some(w) = what {
                *by_what.entry(format!("{}/record/{}", plan.ty, w.split(':').next().unwrap_or(&w))).or_insert(0) += 1;
                let sig = format!("C11/{}/{}/param/record_build/record_view/{}", plan.ty, c.class, w);
                *by_what.entry(format!("sig:{}", sig)).or_insert(0) += 1;
                ctx.violation("same_type_same_value", &sig, json!({"column_type": format!("{:?}", rdt), "value": show_ov(p), "expected": show_exp(&c.exp), "got": res.as_ref().ok().map(show_ov), "error": res.as_ref().err()}));
            }
        }
    }
}

/// `tv C11 --replay statements.json`: run a JSON array of SQL statements on a fresh database (debugging aid)
fn replay(path: &str) -> i32 {
    let stmts: Vec<String> = serde_json::from_str(&std::fs::read_to_string(path).expect("read replay file")).expect("JSON array of strings");
    let scratch = Scratch::new("c11-replay");
    let mut db = Db::create(&scratch.dir("db")).expect("create");
    for (i, st) in stmts.iter().enumerate() {
        if st == "#reopen" {
            let p = db.path.clone();
            drop(db);
            db = Db::open(&p).expect("reopen");
            println!("{:4} reopened", i);
            continue;
        }
        let r = match exec_sql(&db, st) {
            Ok(turdb::ExecuteResult::Select { rows, .. }) => format!("{} rows: {}", rows.len(), short(&rows.iter().map(|r| r.values.iter().map(show_ov).collect::<Vec<_>>().join(",")).collect::<Vec<_>>().join(" | "), 300)),
            Ok(o) => short(&format!("{:?}", o), 120),
            Err(e) => format!("ERR {}", short(&e, 300)),
        };
        println!("{:4} {} => {}", i, short(st, 90), r);
    }
    0
}

pub fn run(a: &Args) -> i32 {
    if let Some(p) = &a.replay {
        return replay(p);
    }
    let mut ctx = Ctx::new(
        "C11",
        &a.tier,
        a.seed,
        "exploration",
        "for each column type (BOOLEAN SMALLINT INT BIGINT REAL DOUBLE DECIMAL CHAR(n) VARCHAR(n) TEXT BLOB DATE TIME TIMESTAMP TIMESTAMPTZ INTERVAL UUID JSONB VECTOR(d) INET MACADDR POINT BOX CIRCLE) a fresh database with `t(id INT PRIMARY KEY, v <type>, pad TEXT)`; boundary-stratified values (integer extremes per width, NaN/inf/-0.0/subnormals, text and blob sizes 0,1,999,1000,1001,4000,4001,16383..16385,70000 plus seed-dependent sizes and a multi-MiB stratum, valid-UTF-8 blobs, 4-byte scalars and combining marks, quotes/backslashes, dates in years 1..9999, JSON documents, vectors of several dimensions) are written by SQL literal and by bound parameter (execute_with_params), via INSERT, via UPDATE of a NULL row and via UPDATE over another value; each written value is read back by full scan, by primary-key lookup, after a 3000-byte neighbour row was inserted, and after close + Database::open (scan and PK); sub-assertion same_type_same_value against a harness-computed expectation. One evaluation = one (value, write path, statement kind) variant; distinct_nontrivial = distinct (type, class, write path, statement kind) whose write succeeded and was read back, plus record-level round trips",
    );
    let mut rng = Rng::derive(a.seed, 11);
    let quick = ctx.quick();
    let miri = cfg!(miri);
    let plans = std::sync::Arc::new(build_plans(&mut rng, quick, miri));
    let mut by_what: BTreeMap<String, u64> = BTreeMap::new();
    record_roundtrip(&mut ctx, &plans, &mut by_what);
    if !miri {
        let scratch = Scratch::new("c11");
        let neighbour = "n".repeat(3000);
        let budget = if quick { 50.0 } else { 540.0 };
        // no event from the worker for this long = the TurDB call does not return
        let limit = std::time::Duration::from_secs(if quick { 25 } else { 60 });
        let debug = std::env::var("TV_DEBUG").is_ok();
        for i in 0..plans.len() {
            if ctx.elapsed() > budget {
                ctx.count("plans_skipped_time_budget", (plans.len() - i) as u64);
                break;
            }
            if debug {
                eprintln!("[{:.1}s] plan {} {} ({} cases)", ctx.elapsed(), i, plans[i].col, plans[i].cases.len());
            }
            let (tx, rx) = std::sync::mpsc::channel();
            let sink = Sink(tx);
            let (pl, path, nb, mut prng) = (plans.clone(), scratch.root.join(format!("db{}", i)), neighbour.clone(), Rng::new(rng.next()));
            let _worker = std::thread::spawn(move || {
                run_plan(&sink, &path, i, &pl[i], &mut prng, &nb);
                sink.done();
            });
            match pump(&mut ctx, &rx, limit, &mut by_what) {
                Ok(()) => {}
                Err((frag, detail)) => {
                    // the worker thread is abandoned (it still burns a core until the process exits)
                    *by_what.entry(format!("{}/hang", plans[i].ty)).or_insert(0) += 1;
                    *by_what.entry(format!("sig:C11/{}/hang", frag)).or_insert(0) += 1;
                    ctx.violation("same_type_same_value", &format!("C11/{}/hang", frag), json!({"no_progress_for_s": limit.as_secs(), "last": detail}));
                    ctx.count("abandoned_hanging_workers", 1);
                }
            }
            ctx.count("databases", 1);
        }
        for (k, (ty, col)) in [("TEXT", "TEXT"), ("BLOB", "BLOB"), ("VARCHAR", "VARCHAR(5000)")].into_iter().enumerate() {
            let (tx, rx) = std::sync::mpsc::channel();
            let sink = Sink(tx);
            let (path, mut prng) = (scratch.root.join(format!("scenario{}", k)), Rng::new(rng.next()));
            let _worker = std::thread::spawn(move || {
                scenario_pk_vs_rowid(&sink, &path, ty, col, &mut prng);
                sink.done();
            });
            if let Err((frag, detail)) = pump(&mut ctx, &rx, limit, &mut by_what) {
                *by_what.entry(format!("sig:C11/{}/hang", frag)).or_insert(0) += 1;
                ctx.violation("same_type_same_value", &format!("C11/{}/hang", frag), json!({"no_progress_for_s": limit.as_secs(), "last": detail}));
                ctx.count("abandoned_hanging_workers", 1);
            }
            ctx.count("databases", 1);
        }
    }
    let (sigs, kinds): (Vec<_>, Vec<_>) = by_what.iter().partition(|(k, _)| k.starts_with("sig:"));
    let sigs: BTreeMap<String, u64> = sigs.into_iter().map(|(k, v)| (k[4..].to_string(), *v)).collect();
    let kinds: BTreeMap<String, u64> = kinds.into_iter().map(|(k, v)| (k.clone(), *v)).collect();
    ctx.extra.insert("violations_by_type_and_kind".into(), json!(kinds));
    ctx.extra.insert("violations_by_signature".into(), json!(sigs));
    ctx.assumptions.push("REAL: the value read back may be the written f64 or its nearest f32 (README: 32-bit float); only values inside the f32 range are written".into());
    ctx.assumptions.push("DECIMAL: only values exactly representable in binary floating point with at most 4 decimals; the value may come back as Decimal or as Float with equal numeric value".into());
    ctx.assumptions.push("CHAR(n): padding is undocumented, equality is asserted after trimming trailing spaces; values never end in a space and never exceed n bytes".into());
    ctx.assumptions.push("TIMESTAMPTZ literals carry no offset (none is parsed); only the instant is judged for literals, instant and offset for parameters".into());
    ctx.assumptions.push("no SQL literal form exists for INET, MACADDR, POINT, BOX, CIRCLE, NaN and infinities, extreme INTERVALs: these are written through the parameter path only".into());
    ctx.assumptions.push("JSONB is compared as a JSON value (numbers as f64, object key order irrelevant, no duplicate keys generated)".into());
    ctx.finish()
}

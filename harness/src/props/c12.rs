//! C12: AUTO_INCREMENT values are unique and increasing.
//!
//! Observational monitor per history: `ever` = every integer the AUTO_INCREMENT column was ever
//! observed to hold (RETURNING values and a full `SELECT id, v` after every operation, also inside
//! transactions, after failed statements and after bulk-API calls), `last_gen` = the last value
//! TurDB generated. Every generated value (row inserted without id / with NULL id, identified by
//! its unique marker `v`) must be `fresh` (not in `ever`) and `increasing` (> `last_gen`).
//! A generating INSERT that is rejected with a key violation although no explicit id of the
//! statement collides is a `fresh` failure too (the generated value hit a value the column holds).
//! A violating history is shrunk (ddmin over operations, then rows) and the signature names the
//! labelled events that remain before the violating generation.
use crate::report::{catch, Ctx};
use crate::rng::{fnv, Rng};
use crate::sqlm::db::{is_panic, panic_tag, Db, Outcome, Scratch};
use crate::sqlm::val::V;
use crate::Args;
use serde_json::{json, Value as J};
use std::collections::{BTreeMap, BTreeSet, HashMap};
use std::path::PathBuf;
use turdb::OwnedValue;

/// (name, id column definition, id is PRIMARY KEY)
const VARIANTS: [(&str, &str, bool); 6] = [
    ("pk_int", "id INT PRIMARY KEY AUTO_INCREMENT", true),
    ("pk_bigint", "id BIGINT PRIMARY KEY AUTO_INCREMENT", true),
    ("serial_pk", "id SERIAL PRIMARY KEY", true),
    ("bigserial_pk", "id BIGSERIAL PRIMARY KEY", true),
    ("plain_int", "id INT AUTO_INCREMENT", false),
    ("plain_bigint", "id BIGINT AUTO_INCREMENT", false),
];

#[derive(Clone, Debug)]
struct Cfg {
    variant: usize,
    wal: bool,
}

impl Cfg {
    fn pk(&self) -> bool {
        VARIANTS[self.variant].2
    }
    fn create_sql(&self) -> String {
        format!("CREATE TABLE t ({}, v INT)", VARIANTS[self.variant].1)
    }
}

#[derive(Clone, Debug, PartialEq)]
enum IdSpec {
    /// id column omitted (or NULL when the statement needs the column list)
    Omit,
    /// explicit NULL
    Null,
    Val(i64),
}

#[derive(Clone, Copy, Debug, PartialEq)]
enum Api {
    Batch,
    BatchSchema,
    Cached,
    BulkInsert,
}

impl Api {
    fn name(&self) -> &'static str {
        match self {
            Api::Batch => "insert_batch",
            Api::BatchSchema => "insert_batch_into_schema",
            Api::Cached => "insert_cached",
            Api::BulkInsert => "bulk_insert",
        }
    }
}

#[derive(Clone, Debug)]
enum Op {
    Insert { rows: Vec<Sym>, returning: bool, nolist: bool },
    Delete { picks: Vec<DelPick> },
    DeleteAll,
    Truncate { restart: bool },
    Begin,
    Commit,
    Rollback,
    Savepoint(u8),
    RollbackTo(u8),
    Release(u8),
    Reopen,
    /// explicit ids are offsets above the highest value held when the call is made
    Bulk { api: Api, ids: Vec<Option<u32>> },
}

/// symbolic id of an INSERT row, resolved against the monitor state when the statement is executed
/// (so that removing earlier operations while shrinking keeps its meaning)
#[derive(Clone, Debug, PartialEq)]
enum Sym {
    Omit,
    Null,
    /// highest value held so far + k (k >= 1000 is forced when a generated row precedes it in the statement)
    Above(u32),
    /// the j-th (from the top) value below the highest held value that the column never held
    Below(u32),
    /// the id of the j-th row present (the statement must fail on a key column)
    Equal(u32),
}

#[derive(Clone, Debug, PartialEq)]
enum DelPick {
    Max,
    Nth(u32),
}

#[derive(Clone, Debug)]
struct Viol {
    assertion: &'static str,
    detail: J,
    events: Vec<String>,
}

enum Step {
    Ok,
    Viol(Viol),
    /// the history cannot be judged any further (reason class)
    Abort(String),
}

#[derive(Default, Clone, Debug)]
struct Stats {
    gens_checked: u64,
    gens_after: BTreeMap<String, u64>,
    counters: BTreeMap<String, u64>,
}

impl Stats {
    fn c(&mut self, k: &str) {
        *self.counters.entry(k.to_string()).or_insert(0) += 1;
    }
}

struct St {
    path: PathBuf,
    db: Option<Db>,
    cfg: Cfg,
    ever: BTreeSet<i64>,
    last_gen: Option<i64>,
    /// (id, marker) of the rows currently visible
    present: Vec<(Option<i64>, i64)>,
    events: Vec<String>,
    marker: i64,
    in_txn: bool,
    log: Vec<String>,
    stats: Stats,
}

fn err_class(e: &str) -> String {
    e.split(|c: char| !c.is_ascii_alphabetic()).filter(|w| !w.is_empty()).take(6).collect::<Vec<_>>().join("_").to_lowercase()
}

const NEUTRAL: [&str; 6] = ["gen", "begin", "commit", "release", "savepoint", "explicit_equal"];

/// labelled events that matter for the signature, deduplicated in order of first occurrence
fn causes(events: &[String]) -> Vec<String> {
    let failed = events.iter().any(|e| e == "failed_statement");
    let mut out: Vec<String> = vec![];
    for e in events {
        if e == "explicit_equal" && !failed {
            // an explicit duplicate that did not make the statement fail (non-key column)
            if !out.contains(&"explicit_equal".to_string()) {
                out.push("explicit_equal".into());
            }
            continue;
        }
        if NEUTRAL.contains(&e.as_str()) {
            continue;
        }
        if !out.contains(e) {
            out.push(e.clone());
        }
    }
    out
}

fn cause_sig(cs: &[String]) -> String {
    if cs.is_empty() {
        return "plain".into();
    }
    cs.iter().map(|c| if c.starts_with("bulk_api:") || c == "wal" { c.clone() } else { format!("after_{}", c) }).collect::<Vec<_>>().join("+")
}

impl St {
    fn new(path: PathBuf, cfg: Cfg) -> Result<St, String> {
        let mut db = Db::create(&path)?;
        if cfg.wal {
            db.exec("PRAGMA wal = ON")?;
        }
        db.exec(&cfg.create_sql())?;
        Ok(St { path, db: Some(db), cfg, ever: BTreeSet::new(), last_gen: None, present: vec![], events: vec![], marker: 100, in_txn: false, log: vec![], stats: Stats::default() })
    }

    fn exec(&mut self, sql: &str) -> Result<Outcome, String> {
        self.log.push(sql.to_string());
        self.db.as_mut().unwrap().exec(sql)
    }

    fn hi(&self) -> i64 {
        let a = self.ever.iter().next_back().copied().unwrap_or(0);
        a.max(self.last_gen.unwrap_or(0))
    }

    /// read the whole table; updates `present` and `ever`
    fn scan(&mut self) -> Result<(), String> {
        let rows = self.db.as_mut().unwrap().query("SELECT id, v FROM t")?;
        let mut p = vec![];
        for r in rows {
            let id = match r.get(0) {
                Some(V::Int(i)) => Some(*i),
                Some(V::Null) => None,
                other => return Err(format!("id column reads back as {:?}", other)),
            };
            let m = match r.get(1) {
                Some(V::Int(i)) => *i,
                other => return Err(format!("marker column reads back as {:?}", other)),
            };
            p.push((id, m));
        }
        for (id, _) in &p {
            if let Some(i) = id {
                self.ever.insert(*i);
            }
        }
        self.present = p;
        Ok(())
    }

    /// class of an explicit id relative to the values held before its row
    fn classify(&self, ever_row: &BTreeSet<i64>, x: i64) -> &'static str {
        let hi = ever_row.iter().next_back().copied().unwrap_or(0).max(self.last_gen.unwrap_or(0));
        if x > hi {
            "explicit_above"
        } else if ever_row.contains(&x) {
            "explicit_equal"
        } else {
            "explicit_below"
        }
    }

    /// judge one generated value
    fn judge_generated(&mut self, id: i64, ever_before_row: &BTreeSet<i64>, ctx_sql: &str) -> Option<Viol> {
        let cs = causes(&self.events);
        self.stats.gens_checked += 1;
        if cs.is_empty() {
            *self.stats.gens_after.entry("plain".into()).or_insert(0) += 1;
        }
        for c in &cs {
            *self.stats.gens_after.entry(c.clone()).or_insert(0) += 1;
        }
        if ever_before_row.contains(&id) {
            return Some(Viol {
                assertion: "fresh",
                detail: json!({"generated": id, "statement": ctx_sql, "how": "the generated value was already held by the column earlier", "last_generated": self.last_gen, "max_ever_held": ever_before_row.iter().next_back()}),
                events: self.events.clone(),
            });
        }
        if let Some(l) = self.last_gen {
            if id <= l {
                return Some(Viol { assertion: "increasing", detail: json!({"generated": id, "last_generated": l, "statement": ctx_sql}), events: self.events.clone() });
            }
        }
        None
    }

    fn finish_stmt_events(&mut self) {
        for e in self.events.iter_mut() {
            if let Some(s) = e.strip_suffix("_same_stmt") {
                *e = s.to_string();
            }
        }
    }

    fn resolve_rows(&self, rows: &[Sym]) -> Vec<IdSpec> {
        let mut held: BTreeSet<i64> = self.ever.clone();
        let hi0 = self.hi();
        let mut present: Vec<i64> = self.present.iter().filter_map(|(i, _)| *i).collect();
        present.sort();
        present.dedup();
        let mut gen_seen = false;
        let mut out = vec![];
        for r in rows {
            let spec = match r {
                Sym::Omit => IdSpec::Omit,
                Sym::Null => IdSpec::Null,
                Sym::Above(k) => {
                    let base = held.iter().next_back().copied().unwrap_or(0).max(hi0);
                    let k = if gen_seen && *k < 1000 { *k + 1000 } else { *k };
                    IdSpec::Val(base + k.max(1) as i64)
                }
                Sym::Below(j) => {
                    let cands: Vec<i64> = (1..hi0).rev().filter(|x| !held.contains(x)).take(*j as usize + 1).collect();
                    match cands.last() {
                        Some(x) => IdSpec::Val(*x),
                        None => IdSpec::Val(held.iter().next_back().copied().unwrap_or(0).max(hi0) + 1000 + *j as i64),
                    }
                }
                Sym::Equal(j) => {
                    if present.is_empty() {
                        IdSpec::Omit
                    } else {
                        IdSpec::Val(present[*j as usize % present.len()])
                    }
                }
            };
            match &spec {
                IdSpec::Val(x) => {
                    held.insert(*x);
                }
                _ => gen_seen = true,
            }
            out.push(spec);
        }
        out
    }

    fn resolve_picks(&self, picks: &[DelPick]) -> Vec<i64> {
        let mut present: Vec<i64> = self.present.iter().filter_map(|(i, _)| *i).collect();
        present.sort();
        present.dedup();
        let mut ids = vec![];
        if present.is_empty() {
            return ids;
        }
        for p in picks {
            let x = match p {
                DelPick::Max => *present.last().unwrap(),
                DelPick::Nth(j) => present[*j as usize % present.len()],
            };
            if !ids.contains(&x) {
                ids.push(x);
            }
        }
        ids
    }

    fn do_insert(&mut self, rows: &[IdSpec], returning: bool, nolist: bool) -> Step {
        let pk = self.cfg.pk();
        let markers: Vec<i64> = rows
            .iter()
            .map(|_| {
                self.marker += 1;
                self.marker
            })
            .collect();
        let all_omit = rows.iter().all(|r| *r == IdSpec::Omit);
        let mut sql = if all_omit {
            format!("INSERT INTO t (v) VALUES {}", markers.iter().map(|m| format!("({})", m)).collect::<Vec<_>>().join(", "))
        } else {
            let vals = rows
                .iter()
                .zip(&markers)
                .map(|(r, m)| match r {
                    IdSpec::Val(x) => format!("({}, {})", x, m),
                    _ => format!("(NULL, {})", m),
                })
                .collect::<Vec<_>>()
                .join(", ");
            if nolist {
                format!("INSERT INTO t VALUES {}", vals)
            } else {
                format!("INSERT INTO t (id, v) VALUES {}", vals)
            }
        };
        if returning {
            sql.push_str(" RETURNING id, v");
        }
        // does a correct implementation have to reject the statement? (explicit ids colliding with
        // present rows or with each other on a key column)
        let mut expect_fail = false;
        if pk {
            let mut seen: BTreeSet<i64> = self.present.iter().filter_map(|(i, _)| *i).collect();
            for r in rows {
                if let IdSpec::Val(x) = r {
                    if !seen.insert(*x) {
                        expect_fail = true;
                    }
                }
            }
        }
        let had_present = !self.present.is_empty();
        let res = self.exec(&sql);
        let returned: HashMap<i64, Option<i64>> = match &res {
            Ok(Outcome::Dml(_, Some(rs))) => rs
                .iter()
                .filter_map(|r| match (r.get(0), r.get(1)) {
                    (Some(V::Int(i)), Some(V::Int(m))) => Some((*m, Some(*i))),
                    (Some(V::Null), Some(V::Int(m))) => Some((*m, None)),
                    _ => None,
                })
                .collect(),
            _ => HashMap::new(),
        };
        if let Err(e) = &res {
            if is_panic(e) {
                return Step::Abort(format!("panic_in_insert@{}", panic_tag(e)));
            }
        }
        let mut ever_row = self.ever.clone();
        for (_, id) in returned.iter() {
            // RETURNING values are observations of the column as well
            if let Some(i) = id {
                self.ever.insert(*i);
            }
        }
        if let Err(e) = self.scan() {
            return Step::Abort(format!("scan_failed:{}", err_class(&e)));
        }
        let found: HashMap<i64, Option<i64>> = self.present.iter().map(|(i, m)| (*m, *i)).collect();
        for (r, m) in rows.iter().zip(&markers) {
            let stored = found.get(m).copied().or_else(|| returned.get(m).copied());
            if let (Some(a), Some(b)) = (found.get(m), returned.get(m)) {
                if a != b {
                    self.stats.c("returning_differs_from_stored");
                }
            }
            match r {
                IdSpec::Val(x) => {
                    let label = format!("{}_same_stmt", self.classify(&ever_row, *x));
                    self.events.push(label);
                    if let Some(Some(i)) = stored {
                        ever_row.insert(i);
                    }
                }
                IdSpec::Omit | IdSpec::Null => match stored {
                    Some(Some(id)) => {
                        if let Some(v) = self.judge_generated(id, &ever_row, &sql) {
                            return Step::Viol(v);
                        }
                        ever_row.insert(id);
                        self.last_gen = Some(id);
                        self.events.push("gen".into());
                    }
                    Some(None) => self.stats.c("insert_stored_null_instead_of_generating"),
                    None => {
                        if res.is_ok() {
                            return Step::Abort("inserted_row_not_visible".into());
                        }
                    }
                },
            }
        }
        let has_gen = rows.iter().any(|r| !matches!(r, IdSpec::Val(_)));
        match &res {
            Err(e) => {
                if expect_fail {
                    self.finish_stmt_events();
                    self.events.push("failed_statement".into());
                } else if has_gen && e.to_lowercase().contains("constraint violated") && (had_present || rows.iter().any(|r| matches!(r, IdSpec::Val(_)))) {
                    let v = Viol {
                        assertion: "fresh",
                        detail: json!({"statement": sql, "error": e, "how": "a statement asking for a generated id was rejected with a key violation although none of its explicit ids collides: the generated value equals a value the column holds", "present_ids": self.present.iter().filter_map(|(i, _)| *i).collect::<Vec<_>>(), "last_generated": self.last_gen}),
                        events: self.events.clone(),
                    };
                    return Step::Viol(v);
                } else {
                    return Step::Abort(format!("insert_error:{}", err_class(e)));
                }
            }
            Ok(_) => {
                if expect_fail {
                    self.stats.c("duplicate_explicit_key_accepted");
                }
                self.finish_stmt_events();
            }
        }
        Step::Ok
    }

    fn do_bulk(&mut self, api: Api, ids: &[Option<i64>]) -> Step {
        let markers: Vec<i64> = ids
            .iter()
            .map(|_| {
                self.marker += 1;
                self.marker
            })
            .collect();
        let rows: Vec<Vec<OwnedValue>> = ids.iter().zip(&markers).map(|(i, m)| vec![i.map(OwnedValue::Int).unwrap_or(OwnedValue::Null), OwnedValue::Int(*m)]).collect();
        self.log.push(format!("-- {}(t, ids={:?}, markers={:?})", api.name(), ids, markers));
        let db = &self.db.as_ref().unwrap().db;
        let res: Result<Result<String, String>, String> = catch(|| match api {
            Api::Batch => db.insert_batch("t", &rows).map(|n| n.to_string()).map_err(|e| format!("{:#}", e)),
            Api::BatchSchema => db.insert_batch_into_schema("root", "t", &rows).map(|n| n.to_string()).map_err(|e| format!("{:#}", e)),
            Api::BulkInsert => db.bulk_insert("t", rows.clone()).map(|n| n.to_string()).map_err(|e| format!("{:#}", e)),
            Api::Cached => {
                let stmt = db.prepare("INSERT INTO t VALUES (?, ?)").map_err(|e| format!("{:#}", e))?;
                let mut n = 0;
                for r in &rows {
                    stmt.bind(r[0].clone()).bind(r[1].clone()).execute(db).map_err(|e| format!("row {}: {:#}", n, e))?;
                    n += 1;
                }
                Ok(n.to_string())
            }
        });
        let label = format!("bulk_api:{}", api.name());
        match &res {
            Err(p) => return Step::Abort(format!("panic_in_{}@{}", api.name(), panic_tag(&format!("PANIC: {}", p)))),
            Ok(Err(e)) => {
                self.stats.c(&format!("bulk_call_error:{}:{}", api.name(), err_class(e)));
            }
            Ok(Ok(_)) => {}
        }
        self.events.push(label);
        let mut ever_row = self.ever.clone();
        if let Err(e) = self.scan() {
            return Step::Abort(format!("scan_failed_after_{}:{}", api.name(), err_class(&e)));
        }
        let found: HashMap<i64, Option<i64>> = self.present.iter().map(|(i, m)| (*m, *i)).collect();
        for (k, (i, m)) in ids.iter().zip(&markers).enumerate() {
            match (i, found.get(m)) {
                (Some(_), Some(Some(st))) => {
                    ever_row.insert(*st);
                }
                (None, Some(Some(id))) => {
                    let id = *id;
                    if let Some(v) = self.judge_generated(id, &ever_row, &format!("{}(row {} with NULL id)", api.name(), k)) {
                        return Step::Viol(v);
                    }
                    ever_row.insert(id);
                    self.last_gen = Some(id);
                }
                (None, Some(None)) => self.stats.c(&format!("null_id_stored_as_null_by:{}", api.name())),
                (_, None) => self.stats.c(&format!("row_not_visible_after:{}", api.name())),
                (Some(_), Some(None)) => self.stats.c(&format!("explicit_id_reads_null_after:{}", api.name())),
            }
        }
        Step::Ok
    }

    fn exec_op(&mut self, op: &Op) -> Step {
        match op {
            Op::Insert { rows, returning, nolist } => {
                let rows = self.resolve_rows(rows);
                self.do_insert(&rows, *returning, *nolist)
            }
            Op::Delete { picks } => {
                let ids = self.resolve_picks(picks);
                if ids.is_empty() {
                    return Step::Ok;
                }
                let maxp = self.present.iter().filter_map(|(i, _)| *i).max();
                let sql = if ids.len() == 1 { format!("DELETE FROM t WHERE id = {}", ids[0]) } else { format!("DELETE FROM t WHERE id IN ({})", ids.iter().map(|i| i.to_string()).collect::<Vec<_>>().join(", ")) };
                match self.exec(&sql) {
                    Ok(_) => {}
                    Err(e) => return Step::Abort(format!("delete_error:{}", err_class(&e))),
                }
                let hit_max = maxp.map_or(false, |m| ids.contains(&m));
                if let Err(e) = self.scan() {
                    return Step::Abort(format!("scan_failed:{}", err_class(&e)));
                }
                let still = maxp.map_or(false, |m| self.present.iter().any(|(i, _)| *i == Some(m)));
                if hit_max && !still {
                    self.events.push("delete_max".into());
                } else {
                    self.events.push("delete".into());
                }
                Step::Ok
            }
            Op::DeleteAll => {
                let nonempty = !self.present.is_empty();
                if let Err(e) = self.exec("DELETE FROM t") {
                    return Step::Abort(format!("delete_error:{}", err_class(&e)));
                }
                if let Err(e) = self.scan() {
                    return Step::Abort(format!("scan_failed:{}", err_class(&e)));
                }
                if nonempty && self.present.is_empty() {
                    self.events.push("delete_max".into());
                }
                Step::Ok
            }
            Op::Truncate { restart } => {
                if self.in_txn {
                    return Step::Ok;
                }
                let sql = if *restart { "TRUNCATE TABLE t RESTART IDENTITY" } else { "TRUNCATE TABLE t" };
                if let Err(e) = self.exec(sql) {
                    return Step::Abort(format!("truncate_error:{}", err_class(&e)));
                }
                if let Err(e) = self.scan() {
                    return Step::Abort(format!("scan_failed:{}", err_class(&e)));
                }
                if *restart {
                    // the one documented way values may restart: from here on only values that are
                    // present now (none, normally) count as held
                    self.ever = self.present.iter().filter_map(|(i, _)| *i).collect();
                    self.last_gen = None;
                    self.events.clear();
                    self.events.push("truncate_restart".into());
                } else {
                    self.events.push("truncate".into());
                }
                Step::Ok
            }
            Op::Begin => {
                if !self.in_txn && self.exec("BEGIN").is_ok() {
                    self.in_txn = true;
                    self.events.push("begin".into());
                }
                Step::Ok
            }
            Op::Commit => {
                if self.in_txn {
                    let r = self.exec("COMMIT");
                    self.in_txn = false;
                    if let Err(e) = r {
                        return Step::Abort(format!("commit_error:{}", err_class(&e)));
                    }
                    self.events.push("commit".into());
                    if let Err(e) = self.scan() {
                        return Step::Abort(format!("scan_failed:{}", err_class(&e)));
                    }
                }
                Step::Ok
            }
            Op::Rollback => {
                if self.in_txn {
                    let r = self.exec("ROLLBACK");
                    self.in_txn = false;
                    if let Err(e) = r {
                        return Step::Abort(format!("rollback_error:{}", err_class(&e)));
                    }
                    self.events.push("rollback".into());
                    if let Err(e) = self.scan() {
                        return Step::Abort(format!("scan_failed:{}", err_class(&e)));
                    }
                }
                Step::Ok
            }
            Op::Savepoint(i) => {
                if self.in_txn && self.exec(&format!("SAVEPOINT sp{}", i)).is_ok() {
                    self.events.push("savepoint".into());
                }
                Step::Ok
            }
            Op::RollbackTo(i) => {
                if self.in_txn && self.exec(&format!("ROLLBACK TO sp{}", i)).is_ok() {
                    self.events.push("savepoint_rollback".into());
                    if let Err(e) = self.scan() {
                        return Step::Abort(format!("scan_failed:{}", err_class(&e)));
                    }
                }
                Step::Ok
            }
            Op::Release(i) => {
                if self.in_txn && self.exec(&format!("RELEASE sp{}", i)).is_ok() {
                    self.events.push("release".into());
                }
                Step::Ok
            }
            Op::Reopen => {
                let was_txn = self.in_txn;
                self.log.push("-- drop handle; Database::open".into());
                let old = self.db.take();
                if let Err(p) = catch(move || drop(old)) {
                    return Step::Abort(format!("panic_in_drop@{}", panic_tag(&format!("PANIC: {}", p))));
                }
                self.in_txn = false;
                match Db::open(&self.path) {
                    Ok(d) => self.db = Some(d),
                    Err(e) => return Step::Abort(format!("open_error:{}", err_class(&e))),
                }
                if self.cfg.wal {
                    if let Err(e) = self.exec("PRAGMA wal = ON") {
                        return Step::Abort(format!("pragma_error:{}", err_class(&e)));
                    }
                }
                self.events.push(if was_txn { "reopen_in_txn".into() } else { "reopen".into() });
                if let Err(e) = self.scan() {
                    return Step::Abort(format!("scan_failed_after_reopen:{}", err_class(&e)));
                }
                Step::Ok
            }
            Op::Bulk { api, ids } => {
                let hi = self.hi();
                let ids: Vec<Option<i64>> = ids.iter().map(|o| o.map(|k| hi + k as i64)).collect();
                self.do_bulk(*api, &ids)
            }
        }
    }
}

/// features a history may draw from
#[derive(Clone, Debug, Default)]
struct Feat {
    explicit: bool,
    multirow: bool,
    delete: bool,
    truncate: bool,
    fail: bool,
    txn: bool,
    savepoint: bool,
    reopen: bool,
    bulk: Option<Api>,
}

fn gen_feat(rng: &mut Rng) -> Feat {
    loop {
        let f = Feat {
            explicit: rng.chance(2, 5),
            multirow: rng.chance(2, 5),
            delete: rng.chance(2, 5),
            truncate: rng.chance(1, 6),
            fail: rng.chance(1, 4),
            txn: rng.chance(1, 3),
            savepoint: rng.chance(1, 5),
            reopen: rng.chance(1, 3),
            bulk: if rng.chance(1, 4) { Some(*rng.pick(&[Api::Batch, Api::BatchSchema, Api::Cached, Api::BulkInsert])) } else { None },
        };
        if f.explicit || f.delete || f.truncate || f.fail || f.txn || f.reopen || f.bulk.is_some() {
            return f;
        }
    }
}

fn gen_insert(rng: &mut Rng, st: &St, f: &Feat, want_fail: bool) -> Op {
    let n = if f.multirow && rng.chance(1, 2) { rng.usize(2, 5) } else { 1 };
    let mut rows: Vec<Sym> = vec![];
    for _ in 0..n {
        let explicit = f.explicit && rng.chance(2, 5);
        if !explicit {
            rows.push(if rng.chance(1, 2) { Sym::Omit } else { Sym::Null });
            continue;
        }
        // explicit id: just above the highest held value (resolution moves it far above when a
        // generated row precedes it in the statement, see the soundness note in `run`), far above,
        // or a never-held value below
        rows.push(match rng.below(10) {
            0..=3 => Sym::Above(1 + rng.below(3) as u32),
            4 | 5 => Sym::Above(1000 + rng.below(50) as u32),
            _ => Sym::Below(rng.below(4) as u32),
        });
    }
    if want_fail && !st.present.is_empty() {
        // a duplicate of a present id on a later row (the statement must fail on a key column)
        let pos = rng.usize(if rows.len() > 1 { 1 } else { 0 }, rows.len());
        rows.insert(pos, Sym::Equal(rng.below(64) as u32));
        if pos + 1 == rows.len() && rng.chance(1, 2) {
            rows.push(Sym::Null);
        }
        if rows.len() == 1 || rows.iter().all(|r| !matches!(r, Sym::Omit | Sym::Null)) {
            rows.insert(0, Sym::Null);
        }
    }
    Op::Insert { rows, returning: rng.chance(1, 2), nolist: rng.chance(1, 3) }
}

fn gen_op(rng: &mut Rng, st: &St, f: &Feat, sp_next: &mut u8, sps: &mut Vec<u8>, prev_interesting: bool) -> Op {
    if prev_interesting && rng.chance(7, 10) {
        return gen_insert(rng, st, &Feat { explicit: false, ..f.clone() }, false);
    }
    let present: Vec<i64> = st.present.iter().filter_map(|(i, _)| *i).collect();
    for _ in 0..20 {
        match rng.below(14) {
            0..=4 => return gen_insert(rng, st, f, false),
            5 if f.fail => return gen_insert(rng, st, f, true),
            6 if f.delete && !present.is_empty() => {
                return match rng.below(5) {
                    0 | 1 => Op::Delete { picks: vec![DelPick::Max] },
                    2 => Op::Delete { picks: vec![DelPick::Nth(rng.below(64) as u32)] },
                    3 => {
                        let mut picks = vec![DelPick::Max];
                        for _ in 0..rng.usize(1, 3) {
                            picks.push(DelPick::Nth(rng.below(64) as u32));
                        }
                        Op::Delete { picks }
                    }
                    _ => Op::DeleteAll,
                };
            }
            7 if f.truncate && !st.in_txn => return Op::Truncate { restart: rng.chance(1, 4) },
            8 if f.txn => {
                if !st.in_txn {
                    sps.clear();
                    return Op::Begin;
                }
                return if rng.chance(3, 5) { Op::Rollback } else { Op::Commit };
            }
            9 if f.savepoint && st.in_txn => {
                if sps.is_empty() || rng.chance(1, 2) {
                    *sp_next += 1;
                    sps.push(*sp_next);
                    return Op::Savepoint(*sp_next);
                }
                let i = rng.below(sps.len() as u64) as usize;
                let id = sps[i];
                return if rng.chance(3, 4) {
                    sps.truncate(i + 1);
                    Op::RollbackTo(id)
                } else {
                    sps.truncate(i);
                    Op::Release(id)
                };
            }
            9 if f.savepoint && !st.in_txn => {
                sps.clear();
                return Op::Begin;
            }
            10 if f.reopen && (!st.in_txn || rng.chance(1, 4)) => return Op::Reopen,
            11 | 12 if f.bulk.is_some() => {
                let api = f.bulk.unwrap();
                let n = rng.usize(1, 4) + if api == Api::Cached { 1 } else { 0 };
                let mut next: u32 = 1 + if rng.chance(1, 3) { 100 } else { 0 };
                let nulls = rng.chance(1, 4);
                let ids = (0..n)
                    .map(|_| {
                        if nulls {
                            None
                        } else {
                            let x = next;
                            next += 1 + rng.below(2) as u32;
                            Some(x)
                        }
                    })
                    .collect();
                return Op::Bulk { api, ids };
            }
            _ => {}
        }
    }
    gen_insert(rng, st, f, false)
}

fn interesting(op: &Op) -> bool {
    match op {
        Op::Insert { rows, .. } => rows.iter().any(|r| !matches!(r, Sym::Omit | Sym::Null)),
        Op::Begin | Op::Savepoint(_) | Op::Commit | Op::Release(_) => false,
        _ => true,
    }
}

struct RunOut {
    viol: Option<(Viol, usize)>,
    abort: Option<String>,
    log: Vec<String>,
    stats: Stats,
}

/// replay a fixed list of operations on a fresh database
fn replay(scratch: &Scratch, tag: &str, cfg: &Cfg, ops: &[Op]) -> RunOut {
    let mut st = match St::new(scratch.dir(tag), cfg.clone()) {
        Ok(s) => s,
        Err(e) => return RunOut { viol: None, abort: Some(format!("setup:{}", err_class(&e))), log: vec![], stats: Stats::default() },
    };
    let mut out = RunOut { viol: None, abort: None, log: vec![], stats: Stats::default() };
    for (i, op) in ops.iter().enumerate() {
        match st.exec_op(op) {
            Step::Ok => {}
            Step::Viol(v) => {
                out.viol = Some((v, i));
                break;
            }
            Step::Abort(r) => {
                out.abort = Some(r);
                break;
            }
        }
    }
    out.log = std::mem::take(&mut st.log);
    out.stats = st.stats.clone();
    let db = st.db.take();
    let _ = catch(move || drop(db));
    out
}

fn shrink(scratch: &Scratch, tag: &str, cfg: &Cfg, ops: &[Op], assertion: &str, budget: &mut u32, deadline: std::time::Instant, cut_short: &mut bool) -> (Cfg, Vec<Op>) {
    let mut cur: Vec<Op> = ops.to_vec();
    let mut cfg = cfg.clone();
    let mut fails = |cfg: &Cfg, cand: &[Op], budget: &mut u32| -> Option<usize> {
        if *budget == 0 || std::time::Instant::now() > deadline {
            *cut_short = true;
            return None;
        }
        *budget -= 1;
        let r = replay(scratch, tag, cfg, cand);
        match r.viol {
            Some((v, at)) if v.assertion == assertion => Some(at),
            _ => None,
        }
    };
    let mut chunk = (cur.len() / 2).max(1);
    loop {
        let mut i = 0;
        while i + chunk + 1 <= cur.len() {
            let mut cand = cur.clone();
            cand.drain(i..i + chunk);
            if let Some(at) = fails(&cfg, &cand, budget) {
                cand.truncate(at + 1);
                cur = cand;
            } else {
                i += chunk;
            }
        }
        if chunk == 1 {
            break;
        }
        chunk /= 2;
    }
    // rows of multi-row inserts / bulk calls
    let mut oi = 0;
    while oi < cur.len() {
        let n = match &cur[oi] {
            Op::Insert { rows, .. } => rows.len(),
            Op::Bulk { ids, .. } => ids.len(),
            _ => 0,
        };
        let mut ri = 0;
        let mut n = n;
        while n > 1 && ri < n {
            let mut cand = cur.clone();
            match &mut cand[oi] {
                Op::Insert { rows, .. } => {
                    rows.remove(ri);
                }
                Op::Bulk { ids, .. } => {
                    ids.remove(ri);
                }
                _ => {}
            }
            if fails(&cfg, &cand, budget).is_some() {
                cur = cand;
                n -= 1;
            } else {
                ri += 1;
            }
        }
        oi += 1;
    }
    // explicit ids that only serve as "some row": let TurDB generate them instead
    for oi in 0..cur.len() {
        let n = match &cur[oi] {
            Op::Insert { rows, .. } => rows.len(),
            _ => 0,
        };
        for ri in 0..n {
            let mut cand = cur.clone();
            if let Op::Insert { rows, .. } = &mut cand[oi] {
                if matches!(rows[ri], Sym::Omit | Sym::Null) {
                    continue;
                }
                rows[ri] = Sym::Omit;
            }
            if fails(&cfg, &cand, budget).is_some() {
                cur = cand;
            }
        }
    }
    if cfg.wal {
        let c2 = Cfg { wal: false, ..cfg.clone() };
        if fails(&c2, &cur, budget).is_some() {
            cfg = c2;
        }
    }
    (cfg, cur)
}

struct HistOut {
    evals: u64,
    stats: Stats,
    abort: Option<(String, J)>,
    nontrivial: Option<u64>,
    sample: Option<J>,
    viol: Option<(&'static str, String, J)>,
    shrink_runs: u64,
    unattributed: u64,
}

/// one generated history (number `i` of the run) on worker `w`'s scratch directory
fn one_history(scratch: &Scratch, w: usize, seed: u64, i: u64, per_shrink_s: f64, hard_deadline: std::time::Instant) -> Result<HistOut, String> {
    let mut rng = Rng::derive(seed.wrapping_mul(1_000_003).wrapping_add(i), 12);
    let cfg = Cfg { variant: rng.below(VARIANTS.len() as u64) as usize, wal: rng.chance(1, 3) };
    let f = gen_feat(&mut rng);
    let len = rng.usize(8, 32);
    let mut st = St::new(scratch.dir(&format!("w{}h", w)), cfg.clone())?;
    let mut out = HistOut { evals: 0, stats: Stats::default(), abort: None, nontrivial: None, sample: None, viol: None, shrink_runs: 0, unattributed: 0 };
    let mut ops: Vec<Op> = vec![];
    let mut sp_next = 0u8;
    let mut sps: Vec<u8> = vec![];
    let mut viol: Option<Viol> = None;
    let mut prev_int = false;
    for k in 0..len {
        // start with a few plain rows so that there is something to collide with
        let op = if k < 2 { Op::Insert { rows: vec![Sym::Omit; 1 + rng.below(2) as usize], returning: rng.chance(1, 2), nolist: false } } else { gen_op(&mut rng, &st, &f, &mut sp_next, &mut sps, prev_int) };
        prev_int = interesting(&op);
        ops.push(op.clone());
        out.evals += 1;
        match st.exec_op(&op) {
            Step::Ok => {}
            Step::Viol(v) => {
                viol = Some(v);
                break;
            }
            Step::Abort(r) => {
                out.abort = Some((r, json!({"table": cfg.create_sql(), "wal": cfg.wal, "log_tail": st.log.iter().rev().take(8).rev().collect::<Vec<_>>()})));
                break;
            }
        }
    }
    let log = std::mem::take(&mut st.log);
    out.stats = st.stats.clone();
    let judged_after_event = st.stats.gens_after.iter().any(|(k, v)| k != "plain" && *v > 0);
    if judged_after_event {
        out.nontrivial = Some(fnv(format!("{:?}{:?}", cfg, ops).as_bytes()));
    }
    if judged_after_event && viol.is_none() && ops.len() >= 10 {
        out.sample = Some(json!({"table": cfg.create_sql(), "wal": cfg.wal, "history": log}));
    }
    let db = st.db.take();
    let _ = catch(move || drop(db));
    drop(st);
    if let Some(v) = viol {
        let mut budget: u32 = 150;
        let tag = format!("w{}s", w);
        let mut cut_short = false;
        let deadline = (std::time::Instant::now() + std::time::Duration::from_secs_f64(per_shrink_s)).min(hard_deadline);
        let (mcfg, mops) = shrink(scratch, &tag, &cfg, &ops, v.assertion, &mut budget, deadline, &mut cut_short);
        out.shrink_runs = (150 - budget.min(150)) as u64;
        if cut_short {
            // an incompletely shrunk history would give an unstable signature: not attributed
            out.unattributed = 1;
            return Ok(out);
        }
        let r = replay(scratch, &tag, &mcfg, &mops);
        let (mv, mlog) = match r.viol {
            Some((mv, _)) if mv.assertion == v.assertion => (mv, r.log),
            _ => (v.clone(), log.clone()),
        };
        let mut cs = causes(&mv.events);
        if mcfg.wal {
            cs.push("wal".into());
        }
        let sig = format!("C12/{}/{}", mv.assertion, cause_sig(&cs));
        out.viol = Some((mv.assertion, sig, json!({"table": mcfg.create_sql(), "wal": mcfg.wal, "minimal_history": mlog, "minimal_detail": mv.detail, "events_before": mv.events, "original_history": log, "original_detail": v.detail})));
    }
    Ok(out)
}

pub fn run(a: &Args) -> i32 {
    let mut ctx = Ctx::new(
        "C12",
        &a.tier,
        a.seed,
        "exploration",
        "generated histories (8..32 operations, fresh database each, a small random feature subset per history) on tables `t(id <INT|BIGINT [PRIMARY KEY] AUTO_INCREMENT | SERIAL/BIGSERIAL PRIMARY KEY>, v INT)`, WAL on/off: INSERT without id / with NULL id / with explicit ids just above, far above, below the highest value ever held, multi-row statements mixing them, statements that must fail on a later row (duplicate explicit key), DELETE (incl. the maximum id, all rows), TRUNCATE [RESTART IDENTITY], BEGIN..COMMIT/ROLLBACK, SAVEPOINT/ROLLBACK TO/RELEASE, drop+Database::open (also with an open transaction), and insert_batch / insert_batch_into_schema / prepared-statement insert_cached / bulk_insert calls with explicit or NULL ids. Monitor: ever_held = every id observed by RETURNING or by a full `SELECT id, v` after every operation (so rolled-back, deleted and partially applied rows count), last_generated. Every generated id (row identified by its unique marker v) must be fresh (not in ever_held) and increasing (> last_generated); a generating INSERT rejected with a key violation although no explicit id collides counts as `fresh` (the generated value hit a held value). A violating history is shrunk (ddmin over operations, rows, WAL off); signature = assertion / labelled events remaining before the violating generation. evaluations = operations executed; distinct_nontrivial = distinct histories in which at least one generated id was judged after a labelled event (delete, rollback, failed statement, reopen, explicit id, truncate, bulk API)",
    );
    if cfg!(miri) {
        ctx.inconclusive("Database requires mmap'd files; not runnable under Miri");
        return ctx.finish();
    }
    let quick = ctx.quick();
    let scratch = Scratch::new("c12");
    let max_hist: u64 = if quick { 600 } else { 12000 };
    let explore_s = if quick { 27.0 } else { 380.0 };
    let hard_s = if quick { 42.0 } else { 520.0 };
    let per_shrink_s = if quick { 8.0 } else { 40.0 };
    let threads = 8usize;
    let mut gens_after: BTreeMap<String, u64> = BTreeMap::new();
    let mut aborts: BTreeMap<String, u64> = BTreeMap::new();
    let mut abort_examples: BTreeMap<String, J> = BTreeMap::new();
    let mut counters: BTreeMap<String, u64> = BTreeMap::new();
    let mut shrink_runs = 0u64;
    let mut hist_no = 0u64;
    let next = std::sync::atomic::AtomicU64::new(0);
    let t0 = std::time::Instant::now();
    let (tx, rx) = std::sync::mpsc::channel::<Result<HistOut, String>>();
    let seed = a.seed;
    std::thread::scope(|s| {
        for w in 0..threads {
            let tx = tx.clone();
            let (next, scratch) = (&next, &scratch);
            s.spawn(move || loop {
                let i = next.fetch_add(1, std::sync::atomic::Ordering::SeqCst);
                let el = t0.elapsed().as_secs_f64();
                if i >= max_hist || el > explore_s {
                    break;
                }
                let r = match catch(|| one_history(scratch, w, seed, i, per_shrink_s, t0 + std::time::Duration::from_secs_f64(hard_s))) {
                    Ok(r) => r,
                    Err(p) => Err(format!("harness panic: {}", p)),
                };
                if tx.send(r).is_err() {
                    break;
                }
            });
        }
        drop(tx);
        for r in rx {
            let o = match r {
                Ok(o) => o,
                Err(e) => {
                    ctx.inconclusive(&format!("history could not run: {}", e));
                    continue;
                }
            };
            hist_no += 1;
            ctx.evals(o.evals);
            for (k, v) in &o.stats.gens_after {
                *gens_after.entry(k.clone()).or_insert(0) += v;
            }
            for (k, v) in &o.stats.counters {
                *counters.entry(k.clone()).or_insert(0) += v;
            }
            ctx.count("generated_ids_judged", o.stats.gens_checked);
            if let Some(h) = o.nontrivial {
                ctx.nontrivial(h);
            }
            if let Some(sm) = o.sample {
                if ctx.samples.len() < 4 {
                    ctx.sample(sm);
                }
            }
            if let Some((r, ex)) = o.abort {
                *aborts.entry(r.clone()).or_insert(0) += 1;
                abort_examples.entry(r).or_insert(ex);
            }
            shrink_runs += o.shrink_runs;
            ctx.count("violations_not_attributed_shrink_cut_by_time_budget", o.unattributed);
            if let Some((assertion, sig, detail)) = o.viol {
                ctx.violation(assertion, &sig, detail);
            }
        }
    });
    ctx.count("histories", hist_no);
    ctx.count("shrink_replays", shrink_runs);
    for (k, v) in &counters {
        ctx.count(k, *v);
    }
    ctx.extra.insert("generated_ids_judged_after_event".into(), json!(gens_after));
    ctx.extra.insert("histories_abandoned_unjudged".into(), json!(aborts));
    ctx.extra.insert("abandoned_examples".into(), json!(abort_examples));
    ctx.assumptions.push("explicit ids just above the highest held value are only placed before any generated row of a statement (a correct engine may have burnt counter values in rejected rows); otherwise explicit ids are far above (+1000) or unused values below; UPDATE of the AUTO_INCREMENT column, INSERT..SELECT and ON CONFLICT are not generated; after TRUNCATE .. RESTART IDENTITY the monitor restarts from the values present; TRUNCATE is not issued inside transactions; a history is abandoned without verdict when a statement fails for a reason other than the planned duplicate key or the table cannot be scanned (counted in histories_abandoned_unjudged); 8 worker threads, each history on its own database, history i is a function of (seed, i) only".into());
    ctx.finish()
}

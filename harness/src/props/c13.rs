//! C13: bound parameters behave like the equivalent literals.
//!
//! Every generated statement is rendered twice — with SQL literals, and with `?` / `$n` placeholders plus a
//! parameter vector — and executed on TWIN databases (same schema, same seed rows): the literal text through
//! `Database::execute`, the parameterised text through `execute_with_params`, through `prepare -> bind ->
//! execute/query`, and through repeated executions of ONE prepared statement (cached insert/update plans).
//! Results (rows_affected, RETURNING rows, query rows) and the final table states must be equal on both twins.
use crate::props::c11::{err_class, lit_blob, lit_f64, lit_text, pump, Sink};
use crate::report::{catch, Ctx};
use crate::rng::{fnv, Rng};
use crate::sqlm::db::{is_panic, panic_tag, Db, Scratch};
use crate::Args;
use serde_json::{json, Value as J};
use std::collections::{BTreeMap, BTreeSet};
use turdb::OwnedValue as OV;

// ---------------------------------------------------------------------------------------------
// values, slots, statements

#[derive(Clone, Debug, PartialEq)]
enum PV {
    Null,
    Int(i64),
    Float(f64),
    Text(String),
    Blob(Vec<u8>),
}

impl PV {
    fn lit(&self) -> String {
        match self {
            PV::Null => "NULL".into(),
            PV::Int(i) => i.to_string(),
            PV::Float(f) => lit_f64(*f),
            PV::Text(s) => lit_text(s),
            PV::Blob(b) => lit_blob(b),
        }
    }
    fn ov(&self) -> OV {
        match self {
            PV::Null => OV::Null,
            PV::Int(i) => OV::Int(*i),
            PV::Float(f) => OV::Float(*f),
            PV::Text(s) => OV::Text(s.clone()),
            PV::Blob(b) => OV::Blob(b.clone()),
        }
    }
}

#[derive(Clone, Debug)]
struct Slot {
    v: PV,
    class: String,
    /// replacement used while attributing a divergence to parameter classes (None = never replaced: row ids, LIMIT)
    benign: Option<PV>,
}

#[derive(Clone, Debug)]
enum Part {
    S(String),
    P(usize),
}

#[derive(Clone, Debug)]
struct Stmt {
    kind: &'static str,
    parts: Vec<Part>,
    slots: Vec<Slot>,
    select: bool,
    /// (table, id slot, text slot, blob slot): rows whose stored text/blob must equal the bound value byte for byte
    verbatim: Vec<(&'static str, usize, Option<usize>, Option<usize>)>,
}

#[derive(Clone, Debug)]
enum Style {
    Anon,
    /// slot index -> 0-based parameter position
    Positional(Vec<usize>),
}

impl Stmt {
    fn lit_sql(&self) -> String {
        self.parts.iter().map(|p| match p { Part::S(s) => s.clone(), Part::P(i) => self.slots[*i].v.lit() }).collect()
    }
    fn param_sql(&self, style: &Style) -> (String, Vec<OV>) {
        let mut sql = String::new();
        let mut params: Vec<OV> = vec![];
        match style {
            Style::Anon => {
                for p in &self.parts {
                    match p {
                        Part::S(s) => sql.push_str(s),
                        Part::P(i) => {
                            sql.push('?');
                            params.push(self.slots[*i].v.ov());
                        }
                    }
                }
            }
            Style::Positional(perm) => {
                params = vec![OV::Null; self.slots.len()];
                for (i, s) in self.slots.iter().enumerate() {
                    params[perm[i]] = s.v.ov();
                }
                for p in &self.parts {
                    match p {
                        Part::S(s) => sql.push_str(s),
                        Part::P(i) => sql.push_str(&format!("${}", perm[*i] + 1)),
                    }
                }
            }
        }
        (sql, params)
    }
}

const TEXT_CLASSES: &[&str] = &["text_plain", "text_empty", "text_quote", "text_comment", "text_semicolon", "text_backslash", "text_control", "text_sqlish", "text_placeholder", "text_unicode", "text_toast"];

fn gen_text_class(rng: &mut Rng, class: &str) -> String {
    let w = |rng: &mut Rng| -> String { (0..rng.usize(1, 6)).map(|_| (b'a' + rng.below(26) as u8) as char).collect() };
    match class {
        "text_plain" => w(rng),
        "text_empty" => String::new(),
        "text_quote" => format!("{}{}{}", w(rng), rng.pick(&["'", "''", "'''", "\"", "'\"'", "it's"]), w(rng)),
        "text_comment" => format!("{}{}{}", w(rng), rng.pick(&["--", "-- x", "/*", "*/", "/* c */", "/*'*/", "#"]), w(rng)),
        "text_semicolon" => format!("{}{}{}", w(rng), rng.pick(&[";", "; ", ";;", "';"]), w(rng)),
        "text_backslash" => format!("{}{}{}", w(rng), rng.pick(&["\\", "\\\\", "\\'", "\\n", "\\x00", "\\"]), rng.pick(&["", "a", "'"])),
        "text_control" => format!("{}{}{}", w(rng), rng.pick(&["\n", "\r\n", "\t", "\u{1}", "\u{1b}[0m", "\u{7f}", "\u{8}", "\u{c}"]), w(rng)),
        "text_sqlish" => rng.pick(&["'); DROP TABLE t; --", "'; DROP TABLE other; --", "' OR '1'='1", "1; DELETE FROM other", "x' WHERE 1=1; --", "'); CREATE TABLE pwned (id INT); --", "NULL", "TRUE", "1 OR 1=1", "') , (999, 1, 1.0, 'inj', NULL); --", "a' || (SELECT s FROM other) || '"]).to_string(),
        "text_placeholder" => rng.pick(&["?", "$1", "$2 ?", ":name", "'?'", "a ? b $1"]).to_string(),
        "text_unicode" => format!("{}{}{}", w(rng), rng.pick(&["é", "日本語", "😀", "e\u{301}", "\u{202e}abc", "𝄞"]), w(rng)),
        _ => {
            // above the TOAST threshold
            let n = rng.usize(1001, 9000);
            let mut s = String::new();
            while s.len() < n {
                s.push_str(&w(rng));
                s.push(' ');
            }
            s
        }
    }
}

fn slot_text(rng: &mut Rng, allow_null: bool) -> Slot {
    if allow_null && rng.chance(1, 12) {
        return Slot { v: PV::Null, class: "null".into(), benign: Some(PV::Text("abc".into())) };
    }
    let class = if rng.chance(1, 4) { "text_plain" } else { *rng.pick(TEXT_CLASSES) };
    Slot { v: PV::Text(gen_text_class(rng, class)), class: class.into(), benign: Some(PV::Text("abc".into())) }
}
fn slot_int(rng: &mut Rng, allow_null: bool) -> Slot {
    let benign = Some(PV::Int(35));
    if allow_null && rng.chance(1, 12) {
        return Slot { v: PV::Null, class: "null".into(), benign };
    }
    let (v, c) = match rng.below(10) {
        0 => (i64::MAX, "i64_max"),
        1 => (i64::MIN, "i64_min"),
        2 => (i64::MIN + 1, "i64_min_plus1"),
        3 => (0, "int_zero"),
        4 => (-(rng.range(1, 100)), "int_negative"),
        5 => ((1i64 << 53) + 1, "int_above_2_53"),
        _ => (rng.range(1, 100), "int_small"),
    };
    Slot { v: PV::Int(v), class: c.into(), benign }
}
fn slot_float(rng: &mut Rng, allow_null: bool) -> Slot {
    let benign = Some(PV::Float(2.5));
    if allow_null && rng.chance(1, 12) {
        return Slot { v: PV::Null, class: "null".into(), benign };
    }
    let (v, c) = match rng.below(9) {
        // `{}` prints 1e21 as 1000000000000000000000, 1.5e-7 as 0.00000015, 1.0 as 1
        0 => (1e21, "float_large_no_exponent"),
        1 => (1.5e300, "float_huge"),
        2 => (1.5e-7, "float_small_fraction"),
        3 => (5e-324, "float_subnormal"),
        4 => (rng.range(-50, 50) as f64, "float_integral"),
        5 => (-0.0, "float_neg_zero"),
        6 => (0.1 + 0.2, "float_17_digits"),
        _ => (rng.range(-1000, 1000) as f64 + 0.25, "float_plain"),
    };
    Slot { v: PV::Float(v), class: c.into(), benign }
}
fn slot_blob(rng: &mut Rng) -> Slot {
    let benign = Some(PV::Blob(vec![1, 2]));
    match rng.below(5) {
        0 => Slot { v: PV::Null, class: "null".into(), benign },
        1 => Slot { v: PV::Blob(vec![]), class: "blob_empty".into(), benign },
        2 => Slot { v: PV::Blob(b"'); DROP TABLE t; --".to_vec()), class: "blob_sqlish_utf8".into(), benign },
        _ => {
            let n = rng.usize(1, 40);
            Slot { v: PV::Blob(rng.bytes(n)), class: "blob_random".into(), benign }
        }
    }
}
fn slot_id(id: i64) -> Slot {
    Slot { v: PV::Int(id), class: "id".into(), benign: None }
}

const SEED_IDS: i64 = 8;

fn fresh_ids(rng: &mut Rng, n: usize) -> Vec<i64> {
    let mut s = BTreeSet::new();
    while s.len() < n {
        s.insert(rng.range(SEED_IDS + 1, 5000));
    }
    let mut v: Vec<i64> = s.into_iter().collect();
    rng.shuffle(&mut v);
    v
}

pub const KINDS: &[&str] = &[
    "insert_all_columns",
    "insert_column_list_permuted",
    "insert_column_list_partial",
    "insert_mixed_with_literals",
    "insert_multi_row",
    "insert_repeated_param",
    "insert_returning",
    "insert_u_default_column_omitted",
    "insert_u_not_null",
    "update_set_where_pk",
    "update_set_where_range",
    "update_set_expression",
    "update_where_text",
    "update_mixed_with_literals",
    "update_two_where_params",
    "delete_where_pk",
    "delete_where_range",
    "delete_where_text",
    "select_where",
    "select_where_limit",
    "select_list_param",
    "select_in_between",
];

fn s(x: &str) -> Part {
    Part::S(x.to_string())
}

/// values differ per call, the SQL shape (hence the parameterised text) depends on `kind` only
fn gen_stmt(rng: &mut Rng, kind: &'static str) -> Stmt {
    let mut slots: Vec<Slot> = vec![];
    let mut parts: Vec<Part> = vec![];
    let mut verbatim = vec![];
    let mut select = false;
    let push = |slots: &mut Vec<Slot>, sl: Slot| -> usize {
        slots.push(sl);
        slots.len() - 1
    };
    match kind {
        "insert_all_columns" | "insert_returning" => {
            let id = fresh_ids(rng, 1)[0];
            let i = push(&mut slots, slot_id(id));
            let a = push(&mut slots, slot_int(rng, true));
            let f = push(&mut slots, slot_float(rng, true));
            let t = push(&mut slots, slot_text(rng, true));
            let b = push(&mut slots, slot_blob(rng));
            parts = vec![s("INSERT INTO t VALUES ("), Part::P(i), s(", "), Part::P(a), s(", "), Part::P(f), s(", "), Part::P(t), s(", "), Part::P(b), s(")")];
            if kind == "insert_returning" {
                parts.push(s(" RETURNING id, s"));
            }
            verbatim.push(("t", i, Some(t), Some(b)));
        }
        "insert_column_list_permuted" => {
            let id = fresh_ids(rng, 1)[0];
            let t = push(&mut slots, slot_text(rng, true));
            let i = push(&mut slots, slot_id(id));
            let b = push(&mut slots, slot_blob(rng));
            let a = push(&mut slots, slot_int(rng, true));
            let f = push(&mut slots, slot_float(rng, true));
            parts = vec![s("INSERT INTO t (s, id, b, a, f) VALUES ("), Part::P(t), s(", "), Part::P(i), s(", "), Part::P(b), s(", "), Part::P(a), s(", "), Part::P(f), s(")")];
            verbatim.push(("t", i, Some(t), Some(b)));
        }
        "insert_column_list_partial" => {
            let id = fresh_ids(rng, 1)[0];
            let i = push(&mut slots, slot_id(id));
            let t = push(&mut slots, slot_text(rng, true));
            parts = vec![s("INSERT INTO t (id, s) VALUES ("), Part::P(i), s(", "), Part::P(t), s(")")];
            verbatim.push(("t", i, Some(t), None));
        }
        "insert_mixed_with_literals" => {
            let id = fresh_ids(rng, 1)[0];
            let i = push(&mut slots, slot_id(id));
            let t = push(&mut slots, slot_text(rng, true));
            parts = vec![s("INSERT INTO t VALUES ("), Part::P(i), s(", 77, 1.25, "), Part::P(t), s(", X'0a0b')")];
            verbatim.push(("t", i, Some(t), None));
        }
        "insert_multi_row" => {
            let ids = fresh_ids(rng, 2);
            parts.push(s("INSERT INTO t (id, a, s) VALUES "));
            for (k, id) in ids.iter().enumerate() {
                let i = push(&mut slots, slot_id(*id));
                let a = push(&mut slots, slot_int(rng, true));
                let t = push(&mut slots, slot_text(rng, true));
                if k > 0 {
                    parts.push(s(", "));
                }
                parts.extend(vec![s("("), Part::P(i), s(", "), Part::P(a), s(", "), Part::P(t), s(")")]);
                verbatim.push(("t", i, Some(t), None));
            }
        }
        "insert_repeated_param" => {
            // the same parameter feeds id and a ($1, $1 in positional style)
            let id = fresh_ids(rng, 1)[0];
            let i = push(&mut slots, slot_id(id));
            let t = push(&mut slots, slot_text(rng, true));
            parts = vec![s("INSERT INTO t (id, a, s) VALUES ("), Part::P(i), s(", "), Part::P(i), s(", "), Part::P(t), s(")")];
            verbatim.push(("t", i, Some(t), None));
        }
        "insert_u_default_column_omitted" => {
            let id = fresh_ids(rng, 1)[0];
            let i = push(&mut slots, slot_id(id));
            let t = push(&mut slots, slot_text(rng, false));
            parts = vec![s("INSERT INTO u (id, s) VALUES ("), Part::P(i), s(", "), Part::P(t), s(")")];
            verbatim.push(("u", i, Some(t), None));
        }
        "insert_u_not_null" => {
            // s is NOT NULL: a NULL parameter must be rejected exactly like a NULL literal
            let id = fresh_ids(rng, 1)[0];
            let i = push(&mut slots, slot_id(id));
            let mut ts = slot_text(rng, false);
            if rng.chance(1, 2) {
                ts = Slot { v: PV::Null, class: "null".into(), benign: Some(PV::Text("abc".into())) };
            }
            let t = push(&mut slots, ts);
            let n = push(&mut slots, slot_int(rng, false));
            parts = vec![s("INSERT INTO u VALUES ("), Part::P(i), s(", "), Part::P(t), s(", "), Part::P(n), s(")")];
            verbatim.push(("u", i, Some(t), None));
        }
        "update_set_where_pk" => {
            let t = push(&mut slots, slot_text(rng, true));
            let a = push(&mut slots, slot_int(rng, true));
            let i = push(&mut slots, slot_id(rng.range(1, SEED_IDS + 1)));
            parts = vec![s("UPDATE t SET s = "), Part::P(t), s(", a = "), Part::P(a), s(" WHERE id = "), Part::P(i)];
            verbatim.push(("t", i, Some(t), None));
        }
        "update_set_where_range" => {
            let t = push(&mut slots, slot_text(rng, true));
            let mut lim = slot_int(rng, false);
            if rng.chance(2, 3) {
                lim = Slot { v: PV::Int(rng.range(0, 90)), class: "int_small".into(), benign: Some(PV::Int(35)) };
            }
            let a = push(&mut slots, lim);
            parts = vec![s("UPDATE t SET s = "), Part::P(t), s(" WHERE a > "), Part::P(a)];
        }
        "update_set_expression" => {
            let d = push(&mut slots, Slot { v: PV::Int(rng.range(-50, 50)), class: "int_small".into(), benign: Some(PV::Int(35)) });
            let i = push(&mut slots, slot_id(rng.range(1, SEED_IDS)));
            parts = vec![s("UPDATE t SET a = a + "), Part::P(d), s(" WHERE id = "), Part::P(i)];
        }
        "update_where_text" => {
            let a = push(&mut slots, slot_int(rng, true));
            let mut ts = slot_text(rng, false);
            if rng.chance(1, 2) {
                ts = Slot { v: PV::Text(format!("s{}", rng.range(1, SEED_IDS))), class: "text_plain".into(), benign: Some(PV::Text("s3".into())) };
            }
            let t = push(&mut slots, ts);
            parts = vec![s("UPDATE t SET a = "), Part::P(a), s(" WHERE s = "), Part::P(t)];
        }
        "update_mixed_with_literals" => {
            let t = push(&mut slots, slot_text(rng, true));
            let i = push(&mut slots, slot_id(rng.range(1, SEED_IDS + 1)));
            parts = vec![s("UPDATE t SET a = 5, s = "), Part::P(t), s(", f = 0.5 WHERE id = "), Part::P(i)];
            verbatim.push(("t", i, Some(t), None));
        }
        "update_two_where_params" => {
            let t = push(&mut slots, slot_text(rng, true));
            let lo = push(&mut slots, Slot { v: PV::Int(rng.range(0, 50)), class: "int_small".into(), benign: Some(PV::Int(15)) });
            let hi = push(&mut slots, Slot { v: PV::Int(rng.range(30, 90)), class: "int_small".into(), benign: Some(PV::Int(65)) });
            parts = vec![s("UPDATE t SET s = "), Part::P(t), s(" WHERE a > "), Part::P(lo), s(" AND a < "), Part::P(hi)];
        }
        "delete_where_pk" => {
            let i = push(&mut slots, slot_id(rng.range(1, SEED_IDS + 2)));
            parts = vec![s("DELETE FROM t WHERE id = "), Part::P(i)];
        }
        "delete_where_range" => {
            let mut lim = slot_int(rng, false);
            if rng.chance(2, 3) {
                lim = Slot { v: PV::Int(rng.range(0, 90)), class: "int_small".into(), benign: Some(PV::Int(35)) };
            }
            let a = push(&mut slots, lim);
            let f = push(&mut slots, slot_float(rng, false));
            parts = vec![s("DELETE FROM t WHERE a < "), Part::P(a), s(" AND f <> "), Part::P(f)];
        }
        "delete_where_text" => {
            let mut ts = slot_text(rng, false);
            if rng.chance(1, 2) {
                ts = Slot { v: PV::Text(format!("s{}", rng.range(1, SEED_IDS))), class: "text_plain".into(), benign: Some(PV::Text("s3".into())) };
            }
            let t = push(&mut slots, ts);
            parts = vec![s("DELETE FROM t WHERE s = "), Part::P(t)];
        }
        "select_where" => {
            select = true;
            let mut lim = slot_int(rng, false);
            if rng.chance(2, 3) {
                lim = Slot { v: PV::Int(rng.range(0, 90)), class: "int_small".into(), benign: Some(PV::Int(35)) };
            }
            let a = push(&mut slots, lim);
            let t = push(&mut slots, slot_text(rng, false));
            let f = push(&mut slots, slot_float(rng, false));
            parts = vec![s("SELECT id, a, s FROM t WHERE a > "), Part::P(a), s(" AND s <> "), Part::P(t), s(" AND f < "), Part::P(f), s(" ORDER BY id")];
        }
        "select_where_limit" => {
            select = true;
            let a = push(&mut slots, Slot { v: PV::Int(rng.range(0, 90)), class: "int_small".into(), benign: Some(PV::Int(35)) });
            let l = push(&mut slots, Slot { v: PV::Int(rng.range(0, 6)), class: "limit".into(), benign: None });
            parts = vec![s("SELECT id, s FROM t WHERE a >= "), Part::P(a), s(" ORDER BY id LIMIT "), Part::P(l)];
        }
        "select_list_param" => {
            select = true;
            let v = match rng.below(4) {
                0 => slot_int(rng, true),
                1 => slot_float(rng, false),
                2 => slot_blob(rng),
                _ => slot_text(rng, false),
            };
            let v = push(&mut slots, v);
            let i = push(&mut slots, slot_id(rng.range(1, SEED_IDS)));
            parts = vec![s("SELECT id, "), Part::P(v), s(" FROM t WHERE id = "), Part::P(i)];
        }
        _ => {
            select = true;
            let lo = push(&mut slots, Slot { v: PV::Int(rng.range(0, 40)), class: "int_small".into(), benign: Some(PV::Int(10)) });
            let hi = push(&mut slots, slot_int(rng, false));
            let i1 = push(&mut slots, slot_id(rng.range(1, SEED_IDS)));
            let i2 = push(&mut slots, slot_id(rng.range(1, SEED_IDS + 3)));
            parts = vec![s("SELECT id, a FROM t WHERE a BETWEEN "), Part::P(lo), s(" AND "), Part::P(hi), s(" OR id IN ("), Part::P(i1), s(", "), Part::P(i2), s(") ORDER BY id")];
        }
    }
    Stmt { kind, parts, slots, select, verbatim }
}

// ---------------------------------------------------------------------------------------------
// twins

const CREATE: &[&str] = &[
    "CREATE TABLE t (id INT PRIMARY KEY, a BIGINT, f DOUBLE PRECISION, s TEXT, b BLOB)",
    "CREATE TABLE u (id INT PRIMARY KEY, s TEXT NOT NULL, n INT DEFAULT 7)",
    "CREATE TABLE other (id INT PRIMARY KEY, s TEXT)",
];

fn seed_sql() -> Vec<String> {
    let mut rows = vec![];
    for i in 1..=SEED_IDS {
        if i == 5 {
            rows.push(format!("({}, NULL, NULL, NULL, NULL)", i));
        } else {
            rows.push(format!("({}, {}, {}.5, 's{}', X'0{}')", i, i * 10, i, i, i));
        }
    }
    vec![
        "DELETE FROM t".into(),
        "DELETE FROM u".into(),
        "DELETE FROM other".into(),
        format!("INSERT INTO t VALUES {}", rows.join(", ")),
        "INSERT INTO u VALUES (1, 'u1', 1), (2, 'u2', 2)".into(),
        "INSERT INTO other VALUES (1, 'keep1'), (2, 'keep2'), (3, 'keep3')".into(),
    ]
}

type Rows = Vec<Vec<OV>>;

#[derive(Clone, Debug)]
enum Res {
    Dml(usize, Option<Rows>),
    Rows(Rows),
    Other(String),
    Err(String),
}

fn conv(rows: Vec<turdb::Row>) -> Rows {
    rows.into_iter().map(|r| r.values).collect()
}
fn res_of(r: Result<Result<turdb::ExecuteResult, eyre::Report>, String>) -> Res {
    use turdb::ExecuteResult as ER;
    match r {
        Ok(Ok(ER::Insert { rows_affected, returned })) | Ok(Ok(ER::Update { rows_affected, returned })) | Ok(Ok(ER::Delete { rows_affected, returned })) => Res::Dml(rows_affected, returned.map(conv)),
        Ok(Ok(ER::Select { rows, .. })) => Res::Rows(conv(rows)),
        Ok(Ok(o)) => Res::Other(format!("{:?}", o).chars().take(80).collect()),
        Ok(Err(e)) => Res::Err(format!("{:#}", e)),
        Err(p) => Res::Err(format!("PANIC: {}", p)),
    }
}
fn res_of_rows(r: Result<Result<Vec<turdb::Row>, eyre::Report>, String>) -> Res {
    match r {
        Ok(Ok(rows)) => Res::Rows(conv(rows)),
        Ok(Err(e)) => Res::Err(format!("{:#}", e)),
        Err(p) => Res::Err(format!("PANIC: {}", p)),
    }
}

fn looks_like_toast_pointer(v: &OV) -> bool {
    matches!(v, OV::Blob(b) if b.len() == 17 && b[0] == 0xFE) || matches!(v, OV::ToastPointer(_))
}
fn ov_bits_eq(a: &OV, b: &OV) -> bool {
    if looks_like_toast_pointer(a) && looks_like_toast_pointer(b) {
        // an internal pointer leaked on both twins (row ids differ between twins): judged by returned_verbatim
        return true;
    }
    match (a, b) {
        (OV::Float(x), OV::Float(y)) => x.to_bits() == y.to_bits() || (x.is_nan() && y.is_nan()),
        _ => a == b,
    }
}
fn rows_eq(a: &Rows, b: &Rows) -> bool {
    a.len() == b.len() && a.iter().zip(b.iter()).all(|(x, y)| x.len() == y.len() && x.iter().zip(y.iter()).all(|(p, q)| ov_bits_eq(p, q)))
}
fn show_rows(r: &Rows) -> J {
    J::Array(r.iter().take(12).map(|row| J::Array(row.iter().map(|v| J::String(short(&format!("{:?}", v), 120))).collect())).collect())
}
fn short(s: &str, n: usize) -> String {
    if s.len() <= n {
        s.to_string()
    } else {
        let mut cut = n;
        while !s.is_char_boundary(cut) {
            cut -= 1;
        }
        format!("{}...<{} bytes>", &s[..cut], s.len())
    }
}
fn show_res(r: &Res) -> J {
    match r {
        Res::Dml(n, ret) => json!({"rows_affected": n, "returned": ret.as_ref().map(show_rows)}),
        Res::Rows(rows) => json!({"rows": show_rows(rows), "row_count": rows.len()}),
        Res::Other(o) => json!({"other": o}),
        Res::Err(e) => json!({"error": short(e, 300)}),
    }
}

/// label of the difference between the literal twin's result and the parameter twin's result
fn divergence(a: &Res, b: &Res) -> Option<String> {
    match (a, b) {
        (Res::Err(x), _) if is_panic(x) => None, // the literal statement itself panics: not a parameter matter (C22)
        (_, Res::Err(y)) if is_panic(y) => Some(format!("param_panic:{}", panic_tag(y))),
        (Res::Err(_), Res::Err(_)) => None,
        (Res::Err(x), _) => Some(format!("literal_error_param_ok:{}", err_class(x))),
        (_, Res::Err(y)) => Some(format!("param_error:{}", err_class(y))),
        (Res::Dml(n1, r1), Res::Dml(n2, r2)) => {
            if n1 != n2 {
                Some("rows_affected".into())
            } else {
                match (r1, r2) {
                    (None, None) => None,
                    (Some(x), Some(y)) if rows_eq(x, y) => None,
                    _ => Some("returned_rows".into()),
                }
            }
        }
        (Res::Rows(x), Res::Rows(y)) => {
            if rows_eq(x, y) {
                None
            } else if x.len() != y.len() {
                Some("query_row_count".into())
            } else {
                let type_only = x.iter().zip(y.iter()).all(|(p, q)| p.len() == q.len() && p.iter().zip(q.iter()).all(|(v, w)| ov_bits_eq(v, w) || std::mem::discriminant(v) != std::mem::discriminant(w)));
                Some(if type_only { "query_value_type".into() } else { "query_values".into() })
            }
        }
        (Res::Other(x), Res::Other(y)) if x == y => None,
        _ => Some("result_kind".into()),
    }
}

struct Twins {
    a: Db,
    b: Db,
    uses: u32,
    /// an experiment on these twins failed: they may be damaged, the next experiment gets fresh ones
    dirty: bool,
    root: std::path::PathBuf,
    generation: u32,
    serial: u32,
}

fn sorted_table(db: &Db, table: &str) -> Result<Rows, String> {
    match catch(|| db.db.query(&format!("SELECT * FROM {}", table))) {
        Ok(Ok(rows)) => {
            let mut r = conv(rows);
            r.sort_by_key(|row| match row.get(0) {
                Some(OV::Int(i)) => *i,
                _ => i64::MIN,
            });
            Ok(r)
        }
        Ok(Err(e)) => Err(format!("{:#}", e)),
        Err(p) => Err(format!("PANIC: {}", p)),
    }
}
/// state of all tables, or the first error
fn state(db: &Db) -> Result<Vec<(&'static str, Rows)>, String> {
    let mut out = vec![];
    for t in ["t", "u", "other"] {
        out.push((t, sorted_table(db, t).map_err(|e| format!("{}: {}", t, e))?));
    }
    Ok(out)
}
fn file_names(db: &Db) -> BTreeSet<String> {
    fn walk(p: &std::path::Path, base: &std::path::Path, out: &mut BTreeSet<String>) {
        if let Ok(rd) = std::fs::read_dir(p) {
            for e in rd.flatten() {
                let path = e.path();
                if path.is_dir() {
                    walk(&path, base, out);
                } else if let Ok(rel) = path.strip_prefix(base) {
                    out.insert(rel.to_string_lossy().to_string());
                }
            }
        }
    }
    let mut out = BTreeSet::new();
    walk(&db.path, &db.path, &mut out);
    out
}

impl Twins {
    fn create_at(root: &std::path::Path, generation: u32, serial: u32) -> Result<Twins, String> {
        let dirs = (root.join(format!("g{}-lit{}", generation, serial)), root.join(format!("g{}-par{}", generation, serial)));
        let _ = std::fs::remove_dir_all(&dirs.0);
        let _ = std::fs::remove_dir_all(&dirs.1);
        let a = Db::create(&dirs.0)?;
        let b = Db::create(&dirs.1)?;
        for db in [&a, &b] {
            // durability is not the subject here: no fsync per statement
            let _ = catch(|| db.db.execute("PRAGMA synchronous = OFF"));
            for c in CREATE {
                match catch(|| db.db.execute(c)) {
                    Ok(Ok(_)) => {}
                    Ok(Err(e)) => return Err(format!("{}: {:#}", c, e)),
                    Err(p) => return Err(format!("{}: PANIC {}", c, p)),
                }
            }
        }
        Ok(Twins { a, b, uses: 0, dirty: false, root: root.to_path_buf(), generation, serial })
    }
    /// replace both databases by fresh ones
    fn renew(&mut self) -> Result<(), String> {
        // DROP TABLE leaves the table's TOAST companion behind (CREATE TABLE of the same name then fails), so fresh
        // databases it is
        let t = Twins::create_at(&self.root, self.generation, self.serial + 1)?;
        let old = std::mem::replace(self, t);
        let (pa, pb) = (old.a.path.clone(), old.b.path.clone());
        drop(old);
        let _ = std::fs::remove_dir_all(pa);
        let _ = std::fs::remove_dir_all(pb);
        Ok(())
    }
    /// both twins back to the seed rows; false if that did not work
    fn reset(&mut self) -> bool {
        if self.dirty && self.renew().is_err() {
            return false;
        }
        self.uses += 1;
        for db in [&self.a, &self.b] {
            for q in seed_sql() {
                match catch(|| db.db.execute(&q)) {
                    Ok(Ok(_)) => {}
                    _ => return false,
                }
            }
        }
        match (state(&self.a), state(&self.b)) {
            (Ok(x), Ok(y)) => x.len() == y.len() && x.iter().zip(y.iter()).all(|(p, q)| rows_eq(&p.1, &q.1)) && x[0].1.len() == SEED_IDS as usize && x[1].1.len() == 2 && x[2].1.len() == 3,
            _ => false,
        }
    }
}

#[derive(Clone, Copy, PartialEq, Debug)]
enum Api {
    ExecWithParams,
    /// prepare -> bind -> execute (DML) / query (SELECT)
    Prepared,
    /// prepare -> bind -> execute for SELECT as well
    PreparedExecute,
}

struct Outcome {
    /// (step, sub-assertion, divergence label, detail)
    fails: Vec<(usize, &'static str, String, J)>,
    judged: bool,
}

/// run `steps` (same shape, same style) on fresh-reset twins; literal on A, parameters on B
fn run_experiment(tw: &mut Twins, steps: &[Stmt], style: &Style, api: Api) -> Option<Outcome> {
    if !tw.reset() {
        return None;
    }
    let mut fails: Vec<(usize, &'static str, String, J)> = vec![];
    let mut cached_insert_wrote = false;
    let files_before = file_names(&tw.b);
    let (psql, _) = steps[0].param_sql(style);
    let prepared = if api != Api::ExecWithParams {
        match catch(|| tw.b.db.prepare(&psql)) {
            Ok(Ok(p)) => Some(p),
            Ok(Err(e)) => {
                // prepare refuses the statement: judged against the literal twin's first result
                let ra = res_of(catch(|| tw.a.db.execute(&steps[0].lit_sql())));
                if !matches!(ra, Res::Err(_)) {
                    fails.push((0, "equal_result", format!("prepare_error:{}", err_class(&format!("{:#}", e))), json!({"param_sql": psql, "error": format!("{:#}", e), "literal_result": show_res(&ra)})));
                }
                return Some(Outcome { fails, judged: true });
            }
            Err(p) => {
                tw.dirty = true;
                fails.push((0, "equal_result", format!("param_panic:{}", panic_tag(&format!("PANIC: {}", p))), json!({"param_sql": psql, "panic": p})));
                return Some(Outcome { fails, judged: true });
            }
        }
    } else {
        None
    };
    for (k, st) in steps.iter().enumerate() {
        let lsql = st.lit_sql();
        let (sql, params) = st.param_sql(style);
        debug_assert_eq!(sql, psql);
        let ra = res_of(catch(|| tw.a.db.execute(&lsql)));
        let rb = match (&prepared, api) {
            (None, _) => res_of(catch(|| tw.b.db.execute_with_params(&sql, &params))),
            (Some(p), _) => exec_bound(&tw.b, p, &params, st.select && api == Api::Prepared),
        };
        if k > 0 && st.kind.starts_with("insert") && matches!(&rb, Res::Dml(n, _) if *n > 0) {
            cached_insert_wrote = true;
        }
        let detail = |extra: J| json!({"literal_sql": short(&lsql, 500), "param_sql": sql, "params": params.iter().map(|p| short(&format!("{:?}", p), 160)).collect::<Vec<_>>(), "literal_result": show_res(&ra), "param_result": show_res(&rb), "step": k, "extra": extra});
        if let Some(d) = divergence(&ra, &rb) {
            fails.push((k, "equal_result", d, detail(J::Null)));
            // the twins are out of step from here on
            break;
        }
        // final states after this step
        match (state(&tw.a), state(&tw.b)) {
            (Ok(sa), Ok(sb)) => {
                let mut diverged = false;
                for (x, y) in sa.iter().zip(sb.iter()) {
                    if !rows_eq(&x.1, &y.1) {
                        let label = if x.1.len() != y.1.len() { format!("state_row_count:{}", x.0) } else { format!("state_values:{}", x.0) };
                        let asub = if x.0 == "other" { "no_side_effect" } else { "equal_state" };
                        fails.push((k, asub, label, detail(json!({"table": x.0, "literal_twin": show_rows(&x.1), "param_twin": show_rows(&y.1)}))));
                        diverged = true;
                        break;
                    }
                }
                if diverged {
                    break;
                }
            }
            (Ok(_), Err(e)) => {
                let label = if is_panic(&e) { format!("state_unreadable_panic:{}", panic_tag(&e)) } else { format!("state_unreadable:{}", err_class(&e)) };
                fails.push((k, "equal_state", label, detail(json!({"error": e}))));
                break;
            }
            _ => break, // the literal twin is unreadable: not a parameter matter
        }
        // RETURNING id, s: the returned text is the bound text
        if st.kind == "insert_returning" {
            if let Res::Dml(_, Some(ret)) = &rb {
                if let Some((_, _, Some(ts), _)) = st.verbatim.first() {
                    let want = st.slots[*ts].v.ov();
                    let have = ret.get(0).and_then(|r| r.get(1)).cloned();
                    if !matches!(&have, Some(h) if h == &want) {
                        fails.push((k, "stored_verbatim", "returned_differs".to_string(), detail(json!({"bound": short(&format!("{:?}", want), 200), "returned": have.map(|h| short(&format!("{:?}", h), 200))}))));
                    }
                }
            }
        }
        // stored_verbatim: the bound text/blob is in the row, byte for byte (independent of the literal twin)
        if let Res::Dml(n, _) = &rb {
            if *n > 0 {
                for (table, ids, ts, bs) in &st.verbatim {
                    let PV::Int(id) = st.slots[*ids].v else { continue };
                    let cols = if *table == "t" { "s, b" } else { "s, n" };
                    // through a full scan (the primary-key path is compared separately below)
                    let got: Rows = match catch(|| tw.b.db.query(&format!("SELECT id, {} FROM {}", cols, table))) {
                        Ok(Ok(r)) => conv(r).into_iter().filter(|r| matches!(r.get(0), Some(OV::Int(i)) if *i == id)).map(|r| r[1..].to_vec()).collect(),
                        _ => vec![],
                    };
                    if st.kind.starts_with("update") && got.is_empty() {
                        continue; // updated row id not present (id beyond the seeds)
                    }
                    // the same row through the primary-key index, on both twins
                    let pk = |db: &Db| -> Option<usize> {
                        match catch(|| db.db.query(&format!("SELECT id FROM {} WHERE id = {}", table, id))) {
                            Ok(Ok(r)) => Some(r.len()),
                            _ => None,
                        }
                    };
                    let (pa, pb) = (pk(&tw.a), pk(&tw.b));
                    if pa.is_some() && pa != pb {
                        fails.push((k, "equal_state", format!("pk_lookup_row_count:{}", table), detail(json!({"table": table, "id": id, "literal_twin_rows": pa, "param_twin_rows": pb}))));
                    }
                    for (slot, col) in [(ts, 0usize), (bs, 1usize)] {
                        let Some(slot) = slot else { continue };
                        let want = st.slots[*slot].v.ov();
                        let have = got.get(0).and_then(|r| r.get(col)).cloned();
                        let ok = matches!(&have, Some(h) if ov_bits_eq(h, &want));
                        if !ok {
                            fails.push((k, "stored_verbatim", "stored_differs".to_string(), detail(json!({"table": table, "id": id, "bound": short(&format!("{:?}", want), 200), "stored": have.map(|h| short(&format!("{:?}", h), 200))}))));
                        }
                    }
                }
            }
        }
    }
    // no_side_effect: same files as before on the parameter twin, except files the literal twin also has
    let files_after = file_names(&tw.b);
    if files_after != files_before {
        let fa = file_names(&tw.a);
        let added: Vec<&String> = files_after.difference(&files_before).filter(|f| !fa.contains(*f)).collect();
        let removed: Vec<&String> = files_before.difference(&files_after).filter(|f| fa.contains(*f)).collect();
        if !added.is_empty() || !removed.is_empty() {
            fails.push((0, "no_side_effect", "catalog_files_changed".into(), json!({"param_sql": psql, "added": added, "removed": removed})));
        }
    }
    // what may leave structural damage behind (DELETE + re-seeding would not repair it): a row written through the
    // cached INSERT plan (it appends to the primary-key index without regard to key order), B-tree errors, panics
    // in the middle of a write. The next experiment then gets fresh twins.
    const DAMAGING: &[&str] = &["pk_lookup", "param_error:separator", "param_error:key_already", "state_unreadable", "catalog_files", "param_panic:tree", "param_panic:leaf", "param_panic:interior"];
    if cached_insert_wrote || fails.iter().any(|(_, _, l, _)| DAMAGING.iter().any(|d| l.starts_with(d))) {
        tw.dirty = true;
    }
    Some(Outcome { fails, judged: true })
}

fn api_name(api: Api, step: usize, select: bool) -> &'static str {
    match api {
        Api::ExecWithParams => "execute_with_params",
        Api::PreparedExecute => "prepared_execute",
        Api::Prepared => {
            if select {
                "prepared_query"
            } else if step > 0 {
                "cached"
            } else {
                "prepared"
            }
        }
    }
}

fn style_name(s: &Style) -> &'static str {
    match s {
        Style::Anon => "anonymous",
        Style::Positional(p) => {
            if p.windows(2).all(|w| w[0] < w[1]) {
                "positional_in_order"
            } else {
                "positional_out_of_order"
            }
        }
    }
}

// ---------------------------------------------------------------------------------------------

#[derive(Clone, Debug)]
enum Item {
    /// one twin experiment
    Exp { kind: &'static str, api: Api, seed: u64, first_round: bool },
    /// wrong parameter counts for one statement
    Counts { api: Api, seed: u64 },
}

fn exec_bound(db: &Db, p: &turdb::PreparedStatement, ps: &[OV], query: bool) -> Res {
    if query {
        res_of_rows(catch(|| {
            let mut bound = p.bind(ps[0].clone());
            for v in &ps[1..] {
                bound = bound.bind(v.clone());
            }
            bound.query(&db.db)
        }))
    } else {
        res_of(catch(|| {
            let mut bound = p.bind(ps[0].clone());
            for v in &ps[1..] {
                bound = bound.bind(v.clone());
            }
            bound.execute(&db.db)
        }))
    }
}

/// runs items[start..] on its own twins; every TurDB call is preceded by a `current` event carrying the item index
fn worker(ctx: Sink, root: std::path::PathBuf, generation: u32, items: std::sync::Arc<Vec<Item>>, start: usize, t0: std::time::Instant, budget: f64) {
    let mut tw = match Twins::create_at(&root, generation, 0) {
        Ok(t) => t,
        Err(e) => {
            ctx.inconclusive(&format!("cannot create twin databases: {}", e));
            ctx.done();
            return;
        }
    };
    // memo of attributions: (api, kind, label, classes of all slots) -> attributed classes
    let mut memo: BTreeMap<String, String> = BTreeMap::new();
    let mut samples = 0;
    for idx in start..items.len() {
        if t0.elapsed().as_secs_f64() > budget {
            ctx.count("items_skipped_on_time_budget", (items.len() - idx) as u64);
            break;
        }
        match &items[idx] {
            Item::Exp { kind, api, seed, first_round } => {
                let (kind, api) = (*kind, *api);
                let mut rng = Rng::new(*seed);
                let probe = gen_stmt(&mut rng, kind);
                if api == Api::PreparedExecute && !probe.select {
                    continue;
                }
                let nsteps = if api == Api::ExecWithParams { 1 } else if rng.chance(2, 3) { 3 } else { 1 };
                let mut steps = vec![probe];
                while steps.len() < nsteps {
                    steps.push(gen_stmt(&mut rng, kind));
                }
                let n = steps[0].slots.len();
                let style = match rng.below(3) {
                    0 => Style::Anon,
                    1 => Style::Positional((0..n).collect()),
                    _ => {
                        let mut p: Vec<usize> = (0..n).collect();
                        rng.shuffle(&mut p);
                        Style::Positional(p)
                    }
                };
                let (psql0, params0) = steps[0].param_sql(&style);
                ctx.current(format!("{}/{}", api_name(api, 0, steps[0].select), kind), json!({"item": idx, "literal_sql": short(&steps[0].lit_sql(), 300), "param_sql": psql0, "params": params0.iter().map(|p| short(&format!("{:?}", p), 120)).collect::<Vec<_>>(), "executions": nsteps}));
                ctx.eval();
                let out = match run_experiment(&mut tw, &steps, &style, api) {
                    Some(o) => o,
                    None => {
                        ctx.count("reset_of_twins_failed", 1);
                        tw.dirty = true;
                        continue;
                    }
                };
                let classes: Vec<String> = steps.iter().flat_map(|s| s.slots.iter().map(|x| x.class.clone())).collect();
                if out.judged {
                    ctx.nontrivial(fnv(format!("{}|{:?}|{}|{}|{:?}", kind, api, style_name(&style), nsteps, classes).as_bytes()));
                    ctx.tally(format!("judged:{}/{}", api_name(api, nsteps - 1, steps[0].select), kind));
                }
                if samples < 6 && *first_round && (kind.len() + api as usize) % 5 == 0 {
                    samples += 1;
                    ctx.sample(json!({"literal_sql": short(&steps[0].lit_sql(), 200), "param_sql": psql0, "params": params0.iter().map(|p| short(&format!("{:?}", p), 80)).collect::<Vec<_>>(), "api": format!("{:?}", api), "executions_of_the_prepared_statement": nsteps}));
                }
                for (step, assertion, label, detail) in out.fails {
                    let apin = api_name(api, step, steps[0].select);
                    // attribute to parameter classes: replace parameters by benign ones, one at a time
                    let memo_key = format!("{}|{}|{}|{}|{:?}", apin, kind, assertion, label, classes);
                    let attributed = if let Some(x) = memo.get(&memo_key) {
                        x.clone()
                    } else {
                        let mut cur: Vec<Stmt> = steps.clone();
                        let mut budget_runs = 12;
                        let still_fails = |tw: &mut Twins, cand: &[Stmt]| -> bool {
                            match run_experiment(tw, cand, &style, api) {
                                Some(o) => o.fails.iter().any(|(s2, a2, l2, _)| *s2 == step && *a2 == assertion && *l2 == label),
                                None => false,
                            }
                        };
                        // first all replaceable parameters at once: most divergences do not depend on any value
                        let mut all = cur.clone();
                        for st in all.iter_mut() {
                            for sl in st.slots.iter_mut() {
                                if let Some(ben) = sl.benign.clone() {
                                    if sl.v != ben {
                                        sl.v = ben;
                                        sl.class = "benign".into();
                                    }
                                }
                            }
                        }
                        if still_fails(&mut tw, &all) {
                            cur = all;
                        } else {
                            for si in 0..cur.len() {
                                for pi in 0..cur[si].slots.len() {
                                    let Some(ben) = cur[si].slots[pi].benign.clone() else { continue };
                                    if cur[si].slots[pi].v == ben || budget_runs == 0 {
                                        continue;
                                    }
                                    budget_runs -= 1;
                                    let mut cand = cur.clone();
                                    cand[si].slots[pi].v = ben;
                                    cand[si].slots[pi].class = "benign".into();
                                    if still_fails(&mut tw, &cand) {
                                        cur = cand;
                                    }
                                }
                            }
                        }
                        let mut keep: BTreeSet<String> = BTreeSet::new();
                        for st in &cur {
                            for sl in &st.slots {
                                if sl.class != "benign" && sl.benign.is_some() && sl.benign.as_ref() != Some(&sl.v) {
                                    keep.insert(sl.class.clone());
                                }
                            }
                        }
                        let x = if keep.is_empty() { "any".to_string() } else { keep.into_iter().collect::<Vec<_>>().join("+") };
                        memo.insert(memo_key, x.clone());
                        x
                    };
                    let sig = format!("C13/{}/{}/{}/{}", apin, kind, attributed, label);
                    ctx.violation(assertion, &sig, json!({"placeholder_style": style_name(&style), "detail": detail, "create": CREATE, "seed": seed_sql()}));
                }
            }
            Item::Counts { api, seed } => {
                let api = *api;
                let mut rng = Rng::new(*seed);
                let kind = *rng.pick(KINDS);
                let st = gen_stmt(&mut rng, kind);
                let style = if rng.chance(1, 2) { Style::Anon } else { Style::Positional((0..st.slots.len()).collect()) };
                let (sql, params) = st.param_sql(&style);
                for variant in ["too_few", "none", "too_many"] {
                    let apin = api_name(api, 0, st.select);
                    let ps: Vec<OV> = match variant {
                        "too_few" => params[..params.len() - 1].to_vec(),
                        "none" => vec![],
                        _ => params.iter().cloned().chain(std::iter::once(OV::Int(1))).collect(),
                    };
                    if api != Api::ExecWithParams && ps.is_empty() {
                        continue; // the API has no way to execute without binding
                    }
                    ctx.current(format!("{}/{}/{}", apin, kind, variant), json!({"item": idx, "param_sql": sql, "params_given": ps.len(), "params_needed": params.len()}));
                    if !tw.reset() {
                        continue;
                    }
                    ctx.eval();
                    let rb = match api {
                        Api::ExecWithParams => res_of(catch(|| tw.b.db.execute_with_params(&sql, &ps))),
                        _ => match catch(|| tw.b.db.prepare(&sql)) {
                            Ok(Ok(p)) => exec_bound(&tw.b, &p, &ps, st.select),
                            Ok(Err(e)) => Res::Err(format!("{:#}", e)),
                            Err(p) => Res::Err(format!("PANIC: {}", p)),
                        },
                    };
                    ctx.nontrivial(fnv(format!("count|{}|{}|{}", apin, kind, variant).as_bytes()));
                    let detail = json!({"param_sql": sql, "params_given": ps.len(), "params_needed": params.len(), "result": show_res(&rb)});
                    if matches!(&rb, Res::Err(e) if is_panic(e)) {
                        tw.dirty = true;
                    }
                    match &rb {
                        Res::Err(e) if is_panic(e) => {
                            ctx.violation("param_count_error", &format!("C13/{}/{}/{}/panic:{}", apin, kind, variant, panic_tag(e)), detail);
                        }
                        Res::Err(_) => {
                            ctx.count(&format!("param_count_{}_rejected", variant), 1);
                            // nothing may have changed
                            if let (Ok(sa), Ok(sb)) = (state(&tw.a), state(&tw.b)) {
                                if !sa.iter().zip(sb.iter()).all(|(x, y)| rows_eq(&x.1, &y.1)) {
                                    ctx.violation("param_count_error", &format!("C13/{}/{}/{}/rejected_but_state_changed", apin, kind, variant), detail);
                                }
                            }
                        }
                        _ => {
                            if variant == "too_many" {
                                // surplus parameters are not covered by the documentation: counted, not judged
                                ctx.count("param_count_too_many_accepted", 1);
                            } else {
                                ctx.violation("param_count_error", &format!("C13/{}/{}/{}/accepted", apin, kind, variant), detail);
                            }
                        }
                    }
                }
            }
        }
    }
    ctx.done();
}

pub fn run(a: &Args) -> i32 {
    let mut ctx = Ctx::new(
        "C13",
        &a.tier,
        a.seed,
        "exploration",
        "twin databases (t(id PK, a BIGINT, f DOUBLE, s TEXT, b BLOB), u(id PK, s TEXT NOT NULL, n INT DEFAULT 7), other) reset to the same seed rows before every experiment; 22 statement shapes (INSERT all columns / permuted and partial column lists / mixed with literals / multi-row / repeated parameter / RETURNING / DEFAULT and NOT NULL columns, UPDATE with SET and WHERE parameters, SET expressions, DELETE, SELECT with WHERE / LIMIT / select-list / BETWEEN / IN parameters) are rendered with literals (run through Database::execute on twin A) and with `?` or `$n` placeholders in random order (run on twin B through execute_with_params, prepare->bind->execute/query, and three executions of one prepared statement with changing parameters = cached plans); sub-assertions equal_result, equal_state, stored_verbatim (bound text/blob reads back byte-identical), no_side_effect (table `other` and the set of database files unchanged), param_count_error (missing parameters are an error, never a panic, and change nothing). Parameter classes: NULL, i64 extremes, floats whose `{}` form differs from the shortest round-trip form, text with quotes, comment markers, semicolons, backslashes, control characters, placeholders, SQL-looking strings, TOAST-sized text, blobs. A divergence is attributed to parameter classes by replacing parameters with benign values one at a time. distinct_nontrivial = distinct (statement shape, API, placeholder style, parameter classes) experiments that were executed on both twins",
    );
    let mut rng = Rng::derive(a.seed, 13);
    let quick = ctx.quick();
    if cfg!(miri) {
        ctx.inconclusive("C13 needs database files (mmap); not runnable under Miri");
        return ctx.finish();
    }
    let scratch = Scratch::new("c13");
    let rounds = if quick { 30 } else { 600 };
    let budget = if quick { 45.0 } else { 520.0 };
    let mut items: Vec<Item> = vec![];
    for round in 0..rounds {
        for &kind in KINDS {
            for &api in &[Api::ExecWithParams, Api::Prepared, Api::PreparedExecute] {
                items.push(Item::Exp { kind, api, seed: rng.next(), first_round: round == 0 });
            }
        }
        for _ in 0..3 {
            for &api in &[Api::ExecWithParams, Api::Prepared] {
                items.push(Item::Counts { api, seed: rng.next() });
            }
        }
    }
    let items = std::sync::Arc::new(items);
    let limit = std::time::Duration::from_secs(if quick { 20 } else { 45 });
    let mut tally: BTreeMap<String, u64> = BTreeMap::new();
    let mut start = 0usize;
    let mut generation = 0u32;
    while start < items.len() {
        let (tx, rx) = std::sync::mpsc::channel();
        let sink = Sink(tx);
        let (root, its, t0) = (scratch.root.clone(), items.clone(), ctx.start);
        let _w = std::thread::spawn(move || worker(sink, root, generation, its, start, t0, budget));
        match pump(&mut ctx, &rx, limit, &mut tally) {
            Ok(()) => break,
            Err((frag, detail)) => {
                // a TurDB call did not return: record it, abandon that worker, continue after the item
                let sig = format!("C13/{}/any/hang", frag);
                *tally.entry(format!("sig:{}", sig)).or_insert(0) += 1;
                ctx.violation("equal_result", &sig, json!({"no_progress_for_s": limit.as_secs(), "last": detail}));
                ctx.count("abandoned_hanging_workers", 1);
                start = detail.get("item").and_then(|x| x.as_u64()).map(|x| x as usize + 1).unwrap_or(items.len());
                generation += 1;
                if generation > 8 {
                    ctx.inconclusive("too many hanging workers");
                    break;
                }
            }
        }
    }
    let sigs: BTreeMap<String, u64> = tally.iter().filter(|(k, _)| k.starts_with("sig:")).map(|(k, v)| (k[4..].to_string(), *v)).collect();
    let judged: BTreeMap<String, u64> = tally.iter().filter(|(k, _)| k.starts_with("judged:")).map(|(k, v)| (k[7..].to_string(), *v)).collect();
    ctx.extra.insert("violations_by_signature".into(), json!(sigs));
    ctx.extra.insert("experiments_by_api_and_shape".into(), json!(judged));
    ctx.assumptions.push("the literal rendering of a float is its shortest round-trip form with a '.' or exponent (lexed as a float); NaN and infinities have no literal and are not generated".into());
    ctx.assumptions.push("parameters are only bound where a value of that SQL type is expected (no text bound to numeric columns)".into());
    ctx.assumptions.push("statements the literal twin rejects must merely be rejected (any error) by the parameter twin; a panic of the literal statement itself is left to C22".into());
    ctx.assumptions.push("surplus parameters (more than placeholders) are undocumented: counted, only a panic is a violation".into());
    ctx.finish()
}

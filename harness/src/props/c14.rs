//! C14: WHERE filtering and select-list truth values follow SQL three-valued logic.
use crate::report::Ctx;
use crate::rng::{fnv, Rng};
use crate::sqlm::cmp::compare;
use crate::sqlm::db::{is_panic, panic_tag, Db, Scratch};
use crate::sqlm::expr::{shrink_expr, E};
use crate::sqlm::gen::{gen_pred, gen_spec, scope_of, ExprOpts, TableSpec};
use crate::sqlm::query::{FromItem, Item, MTable, Query, Select};
use crate::sqlm::query::run_model;
use crate::sqlm::val::{rows_json, Row, V};
use crate::Args;
use serde_json::json;
use std::collections::{BTreeMap, BTreeSet};

fn where_query(t: &str, p: &E) -> Query {
    Query::Select(Select { items: vec![Item::Star], from: vec![FromItem::Table { name: t.into(), alias: None }], where_: Some(p.clone()), ..Default::default() })
}
fn value_query(t: &str, p: &E) -> Query {
    // id + the predicate's value, so rows are identifiable
    Query::Select(Select { items: vec![Item::Expr { e: crate::sqlm::expr::col("id"), alias: None }, Item::Expr { e: p.clone(), alias: Some("v".into()) }], from: vec![FromItem::Table { name: t.into(), alias: None }], ..Default::default() })
}

/// normalise a select-list truth value: TRUE/FALSE/NULL (TurDB may answer Bool or Int 0/1)
fn norm_truth(rows: &[Row]) -> Vec<Row> {
    rows.iter()
        .map(|r| {
            let mut r = r.clone();
            if let Some(v) = r.get_mut(1) {
                *v = match v.truth() {
                    None => V::Null,
                    Some(b) => V::Bool(b),
                };
            }
            r
        })
        .collect()
}

/// stable class of an error message: its first words, letters only
pub fn err_class(e: &str) -> String {
    e.split(|c: char| !c.is_ascii_alphabetic()).filter(|w| !w.is_empty()).take(7).collect::<Vec<_>>().join("_").to_lowercase()
}

/// Err(sig-cause, detail) if TurDB disagrees with the model for this query kind
fn check_one(db: &mut Db, tables: &BTreeMap<String, MTable>, q: &Query, truth_col: bool) -> Result<bool, (String, serde_json::Value)> {
    let m = match run_model(q, tables) {
        Ok(m) => m,
        Err(crate::sqlm::expr::MErr::Unsupported(_)) => return Ok(false),
        Err(crate::sqlm::expr::MErr::Error(_)) => {
            // model says error: any TurDB error is fine, a result is not judged here (C20/C22 territory)
            return Ok(false);
        }
    };
    match db.query(&q.sql()) {
        Ok(rows) => {
            let (rows, m) = if truth_col {
                let mut m2 = m.clone();
                m2.rows = norm_truth(&m.rows);
                (norm_truth(&rows), m2)
            } else {
                (rows, m)
            };
            let fails = compare(&rows, &m);
            if let Some(f) = fails.first() {
                return Err((f.assertion.to_string(), json!({"sql": q.sql(), "fail": f.detail, "got": rows_json(&rows, 8), "want": rows_json(&m.rows, 8)})));
            }
            Ok(true)
        }
        Err(e) if is_panic(&e) => Err((format!("panic/{}", panic_tag(&e)), json!({"sql": q.sql(), "panic": e}))),
        Err(e) => Err((format!("unexpected_error:{}", err_class(&e)), json!({"sql": q.sql(), "error": e}))),
    }
}

pub fn run(a: &Args) -> i32 {
    let mut ctx = Ctx::new(
        "C14",
        &a.tier,
        a.seed,
        "exploration",
        "generated tables (id PK + 2..5 typed columns with NULL strata 0/15/50%, 8..30 rows, small value domains) and random boolean expression trees (depth <= 4: comparisons incl. int-vs-float, AND/OR/NOT, [NOT] IN lists with/without NULL, [NOT] BETWEEN, [NOT] LIKE, IS [NOT] NULL, arithmetic); each predicate is run as `SELECT * .. WHERE p` (bag vs model rows where p is TRUE) and as `SELECT id, p` (TRUE/FALSE/NULL per row). A mismatch is shrunk to a minimal failing expression whose feature set is the signature. distinct_nontrivial = distinct predicates (by SQL text) for which the model yields at least two different truth values over the table's rows",
    );
    let mut rng = Rng::derive(a.seed, 14);
    let quick = ctx.quick();
    let ndb = if quick { 60 } else { 1500 };
    let per_db = 25;
    let scratch = Scratch::new("c14");
    let mut feature_counts: BTreeMap<String, u64> = BTreeMap::new();
    let mut shrunk_seen: BTreeSet<String> = BTreeSet::new();
    for dbi in 0..ndb {
        let ncols = rng.usize(2, 5);
        let spec: TableSpec = gen_spec(&mut rng, "t", ncols, true);
        let nrows = rng.usize(8, 30);
        let rows = spec.gen_rows(&mut rng, nrows);
        let mut tables = BTreeMap::new();
        tables.insert("t".to_string(), spec.to_mtable(rows.clone()));
        let mut db = match Db::create(&scratch.dir(&format!("db{}", dbi))) {
            Ok(d) => d,
            Err(e) => {
                ctx.inconclusive(&format!("cannot create database: {}", e));
                break;
            }
        };
        let mut setup_ok = db.exec(&spec.create_sql()).is_ok();
        for s in spec.insert_sql(&rows) {
            setup_ok &= db.exec(&s).is_ok();
        }
        if !setup_ok {
            ctx.violation("setup", "C14/setup_failed", json!({"log": db.log}));
            continue;
        }
        let scope = scope_of(&spec, None);
        for _ in 0..per_db {
            let opts = ExprOpts::all();
            let depth = rng.below(5) as u32;
            let p = gen_pred(&mut rng, &scope, depth, &opts);
            for truth_col in [false, true] {
                let mk = |p: &E| if truth_col { value_query("t", p) } else { where_query("t", p) };
                let q = mk(&p);
                ctx.eval();
                match check_one(&mut db, &tables, &q, truth_col) {
                    Ok(judged) => {
                        if judged {
                            let mut f = BTreeSet::new();
                            p.features(&mut f);
                            for x in f {
                                *feature_counts.entry(x).or_insert(0) += 1;
                            }
                            // non-trivial: predicate distinguishes rows
                            if let Ok(m) = run_model(&value_query("t", &p), &tables) {
                                let kinds: BTreeSet<String> = m.rows.iter().map(|r| format!("{:?}", r[1].truth())).collect();
                                if kinds.len() >= 2 {
                                    ctx.nontrivial(fnv(p.sql().as_bytes()));
                                }
                            }
                            if ctx.samples.len() < 4 && depth >= 2 {
                                ctx.sample(json!({"sql": q.sql()}));
                            }
                        } else {
                            ctx.count("dropped_model_undecided", 1);
                        }
                    }
                    Err((assertion, detail)) => {
                        // shrink to a minimal failing predicate (same failing assertion)
                        let a0 = assertion.clone();
                        let mut fails = |c: &E| matches!(check_one(&mut db, &tables, &mk(c), truth_col), Err((a, _)) if a == a0);
                        let small = shrink_expr(&p, &mut fails, 200);
                        let mut f = BTreeSet::new();
                        small.features(&mut f);
                        // data fact: does the minimal predicate evaluate to NULL for some row?
                        let null_involved = run_model(&value_query("t", &small), &tables).map(|m| m.rows.iter().any(|r| r[1].is_null())).unwrap_or(false);
                        let kind = if truth_col { "select_value" } else { "where_rows" };
                        let sig = format!("C14/{}/{}/{}{}", kind, assertion, f.into_iter().collect::<Vec<_>>().join("+"), if null_involved { "/null_result" } else { "" });
                        let small_detail = check_one(&mut db, &tables, &mk(&small), truth_col).err().map(|x| x.1);
                        let first = shrunk_seen.insert(sig.clone());
                        ctx.violation(kind, &sig, json!({"original": detail, "minimal_predicate": small.sql(), "minimal_detail": small_detail, "create": spec.create_sql(), "inserts": spec.insert_sql(&rows), "first_of_sig": first}));
                    }
                }
            }
        }
    }
    ctx.extra.insert("judged_predicates_by_feature".into(), json!(feature_counts));
    ctx.assumptions.push("text comparison is bytewise; LIKE is case-sensitive over ASCII; no implicit text<->number comparisons are generated; integer magnitudes stay far from overflow".into());
    ctx.finish()
}

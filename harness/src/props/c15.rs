//! C15: ORDER BY, LIMIT, OFFSET and DISTINCT are exact.
//!
//! Generated duplicate-heavy, NULL-bearing tables (with and without a secondary index on the sort
//! column); generated queries of eight families; each query runs on TurDB and on the reference
//! model (`sqlm::query::run_model`) and is judged by `sqlm::cmp::compare` (+ `distinct_once`).
//! A failing query is first checked for a wrong *base* query (same query without
//! DISTINCT/ORDER BY/LIMIT/OFFSET: not this property's business, dropped and counted), then shrunk
//! to a minimal failing statement whose feature set (+ plan path + causal data fact `null_keys`)
//! is the signature.
use crate::report::{catch, Ctx};
use crate::rng::{fnv, Rng};
use crate::sqlm::cmp::compare;
use crate::sqlm::db::{is_panic, panic_tag, Db, Scratch};
use crate::sqlm::expr::{bin, col, lit, AggFn, BinOp, MErr, E};
use crate::sqlm::gen::{gen_pred, scope_of, ColSpec, ExprOpts, TableSpec, Ty};
use crate::sqlm::query::{run_model, FromItem, Item, Join, JoinKind, MTable, OrderKey, QResult, Query, Select, SetKind};
use crate::sqlm::val::{row_key, rows_json, Row, V};
use crate::Args;
use serde_json::{json, Value as J};
use std::collections::{BTreeMap, BTreeSet};

// ---------------------------------------------------------------------------------------------
// tables
// ---------------------------------------------------------------------------------------------

#[derive(Clone)]
struct Tab {
    spec: TableSpec,
    rows: Vec<Row>,
    /// columns of the secondary index (empty = no index)
    index: Vec<String>,
    /// CREATE INDEX before the INSERTs (else after: backfill)
    index_first: bool,
}

impl Tab {
    fn setup(&self, as_name: &str, rows: &[Row]) -> Vec<String> {
        let mut spec = self.spec.clone();
        spec.name = as_name.to_string();
        let mut v = vec![spec.create_sql()];
        let ix = if self.index.is_empty() { None } else { Some(format!("CREATE INDEX ix_{} ON {} ({})", as_name, as_name, self.index.join(", "))) };
        if self.index_first {
            v.extend(ix.clone());
        }
        v.extend(spec.insert_sql(rows));
        if !self.index_first {
            v.extend(ix);
        }
        v
    }
}

/// small domains: many duplicates
fn dup_value(rng: &mut Rng, ty: Ty, null_pm: u64) -> V {
    if rng.below(1000) < null_pm {
        return V::Null;
    }
    match ty {
        Ty::Int => {
            if rng.chance(5, 6) {
                V::Int(rng.range(0, 3))
            } else {
                V::Int(*rng.pick(&[-2i64, -1, 7, 100, -100]))
            }
        }
        Ty::Float => V::Float(rng.range(-3, 5) as f64 / 2.0),
        Ty::Text => V::Text(rng.pick(&["", "a", "ab", "b", "ba", "zz"]).to_string()),
        Ty::Bool => V::Bool(rng.chance(1, 2)),
    }
}

fn letter(ty: Ty) -> char {
    match ty {
        Ty::Int => 'i',
        Ty::Float => 'f',
        Ty::Text => 't',
        Ty::Bool => 'b',
    }
}

fn gen_tab(rng: &mut Rng, name: &str, tys: &[Ty], nrows: usize, index_pm: u64) -> Tab {
    let cols: Vec<ColSpec> = tys
        .iter()
        .enumerate()
        .map(|(i, ty)| ColSpec {
            name: format!("{}{}{}", letter(*ty), i, name),
            ty: *ty,
            // column 0 (the canonical integer column) always carries NULLs
            null_pm: if i == 0 { *rng.pick(&[200u64, 350, 500]) } else { *rng.pick(&[0u64, 200, 200, 500]) },
        })
        .collect();
    let spec = TableSpec { name: name.to_string(), cols, with_pk: true };
    let mut rows = vec![];
    for i in 0..nrows {
        let mut r = vec![V::Int(i as i64 + 1)];
        for c in &spec.cols {
            r.push(dup_value(rng, c.ty, c.null_pm));
        }
        rows.push(r);
    }
    // ids are inserted in a shuffled order so that insertion order is not id order for payloads
    rng.shuffle(&mut rows);
    let mut index = vec![];
    if rng.below(1000) < index_pm {
        let first = if rng.chance(1, 2) { 0 } else { rng.usize(0, spec.cols.len() - 1) };
        index.push(spec.cols[first].name.clone());
        if spec.cols.len() > 1 && rng.chance(1, 4) {
            let mut second = rng.usize(0, spec.cols.len() - 1);
            if second == first {
                second = (second + 1) % spec.cols.len();
            }
            index.push(spec.cols[second].name.clone());
        }
    }
    Tab { spec, rows, index, index_first: rng.chance(1, 2) }
}

// ---------------------------------------------------------------------------------------------
// query generation
// ---------------------------------------------------------------------------------------------

#[derive(Clone)]
struct C {
    e: E,
    ty: Ty,
}

fn cols_of(tab: &Tab, qual: Option<&str>, with_id: bool) -> Vec<C> {
    let mut v = vec![];
    if with_id {
        v.push(C { e: E::Col { tbl: qual.map(|s| s.to_string()), name: "id".into() }, ty: Ty::Int });
    }
    for c in &tab.spec.cols {
        v.push(C { e: E::Col { tbl: qual.map(|s| s.to_string()), name: c.name.clone() }, ty: c.ty });
    }
    v
}

/// a numeric sort-key expression over the given columns
fn key_expr(rng: &mut Rng, cols: &[C]) -> Option<E> {
    let ints: Vec<&C> = cols.iter().filter(|c| c.ty == Ty::Int).collect();
    let floats: Vec<&C> = cols.iter().filter(|c| c.ty == Ty::Float).collect();
    if !floats.is_empty() && rng.chance(1, 4) {
        // floats: + / - only (no -0.0)
        let c = (*rng.pick(&floats)).clone();
        let l = lit(V::Float(*rng.pick(&[0.5f64, 1.0, 2.5])));
        return Some(bin(if rng.chance(1, 2) { BinOp::Add } else { BinOp::Sub }, c.e, l));
    }
    if ints.is_empty() {
        return None;
    }
    let c = (*rng.pick(&ints)).clone().e;
    Some(match rng.below(7) {
        0 => bin(BinOp::Add, c, lit(V::Int(rng.range(1, 3)))),
        1 => bin(BinOp::Sub, c, lit(V::Int(rng.range(1, 3)))),
        2 => E::Neg(Box::new(c)),
        3 => bin(BinOp::Mul, c, lit(V::Int(-1))),
        4 => bin(BinOp::Mul, c, lit(V::Int(2))),
        5 => {
            let d = (*rng.pick(&ints)).clone().e;
            if d.sql() != c.sql() {
                bin(BinOp::Add, c, d)
            } else {
                bin(BinOp::Add, c, lit(V::Int(1)))
            }
        }
        _ => E::Func("COALESCE".into(), vec![c, lit(V::Int(rng.range(-1, 2)))]),
    })
}

/// select items + ORDER BY over them: every sort key is projected; key forms: plain column,
/// ordinal, alias of an expression, repeated expression
fn items_and_order(rng: &mut Rng, keys: Vec<E>, extras: Vec<E>) -> (Vec<Item>, Vec<OrderKey>) {
    // (expr, alias, key index)
    let mut slots: Vec<(E, Option<String>, Option<usize>)> = vec![];
    for (i, k) in keys.iter().enumerate() {
        let plain = matches!(k, E::Col { .. });
        slots.push((k.clone(), if plain { None } else { Some(format!("k{}", i)) }, Some(i)));
    }
    for x in extras {
        slots.push((x, None, None));
    }
    rng.shuffle(&mut slots);
    let mut order: Vec<Option<OrderKey>> = vec![None; keys.len()];
    for (pos, (e, alias, ki)) in slots.iter().enumerate() {
        if let Some(ki) = ki {
            let desc = rng.chance(1, 2);
            let f = rng.below(10);
            let k = if f < 2 {
                OrderKey::Ordinal(pos + 1, desc)
            } else if alias.is_none() {
                OrderKey::Expr(e.clone(), desc)
            } else if f < 7 {
                OrderKey::Expr(col(alias.as_ref().unwrap()), desc)
            } else {
                OrderKey::Expr(e.clone(), desc)
            };
            order[*ki] = Some(k);
        }
    }
    (slots.into_iter().map(|(e, alias, _)| Item::Expr { e, alias }).collect(), order.into_iter().map(|k| k.unwrap()).collect())
}

fn from_t(name: &str) -> Vec<FromItem> {
    vec![FromItem::Table { name: name.into(), alias: None }]
}

fn small_where(rng: &mut Rng, tab: &Tab, qual: Option<&str>) -> E {
    let mut o = ExprOpts::basic();
    o.in_list = true;
    o.between = true;
    let depth = rng.below(2) as u32;
    gen_pred(rng, &scope_of(&tab.spec, qual), depth, &o)
}

fn push_unique(v: &mut Vec<E>, e: E) {
    if !v.iter().any(|x| x.sql() == e.sql()) {
        v.push(e);
    }
}

/// families order / limit / distinct / pk / limit_only over table t
fn gen_single(rng: &mut Rng, t: &Tab, family: &str) -> Query {
    let cols = cols_of(t, None, true);
    let data_cols = cols_of(t, None, false);
    let distinct = family == "distinct";
    let mut keys: Vec<E> = vec![];
    let nkeys = match family {
        "pk" => 1,
        "limit_only" => 0,
        "distinct" => *rng.pick(&[0usize, 0, 1, 1, 2]),
        _ => *rng.pick(&[1usize, 1, 2, 2, 3]),
    };
    if family == "pk" {
        keys.push(col("id"));
    }
    while keys.len() < nkeys {
        let first = keys.is_empty();
        if first && !t.index.is_empty() && rng.chance(1, 2) {
            push_unique(&mut keys, col(&t.index[0]));
            continue;
        }
        if !distinct && rng.chance(1, 12) {
            push_unique(&mut keys, col("id"));
            continue;
        }
        if rng.chance(3, 10) {
            if let Some(e) = key_expr(rng, if distinct { &data_cols } else { &cols }) {
                push_unique(&mut keys, e);
                continue;
            }
        }
        push_unique(&mut keys, rng.pick(&data_cols).e.clone());
    }
    let mut extras: Vec<E> = vec![];
    let has = |keys: &Vec<E>, e: &E| keys.iter().any(|k| k.sql() == e.sql());
    if distinct {
        if rng.chance(1, 10) && !has(&keys, &col("id")) {
            extras.push(col("id"));
        }
        for c in &data_cols {
            if rng.chance(3, 10) && !has(&keys, &c.e) {
                extras.push(c.e.clone());
            }
        }
        if keys.is_empty() && extras.is_empty() {
            extras.push(rng.pick(&data_cols).e.clone());
        }
    } else {
        if rng.chance(6, 10) && !has(&keys, &col("id")) {
            extras.push(col("id"));
        }
        for c in &data_cols {
            if rng.chance(3, 10) && !has(&keys, &c.e) {
                extras.push(c.e.clone());
            }
        }
        if keys.is_empty() && extras.is_empty() {
            extras.push(col("id"));
        }
    }
    let (items, order_by) = items_and_order(rng, keys, extras);
    let where_ = if rng.chance(if family == "order" || family == "limit" { 25 } else { 15 }, 100) { Some(small_where(rng, t, None)) } else { None };
    Query::Select(Select { distinct, items, from: from_t("t"), where_, order_by, ..Default::default() })
}

fn gen_group(rng: &mut Rng, t: &Tab) -> Query {
    let data_cols = cols_of(t, None, false);
    let mut gcols: Vec<E> = vec![];
    let ng = *rng.pick(&[1usize, 1, 2]);
    while gcols.len() < ng.min(data_cols.len()) {
        push_unique(&mut gcols, rng.pick(&data_cols).e.clone());
    }
    let nums: Vec<&C> = data_cols.iter().filter(|c| matches!(c.ty, Ty::Int | Ty::Float)).collect();
    let mut aggs: Vec<E> = vec![];
    let na = *rng.pick(&[1usize, 1, 2]);
    while aggs.len() < na {
        // COUNT(col) / SUM are rarer: their own defects (C16) make the base query wrong and the case is dropped
        let a = match rng.below(12) {
            0..=4 => E::Agg(AggFn::CountStar, None),
            5 => E::Agg(AggFn::Count, Some(Box::new(rng.pick(&data_cols).e.clone()))),
            6 => E::Agg(AggFn::Sum, Some(Box::new((*rng.pick(&nums)).e.clone()))),
            7..=9 => E::Agg(AggFn::Min, Some(Box::new((*rng.pick(&nums)).e.clone()))),
            _ => E::Agg(AggFn::Max, Some(Box::new((*rng.pick(&nums)).e.clone()))),
        };
        push_unique(&mut aggs, a);
    }
    // keys: a non-empty subset of group columns and aggregates, aggregate first more often than not
    let mut pool: Vec<E> = aggs.iter().cloned().chain(gcols.iter().cloned()).collect();
    if rng.chance(1, 3) {
        rng.shuffle(&mut pool);
    }
    let nk = rng.usize(1, pool.len().min(3));
    let keys: Vec<E> = pool[..nk].to_vec();
    let extras: Vec<E> = pool[nk..].to_vec();
    let (items, order_by) = items_and_order(rng, keys, extras);
    let where_ = if rng.chance(2, 10) { Some(small_where(rng, t, None)) } else { None };
    Query::Select(Select { items, from: from_t("t"), where_, group_by: gcols, order_by, ..Default::default() })
}

fn gen_join(rng: &mut Rng, t: &Tab, u: &Tab) -> Query {
    let tc = cols_of(t, Some("t"), true);
    let uc = cols_of(u, Some("u"), true);
    let tdata = cols_of(t, Some("t"), false);
    let udata = cols_of(u, Some("u"), false);
    // join columns: same layout position (same type); position 0 (ints with NULLs and duplicates) preferred
    let j = if rng.chance(6, 10) { 0 } else { rng.usize(0, tdata.len() - 1) };
    let on = bin(BinOp::Eq, tdata[j].e.clone(), udata[j].e.clone());
    let kind = if rng.chance(6, 10) { JoinKind::Inner } else { JoinKind::Left };
    let both: Vec<C> = tdata.iter().cloned().chain(udata.iter().cloned()).collect();
    let all: Vec<C> = tc.iter().cloned().chain(uc.iter().cloned()).collect();
    let nkeys = *rng.pick(&[1usize, 2, 2, 3]);
    let mut keys: Vec<E> = vec![];
    while keys.len() < nkeys {
        // expression items over a join are rare: their own defect (C17) makes the base query wrong
        if rng.chance(1, 20) {
            if let Some(e) = key_expr(rng, &all) {
                push_unique(&mut keys, e);
                continue;
            }
        }
        // the two id columns share their name: qualified references must still pick the right one
        if rng.chance(1, 8) {
            push_unique(&mut keys, if rng.chance(1, 2) { tc[0].e.clone() } else { uc[0].e.clone() });
            continue;
        }
        push_unique(&mut keys, rng.pick(&both).e.clone());
    }
    let distinct = rng.chance(1, 10);
    let mut extras = vec![];
    if !distinct {
        for idc in [&tc[0], &uc[0]] {
            if rng.chance(6, 10) && !keys.iter().any(|k| k.sql() == idc.e.sql()) {
                extras.push(idc.e.clone());
            }
        }
    }
    let (items, order_by) = items_and_order(rng, keys, extras);
    let where_ = if rng.chance(15, 100) { Some(small_where(rng, t, Some("t"))) } else { None };
    Query::Select(Select {
        distinct,
        items,
        from: from_t("t"),
        joins: vec![Join { kind, item: FromItem::Table { name: "u".into(), alias: None }, on: Some(on) }],
        where_,
        order_by,
        ..Default::default()
    })
}

fn gen_setop(rng: &mut Rng, t: &Tab, u: &Tab) -> Query {
    let n = t.spec.cols.len();
    let k = rng.usize(1, n.min(2));
    let mut pos: Vec<usize> = (0..n).collect();
    rng.shuffle(&mut pos);
    pos.truncate(k);
    let self_union = rng.chance(15, 100);
    let right_tab = if self_union { t } else { u };
    let branch = |tab: &Tab, w: Option<E>| -> Query {
        Query::Select(Select {
            items: pos.iter().map(|p| Item::Expr { e: col(&tab.spec.cols[*p].name), alias: None }).collect(),
            from: from_t(&tab.spec.name),
            where_: w,
            ..Default::default()
        })
    };
    let lw = if rng.chance(2, 10) { Some(small_where(rng, t, None)) } else { None };
    let rw = if self_union || rng.chance(2, 10) { Some(small_where(rng, right_tab, None)) } else { None };
    let (kind, all) = match rng.below(100) {
        0..=44 => (SetKind::Union, true),
        45..=84 => (SetKind::Union, false),
        85..=92 => (SetKind::Intersect, false),
        _ => (SetKind::Except, false),
    };
    let mut order_by = vec![];
    if rng.chance(9, 10) {
        let mut idx: Vec<usize> = (0..k).collect();
        rng.shuffle(&mut idx);
        idx.truncate(rng.usize(1, k));
        for i in idx {
            let desc = rng.chance(1, 2);
            if rng.chance(1, 2) {
                order_by.push(OrderKey::Ordinal(i + 1, desc));
            } else {
                order_by.push(OrderKey::Expr(col(&t.spec.cols[pos[i]].name), desc));
            }
        }
    }
    Query::SetOp { kind, all, left: Box::new(branch(t, lw)), right: Box::new(branch(right_tab, rw)), order_by, limit: None, offset: None }
}

fn set_window(q: &mut Query, lim: Option<u64>, off: Option<u64>) {
    match q {
        Query::Select(s) => {
            s.limit = lim;
            s.offset = off;
        }
        Query::SetOp { limit, offset, .. } => {
            *limit = lim;
            *offset = off;
        }
    }
}

fn window_of(q: &Query) -> (Option<u64>, Option<u64>) {
    match q {
        Query::Select(s) => (s.limit, s.offset),
        Query::SetOp { limit, offset, .. } => (*limit, *offset),
    }
}

fn order_of(q: &Query) -> &Vec<OrderKey> {
    match q {
        Query::Select(s) => &s.order_by,
        Query::SetOp { order_by, .. } => order_by,
    }
}

fn order_of_mut(q: &mut Query) -> &mut Vec<OrderKey> {
    match q {
        Query::Select(s) => &mut s.order_by,
        Query::SetOp { order_by, .. } => order_by,
    }
}

/// LIMIT/OFFSET relative to the cardinality n of the unwindowed result: 0, 1, inside, at and beyond the end
fn pick_window(rng: &mut Rng, n: u64) -> (Option<u64>, Option<u64>) {
    let lim = *rng.pick(&[0u64, 1, 1, 2, 3, n / 2, n.saturating_sub(1), n, n + 1, n + 7]);
    let off = if rng.chance(45, 100) { None } else { Some(*rng.pick(&[0u64, 1, 1, 2, n / 2, n.saturating_sub(1), n, n + 3])) };
    if off.is_some() && rng.chance(1, 10) {
        return (None, off);
    }
    (Some(lim), off)
}

// ---------------------------------------------------------------------------------------------
// running and judging
// ---------------------------------------------------------------------------------------------

/// stable class of an error message: its first words, letters only
fn err_class(e: &str) -> String {
    e.split(|c: char| !c.is_ascii_alphabetic()).filter(|w| !w.is_empty()).take(7).collect::<Vec<_>>().join("_").to_lowercase()
}

enum Outcome {
    Dropped(String),
    Pass { m: QResult },
    Fail { fails: Vec<(String, J)>, got: Option<Vec<Row>>, m: QResult },
}

fn is_distinct(q: &Query) -> bool {
    matches!(q, Query::Select(s) if s.distinct)
}

fn judge(q: &Query, got: &[Row], m: &QResult) -> Vec<(String, J)> {
    let mut out: Vec<(String, J)> = vec![];
    let fails = compare(got, m);
    let width_bad = fails.iter().any(|f| f.assertion == "width");
    // distinct_once: no output row of a DISTINCT query occurs twice
    let mut dup: Option<J> = None;
    if is_distinct(q) && !width_bad {
        let mut seen = BTreeSet::new();
        for r in got {
            if !seen.insert(row_key(r, true)) {
                dup = Some(json!({"row_returned_more_than_once": r.iter().map(|v| v.to_json()).collect::<Vec<_>>()}));
                break;
            }
        }
    }
    for f in fails {
        if f.assertion != "width" {
            if let Some(d) = dup.take() {
                out.push(("distinct_once".into(), d));
            }
        }
        out.push((f.assertion.to_string(), f.detail));
    }
    if let Some(d) = dup.take() {
        out.push(("distinct_once".into(), d));
    }
    out
}

fn run_case(db: &mut Db, tables: &BTreeMap<String, MTable>, q: &Query) -> Outcome {
    let m = match run_model(q, tables) {
        Ok(m) => m,
        Err(MErr::Unsupported(r)) => return Outcome::Dropped(format!("unsupported:{}", err_class(&r))),
        Err(MErr::Error(r)) => return Outcome::Dropped(format!("model_error:{}", err_class(&r))),
    };
    match db.query(&q.sql()) {
        Ok(got) => {
            let fails = judge(q, &got, &m);
            if fails.is_empty() {
                Outcome::Pass { m }
            } else {
                Outcome::Fail { fails, got: Some(got), m }
            }
        }
        Err(e) if is_panic(&e) => {
            // stable tag: file of the panic site + message class (no line numbers)
            let what = if e.contains("total order") {
                "sort_total_order_violation".to_string()
            } else {
                let file = panic_tag(&e).split(':').next().unwrap_or("").to_string();
                let class = if e.contains("index out of bounds") { "index_out_of_bounds".to_string() } else { err_class(&e) };
                format!("{}:{}", file, class)
            };
            Outcome::Fail { fails: vec![(format!("panic:{}", what), json!({"panic": e}))], got: None, m }
        }
        Err(e) => Outcome::Fail { fails: vec![(format!("unexpected_error:{}", err_class(&e)), json!({"error": e}))], got: None, m },
    }
}

fn first_fail(db: &mut Db, tables: &BTreeMap<String, MTable>, q: &Query) -> Option<String> {
    match run_case(db, tables, q) {
        Outcome::Fail { fails, .. } => fails.first().map(|f| f.0.clone()),
        _ => None,
    }
}

/// the same query without DISTINCT / ORDER BY / LIMIT / OFFSET
fn base_of(q: &Query) -> Query {
    let mut b = q.clone();
    match &mut b {
        Query::Select(s) => {
            s.distinct = false;
            s.order_by.clear();
            s.limit = None;
            s.offset = None;
        }
        Query::SetOp { order_by, limit, offset, .. } => {
            order_by.clear();
            *limit = None;
            *offset = None;
        }
    }
    b
}

fn has_c15_feature(q: &Query) -> bool {
    let (l, o) = window_of(q);
    is_distinct(q) || !order_of(q).is_empty() || l.is_some() || o.is_some()
}

/// which ordering mechanism the plan uses
fn plan_path(plan: &Option<String>, q: &Query) -> String {
    let ordered = !order_of(q).is_empty();
    let p = match plan {
        Some(p) => p,
        None => return "explain_failed".to_string(),
    };
    let base = if p.contains("-> TopK") {
        "topk"
    } else if p.contains("-> Sort\n") {
        "sort"
    } else if !ordered {
        if p.contains("-> Limit") {
            "limit_only"
        } else {
            "no_order"
        }
    } else if p.contains("-> SecondaryIndexScan") {
        if p.contains("-> Limit") {
            "index_order+limit"
        } else {
            "index_order"
        }
    } else if p.contains("-> TableScan") && !p.contains("-> SetOp") && !p.contains("Join") && !p.contains("Aggregate") {
        if p.contains("-> Limit") {
            "pk_order+limit"
        } else {
            "pk_order"
        }
    } else {
        "order_by_without_sort_node"
    };
    // the hand-written execution paths of database.rs / set_ops.rs are separate mechanisms
    let over = if p.contains("-> SetOp") {
        "/setop"
    } else if p.contains("-> IndexNestedLoopJoin") {
        "/index_nested_loop_join"
    } else if p.contains("HashJoin") {
        "/hash_join"
    } else if p.contains("-> NestedLoopJoin") {
        "/nested_loop_join"
    } else {
        ""
    };
    format!("{}{}", base, over)
}

// ---------------------------------------------------------------------------------------------
// shrinking
// ---------------------------------------------------------------------------------------------

fn subst(e: &E, from_sql: &str, to: &E) -> E {
    if e.sql() == from_sql {
        return to.clone();
    }
    let b = |x: &E| Box::new(subst(x, from_sql, to));
    match e {
        E::Neg(x) => E::Neg(b(x)),
        E::Not(x) => E::Not(b(x)),
        E::Bin(op, l, r) => E::Bin(*op, b(l), b(r)),
        E::IsNull(x, n) => E::IsNull(b(x), *n),
        E::Func(n, args) => E::Func(n.clone(), args.iter().map(|a| subst(a, from_sql, to)).collect()),
        E::Agg(f, Some(x)) => E::Agg(*f, Some(b(x))),
        other => other.clone(),
    }
}

fn col_refs(e: &E, out: &mut Vec<E>) {
    e.visit(&mut |x| {
        if matches!(x, E::Col { .. }) && !out.iter().any(|o| o.sql() == x.sql()) {
            out.push(x.clone());
        }
    });
}

fn refers_to(e: &E, tbl: &str) -> bool {
    let mut r = vec![];
    col_refs(e, &mut r);
    r.iter().any(|c| matches!(c, E::Col { tbl: Some(t), .. } if t == tbl))
}

/// item index an order key points at (ordinal, alias, repeated expression / column)
fn key_item(s_items: &[Item], k: &OrderKey) -> Option<usize> {
    match k {
        OrderKey::Ordinal(i, _) => Some(*i - 1),
        OrderKey::Expr(e, _) => s_items.iter().position(|it| match it {
            Item::Expr { e: ie, alias } => ie.sql() == e.sql() || matches!((alias, e), (Some(a), E::Col { tbl: None, name }) if a.eq_ignore_ascii_case(name)),
            _ => false,
        }),
    }
}

/// single-step simplifications of a query (all valid SQL again)
fn candidates(q: &Query) -> Vec<Query> {
    let mut out: Vec<Query> = vec![];
    let (lim, off) = window_of(q);
    // window
    if off.is_some() {
        let mut c = q.clone();
        set_window(&mut c, lim, None);
        out.push(c);
    }
    if lim.is_some() {
        let mut c = q.clone();
        set_window(&mut c, None, None);
        out.push(c);
        if off.is_some() {
            let mut c = q.clone();
            set_window(&mut c, None, off);
            out.push(c);
        }
    }
    // order keys: remove, DESC -> ASC
    let ob = order_of(q);
    for i in 0..ob.len() {
        let mut c = q.clone();
        order_of_mut(&mut c).remove(i);
        out.push(c);
    }
    for i in 0..ob.len() {
        let desc = match &ob[i] {
            OrderKey::Ordinal(_, d) | OrderKey::Expr(_, d) => *d,
        };
        if desc {
            let mut c = q.clone();
            match &mut order_of_mut(&mut c)[i] {
                OrderKey::Ordinal(_, d) | OrderKey::Expr(_, d) => *d = false,
            }
            out.push(c);
        }
    }
    match q {
        Query::SetOp { kind, all, left, right, order_by, limit, offset } => {
            // one branch alone, keeping ORDER BY / LIMIT (names of the left branch are turned into ordinals for the right)
            if let (Query::Select(l), Query::Select(r)) = (&**left, &**right) {
                let mut c = l.clone();
                c.order_by = order_by.clone();
                c.limit = *limit;
                c.offset = *offset;
                out.push(Query::Select(c));
                let mut c = r.clone();
                c.order_by = order_by
                    .iter()
                    .map(|k| match k {
                        OrderKey::Expr(e, d) => match key_item(&l.items, k) {
                            Some(p) => match &r.items[p] {
                                Item::Expr { e: re, .. } => OrderKey::Expr(re.clone(), *d),
                                _ => OrderKey::Expr(e.clone(), *d),
                            },
                            None => OrderKey::Expr(e.clone(), *d),
                        },
                        o => o.clone(),
                    })
                    .collect();
                c.limit = *limit;
                c.offset = *offset;
                out.push(Query::Select(c));
                for (side, s) in [(0, l), (1, r)] {
                    if s.where_.is_some() {
                        let mut s2 = s.clone();
                        s2.where_ = None;
                        let (nl, nr) = if side == 0 { (Query::Select(s2), (**right).clone()) } else { ((**left).clone(), Query::Select(s2)) };
                        out.push(Query::SetOp { kind: *kind, all: *all, left: Box::new(nl), right: Box::new(nr), order_by: order_by.clone(), limit: *limit, offset: *offset });
                    }
                }
                // fewer columns (only when ORDER BY uses no ordinal beyond / no name of the removed column)
                if l.items.len() > 1 {
                    for p in 0..l.items.len() {
                        let used = order_by.iter().any(|k| key_item(&l.items, k) == Some(p));
                        let has_ordinal = order_by.iter().any(|k| matches!(k, OrderKey::Ordinal(..)));
                        if used || has_ordinal {
                            continue;
                        }
                        let mut l2 = l.clone();
                        let mut r2 = r.clone();
                        l2.items.remove(p);
                        r2.items.remove(p);
                        out.push(Query::SetOp { kind: *kind, all: *all, left: Box::new(Query::Select(l2)), right: Box::new(Query::Select(r2)), order_by: order_by.clone(), limit: *limit, offset: *offset });
                    }
                }
            }
            if !*all && *kind == SetKind::Union {
                out.push(Query::SetOp { kind: *kind, all: true, left: left.clone(), right: right.clone(), order_by: order_by.clone(), limit: *limit, offset: *offset });
            }
        }
        Query::Select(s) => {
            if s.where_.is_some() {
                let mut c = s.clone();
                c.where_ = None;
                out.push(Query::Select(c));
            }
            if s.distinct {
                let mut c = s.clone();
                c.distinct = false;
                out.push(Query::Select(c));
            }
            // drop the join: remove everything that refers to u
            if !s.joins.is_empty() {
                let mut c = s.clone();
                let has_ordinal = c.order_by.iter().any(|k| matches!(k, OrderKey::Ordinal(..)));
                if !has_ordinal {
                    let dropped_alias: Vec<String> = c.items.iter().filter_map(|it| match it {
                        Item::Expr { e, alias: Some(a) } if refers_to(e, "u") => Some(a.clone()),
                        _ => None,
                    }).collect();
                    c.items.retain(|it| !matches!(it, Item::Expr { e, .. } if refers_to(e, "u")));
                    c.order_by.retain(|k| match k {
                        OrderKey::Expr(e, _) => !refers_to(e, "u") && !matches!(e, E::Col { tbl: None, name } if dropped_alias.iter().any(|a| a == name)),
                        _ => true,
                    });
                    if c.where_.as_ref().map(|w| refers_to(w, "u")).unwrap_or(false) {
                        c.where_ = None;
                    }
                    c.joins.clear();
                    if !c.items.is_empty() {
                        out.push(Query::Select(c));
                    }
                }
                if s.joins[0].kind == JoinKind::Left {
                    let mut c = s.clone();
                    c.joins[0].kind = JoinKind::Inner;
                    out.push(Query::Select(c));
                }
            }
            // ordinal -> the item's alias / expression
            for (i, k) in s.order_by.iter().enumerate() {
                if let OrderKey::Ordinal(p, d) = k {
                    if let Some(Item::Expr { e, alias }) = s.items.get(*p - 1) {
                        let mut c = s.clone();
                        c.order_by[i] = OrderKey::Expr(match alias {
                            Some(a) => col(a),
                            None => e.clone(),
                        }, *d);
                        out.push(Query::Select(c));
                    }
                }
            }
            // repeated expression -> alias reference
            for (i, k) in s.order_by.iter().enumerate() {
                if let OrderKey::Expr(e, d) = k {
                    if !matches!(e, E::Col { .. }) {
                        if let Some(Item::Expr { alias: Some(a), .. }) = key_item(&s.items, k).and_then(|p| s.items.get(p)) {
                            let mut c = s.clone();
                            c.order_by[i] = OrderKey::Expr(col(a), *d);
                            out.push(Query::Select(c));
                        }
                    }
                }
            }
            // expression item -> one of its columns (not for aggregates), keys follow
            for (p, it) in s.items.iter().enumerate() {
                if let Item::Expr { e, alias } = it {
                    if matches!(e, E::Col { .. }) || e.has_agg() {
                        continue;
                    }
                    let mut refs = vec![];
                    col_refs(e, &mut refs);
                    for r in refs {
                        if s.items.iter().any(|o| matches!(o, Item::Expr { e: oe, .. } if oe.sql() == r.sql())) {
                            continue;
                        }
                        let mut c = s.clone();
                        c.items[p] = Item::Expr { e: r.clone(), alias: None };
                        for k in c.order_by.iter_mut() {
                            if let OrderKey::Expr(ke, d) = k {
                                let is_alias = matches!((alias, &*ke), (Some(a), E::Col { tbl: None, name }) if a == name);
                                if is_alias || ke.sql() == e.sql() {
                                    *k = OrderKey::Expr(r.clone(), *d);
                                }
                            }
                        }
                        out.push(Query::Select(c));
                    }
                }
            }
            // remove an item no key points at
            if s.items.len() > 1 {
                for p in 0..s.items.len() {
                    if s.order_by.iter().any(|k| key_item(&s.items, k) == Some(p)) {
                        continue;
                    }
                    let mut c = s.clone();
                    c.items.remove(p);
                    for k in c.order_by.iter_mut() {
                        if let OrderKey::Ordinal(i, _) = k {
                            if *i - 1 > p {
                                *i -= 1;
                            }
                        }
                    }
                    out.push(Query::Select(c));
                }
            }
            // fewer group columns
            if s.group_by.len() > 1 {
                for g in 0..s.group_by.len() {
                    let gs = s.group_by[g].sql();
                    if s.items.iter().any(|it| matches!(it, Item::Expr { e, .. } if e.sql() == gs)) {
                        continue;
                    }
                    let mut c = s.clone();
                    c.group_by.remove(g);
                    out.push(Query::Select(c));
                }
            }
            // canonical column: replace a plain non-canonical data column by column 0 of its table
            let mut refs = vec![];
            for it in &s.items {
                if let Item::Expr { e, .. } = it {
                    col_refs(e, &mut refs);
                }
            }
            for r in refs {
                if let E::Col { tbl, name } = &r {
                    if name == "id" {
                        continue;
                    }
                    let suffix = &name[name.len() - 1..];
                    let canon = E::Col { tbl: tbl.clone(), name: format!("i0{}", suffix) };
                    if canon.sql() == r.sql() {
                        continue;
                    }
                    let mut present = vec![];
                    for it in &s.items {
                        if let Item::Expr { e, .. } = it {
                            col_refs(e, &mut present);
                        }
                    }
                    if present.iter().any(|x| x.sql() == canon.sql()) {
                        continue;
                    }
                    // only type-agnostic uses (plain column items, group columns, COUNT/MIN/MAX arguments)
                    let mut c = s.clone();
                    let rs = r.sql();
                    for it in c.items.iter_mut() {
                        if let Item::Expr { e, .. } = it {
                            *e = subst(e, &rs, &canon);
                        }
                    }
                    for g in c.group_by.iter_mut() {
                        *g = subst(g, &rs, &canon);
                    }
                    for k in c.order_by.iter_mut() {
                        if let OrderKey::Expr(e, _) = k {
                            *e = subst(e, &rs, &canon);
                        }
                    }
                    if let Some(w) = &c.where_ {
                        if refers_name(w, name) {
                            continue;
                        }
                    }
                    out.push(Query::Select(c));
                }
            }
        }
    }
    out
}

fn refers_name(e: &E, name: &str) -> bool {
    let mut r = vec![];
    col_refs(e, &mut r);
    r.iter().any(|c| matches!(c, E::Col { name: n, .. } if n == name))
}

fn qsize(q: &Query) -> usize {
    q.sql().len()
}

/// greedy: take the first candidate that still fails with the same first assertion
fn shrink(db: &mut Db, tables: &BTreeMap<String, MTable>, q: &Query, a0: &str, budget: usize) -> Query {
    let mut cur = q.clone();
    let mut left = budget;
    'outer: loop {
        for cand in candidates(&cur) {
            if left == 0 {
                break 'outer;
            }
            if qsize(&cand) > qsize(&cur) + 8 {
                continue;
            }
            left -= 1;
            if first_fail(db, tables, &cand).as_deref() == Some(a0) {
                cur = cand;
                continue 'outer;
            }
        }
        break;
    }
    cur
}

// ---------------------------------------------------------------------------------------------
// signatures
// ---------------------------------------------------------------------------------------------

fn type_tag(name: &str) -> Option<&'static str> {
    if name == "id" {
        return Some("pk");
    }
    match name.chars().next() {
        Some('f') => Some("float"),
        Some('t') => Some("text"),
        Some('b') => Some("bool"),
        _ => None,
    }
}

fn sig_features(q: &Query) -> BTreeSet<String> {
    let mut f = BTreeSet::new();
    let (l, o) = window_of(q);
    if l.is_some() {
        f.insert("limit".to_string());
    }
    if o.is_some() {
        f.insert("offset".to_string());
    }
    let ob = order_of(q);
    if !ob.is_empty() {
        f.insert("order_by".into());
    }
    if ob.len() >= 2 {
        f.insert("multi_key".into());
    }
    let mut refs: Vec<E> = vec![];
    let key_items = |items: &[Item], f: &mut BTreeSet<String>, refs: &mut Vec<E>| {
        for k in ob {
            let desc = match k {
                OrderKey::Ordinal(_, d) | OrderKey::Expr(_, d) => *d,
            };
            if desc {
                f.insert("desc".into());
            }
            let target = key_item(items, k).and_then(|p| items.get(p));
            match k {
                OrderKey::Ordinal(..) => {
                    f.insert("key:ordinal".into());
                }
                OrderKey::Expr(e, _) => {
                    if !matches!(e, E::Col { .. }) {
                        f.insert("key:repeated_expr".into());
                    } else if matches!(target, Some(Item::Expr { alias: Some(_), .. })) {
                        f.insert("key:alias".into());
                    }
                }
            }
            if let Some(Item::Expr { e, .. }) = target {
                if e.has_agg() {
                    f.insert("key_is:aggregate".into());
                } else if !matches!(e, E::Col { .. }) {
                    let mut t = BTreeSet::new();
                    e.features(&mut t);
                    let fnc = t.iter().any(|x| x.starts_with("fn:"));
                    f.insert(if fnc { "key_is:function".to_string() } else { "key_is:arith".to_string() });
                }
                col_refs(e, refs);
            }
        }
    };
    match q {
        Query::Select(s) => {
            key_items(&s.items, &mut f, &mut refs);
            if s.distinct {
                f.insert("distinct".into());
                for it in &s.items {
                    if let Item::Expr { e, .. } = it {
                        col_refs(e, &mut refs);
                    }
                }
                if s.items.len() >= 2 {
                    f.insert("distinct_multi_col".into());
                }
            }
            if s.where_.is_some() {
                f.insert("where".into());
            }
            if !s.group_by.is_empty() {
                f.insert("group_by".into());
            }
            for j in &s.joins {
                f.insert(format!("join:{:?}", j.kind).to_lowercase());
            }
        }
        Query::SetOp { kind, all, left, .. } => {
            f.insert(format!("setop:{:?}{}", kind, if *all { "_all" } else { "" }).to_lowercase());
            if let Query::Select(l) = &**left {
                key_items(&l.items, &mut f, &mut refs);
            }
            let mut t = BTreeSet::new();
            q.features(&mut t);
            if t.contains("where") {
                f.insert("where".into());
            }
        }
    }
    for r in refs {
        if let E::Col { name, .. } = r {
            if let Some(t) = type_tag(&name) {
                f.insert(format!("col:{}", t));
            }
        }
    }
    f
}

/// columns (by table) the minimal query's items / keys / group columns refer to
fn involved_columns(q: &Query) -> BTreeSet<String> {
    let mut refs = vec![];
    let of_select = |s: &Select, refs: &mut Vec<E>| {
        for it in &s.items {
            if let Item::Expr { e, .. } = it {
                col_refs(e, refs);
            }
        }
        for g in &s.group_by {
            col_refs(g, refs);
        }
        for k in &s.order_by {
            if let OrderKey::Expr(e, _) = k {
                col_refs(e, refs);
            }
        }
        for j in &s.joins {
            if let Some(on) = &j.on {
                col_refs(on, refs);
            }
        }
    };
    match q {
        Query::Select(s) => of_select(s, &mut refs),
        Query::SetOp { left, right, .. } => {
            for b in [left, right] {
                if let Query::Select(s) = &**b {
                    of_select(s, &mut refs);
                }
            }
        }
    }
    refs.into_iter().filter_map(|e| if let E::Col { name, .. } = e { Some(name) } else { None }).collect()
}

fn rename_tables(q: &Query, map: &BTreeMap<String, String>) -> Query {
    let ren = |f: &FromItem| -> FromItem {
        match f {
            FromItem::Table { name, alias } => match map.get(name) {
                Some(n) => FromItem::Table { name: n.clone(), alias: Some(alias.clone().unwrap_or_else(|| name.clone())) },
                None => f.clone(),
            },
            other => other.clone(),
        }
    };
    match q {
        Query::Select(s) => {
            let mut c = s.clone();
            c.from = s.from.iter().map(ren).collect();
            for j in c.joins.iter_mut() {
                j.item = ren(&j.item);
            }
            Query::Select(c)
        }
        Query::SetOp { kind, all, left, right, order_by, limit, offset } => Query::SetOp { kind: *kind, all: *all, left: Box::new(rename_tables(left, map)), right: Box::new(rename_tables(right, map)), order_by: order_by.clone(), limit: *limit, offset: *offset },
    }
}

/// NULL-free twins of the tables (same rows with every NULL replaced by a non-NULL value, same index),
/// created lazily once per database
#[derive(Default)]
struct NullFree {
    tried: bool,
    ok: bool,
    map: BTreeMap<String, String>,
    mtables: BTreeMap<String, MTable>,
}

impl NullFree {
    fn ensure(&mut self, db: &mut Db, tabs: &[&Tab]) {
        if self.tried {
            return;
        }
        self.tried = true;
        self.ok = true;
        for tab in tabs {
            let names = tab.spec.col_names();
            let tys = tab.spec.col_types();
            let mut rows = tab.rows.clone();
            for r in rows.iter_mut() {
                for (i, v) in r.iter_mut().enumerate() {
                    if v.is_null() {
                        *v = match tys[i] {
                            Ty::Int => V::Int(1),
                            Ty::Float => V::Float(0.5),
                            Ty::Text => V::Text("a".into()),
                            Ty::Bool => V::Bool(true),
                        };
                    }
                }
            }
            let zname = format!("z{}", tab.spec.name);
            let log_len = db.log.len();
            for s in tab.setup(&zname, &rows) {
                self.ok &= db.exec(&s).is_ok();
            }
            db.log.truncate(log_len);
            self.map.insert(tab.spec.name.clone(), zname.clone());
            self.mtables.insert(zname.clone(), MTable { name: zname, cols: names, rows });
        }
    }
}

/// causal data fact: does the failure disappear when the same statement runs on the NULL-free twins
/// (same row count, same index)? Some(false) also when the involved columns hold no NULL at all;
/// None = could not be established
fn null_causal(db: &mut Db, tabs: &[&Tab], twins: &mut NullFree, q: &Query, a0: &str, index_path: bool) -> Option<bool> {
    let mut inv = involved_columns(q);
    if index_path {
        // every column of an index that drives the order decides which rows the scan sees
        for tab in tabs {
            inv.extend(tab.index.iter().cloned());
        }
    }
    let any_null = tabs.iter().any(|tab| {
        let names = tab.spec.col_names();
        tab.rows.iter().any(|r| r.iter().enumerate().any(|(i, v)| v.is_null() && inv.contains(&names[i])))
    });
    if !any_null {
        return Some(false);
    }
    twins.ensure(db, tabs);
    if !twins.ok {
        return None;
    }
    let q2 = rename_tables(q, &twins.map);
    match run_case(db, &twins.mtables, &q2) {
        Outcome::Dropped(_) => None,
        Outcome::Pass { .. } => Some(true),
        Outcome::Fail { fails, .. } => Some(fails.first().map(|f| f.0.as_str()) != Some(a0)),
    }
}

fn coarse(assertion: &str) -> &'static str {
    if assertion.starts_with("panic") {
        "no_panic"
    } else if assertion.starts_with("unexpected_error") {
        "no_error"
    } else if assertion == "sorted" {
        "sorted"
    } else if assertion == "distinct_once" {
        "distinct_once"
    } else if assertion.starts_with("window") {
        "window"
    } else {
        "bag"
    }
}

// ---------------------------------------------------------------------------------------------
// component-level confirmation of the sort comparator (also runs under Miri)
// ---------------------------------------------------------------------------------------------

/// `Value::compare_for_sort` documents "treating NULL as less than any non-NULL value" and is the comparator of
/// the Sort and TopK executors: NULL must be Less than every non-NULL, and the relation must be a total preorder.
fn comparator_check(ctx: &mut Ctx) {
    use std::cmp::Ordering::*;
    use turdb::types::Value;
    let vals: Vec<Value<'static>> = vec![Value::Null, Value::Int(-1), Value::Int(0), Value::Int(2), Value::Float(-0.5), Value::Float(1.5), Value::Text("a".into()), Value::Text("b".into()), Value::Text("".into())];
    let same_class = |a: &Value, b: &Value| matches!((a, b), (Value::Null, _) | (_, Value::Null) | (Value::Int(_) | Value::Float(_), Value::Int(_) | Value::Float(_)) | (Value::Text(_), Value::Text(_)));
    let mut null_first_bad = 0;
    let mut intransitive = 0;
    let mut evals = 0u64;
    let r = catch(|| {
        for a in &vals {
            for b in &vals {
                if !same_class(a, b) {
                    continue;
                }
                evals += 1;
                let ab = turdb::sql::util::compare_values_for_sort(a, b);
                let ba = turdb::sql::util::compare_values_for_sort(b, a);
                let a_null = matches!(a, Value::Null);
                let b_null = matches!(b, Value::Null);
                if a_null && !b_null && (ab != Less || ba != Greater) {
                    null_first_bad += 1;
                }
                for c in &vals {
                    if !same_class(b, c) || !same_class(a, c) {
                        continue;
                    }
                    // equivalence must be transitive: a~b and b~c => a~c
                    let bc = turdb::sql::util::compare_values_for_sort(b, c);
                    let ac = turdb::sql::util::compare_values_for_sort(a, c);
                    if ab == Equal && bc == Equal && ac != Equal {
                        intransitive += 1;
                    }
                }
            }
        }
    });
    ctx.evals(evals);
    ctx.count("comparator_pairs", evals);
    if let Err(p) = r {
        ctx.violation("no_panic", "C15/comparator/panic", json!({"panic": p}));
        return;
    }
    ctx.nontrivial(fnv(b"comparator_null_first"));
    if null_first_bad > 0 || intransitive > 0 {
        ctx.violation(
            "sorted",
            "C15/comparator_null_first/Value::compare_for_sort/null_equal_to_every_value",
            json!({"function": "turdb::sql::util::compare_values_for_sort -> Value::compare_for_sort", "pairs_where_null_is_not_less": null_first_bad, "intransitive_equivalence_triples": intransitive,
                   "example": "compare_for_sort(NULL, 1) = Equal, compare_for_sort(NULL, 2) = Equal, compare_for_sort(1, 2) = Less"}),
        );
    }
}

// ---------------------------------------------------------------------------------------------
// driver
// ---------------------------------------------------------------------------------------------

/// the closed list of query features that enter a signature (everything else - DESC, number of keys, WHERE, column types,
/// join / set-operation kind - stays in the violation detail; the executing mechanism is named by the plan path)
const MECH_FEATURES: &[&str] = &["distinct", "key:ordinal", "key:repeated_expr", "key_is:aggregate", "key_is:arith", "key_is:function", "group_by", "limit", "offset"];

const FAMILIES: &[(&str, u64)] = &[("order", 20), ("limit", 22), ("distinct", 18), ("group", 10), ("join", 10), ("setop", 10), ("pk", 5), ("limit_only", 5)];

fn pick_family(rng: &mut Rng) -> &'static str {
    let total: u64 = FAMILIES.iter().map(|f| f.1).sum();
    let mut r = rng.below(total);
    for (n, w) in FAMILIES {
        if r < *w {
            return n;
        }
        r -= w;
    }
    "order"
}

fn bump(m: &mut BTreeMap<String, u64>, k: &str) {
    *m.entry(k.to_string()).or_insert(0) += 1;
}

pub fn run(a: &Args) -> i32 {
    let mut ctx = Ctx::new(
        "C15",
        &a.tier,
        a.seed,
        "exploration",
        "generated tables t,u (id PK + 2..4 typed columns over tiny value domains, NULL strata 0/20/35/50%, 0..120 rows inserted in shuffled id order, with/without a 1- or 2-column secondary index created before or after the inserts) and generated queries of 8 families: multi-key ORDER BY (ASC/DESC, plain columns, arithmetic/COALESCE expressions referenced by alias or repeated, ordinals; every key projected), the same with LIMIT/OFFSET (0, 1, inside, at and beyond the end; OFFSET alone), DISTINCT on 1..4 columns with/without ORDER BY/LIMIT, GROUP BY ordered by aggregates, 2-table INNER/LEFT joins, UNION [ALL]/INTERSECT/EXCEPT ... ORDER BY ... LIMIT, ORDER BY the primary key, LIMIT without ORDER BY; optional WHERE. Each result is compared with the reference model: sorted (NULL lowest, DESC reversed, ties free), bag, window (cardinality + key multiset of the window + rows drawn from the unwindowed bag), distinct_once. EXPLAIN classifies the executing mechanism (sort / topk / index_order / pk_order / limit_only, suffixed by hash_join / index_nested_loop_join / setop) and cases are counted per mechanism. A failure whose base query (no DISTINCT/ORDER BY/LIMIT/OFFSET) is already wrong is dropped and counted (except for the self-contained assertions sorted and distinct_once); otherwise the statement is shrunk to a minimal failing one; signature = C15/<assertion>/<null_keys|any_keys: does the failure vanish on NULL-free twin tables>/<mechanism of the minimal statement>/<mechanism features of the minimal statement>. Plus a direct check of the sort comparator Value::compare_for_sort (NULL less than non-NULL, transitive equivalence). distinct_nontrivial = distinct (database, statement) pairs whose model result has >= 2 different sort-key tuples, or whose window cuts rows, or where DISTINCT removes rows",
    );
    comparator_check(&mut ctx);
    if cfg!(miri) {
        // Database needs files/mmap: under Miri only the comparator component check runs
        ctx.nontrivial(fnv(b"miri-second"));
        return ctx.finish();
    }
    let mut rng = Rng::derive(a.seed, 15);
    let quick = ctx.quick();
    let ndb = if quick { 120 } else { 1500 };
    let per_db = 60;
    let scratch = Scratch::new("c15");
    let mut fam_counts: BTreeMap<String, u64> = BTreeMap::new();
    let mut path_counts: BTreeMap<String, u64> = BTreeMap::new();
    let mut path_fail_counts: BTreeMap<String, u64> = BTreeMap::new();
    let mut drop_reasons: BTreeMap<String, u64> = BTreeMap::new();
    let mut check_counts: BTreeMap<String, u64> = BTreeMap::new();
    let mut base_fail: BTreeMap<String, (u64, String)> = BTreeMap::new();
    let mut sig_counts: BTreeMap<String, (u64, String, String)> = BTreeMap::new();
    let budget_s = if quick { 45.0 } else { 420.0 };
    for dbi in 0..ndb {
        if ctx.elapsed() > budget_s {
            ctx.count("databases_skipped_time_budget", (ndb - dbi) as u64);
            break;
        }
        // tables
        let ncols = rng.usize(2, 4);
        let mut tys = vec![Ty::Int];
        for _ in 1..ncols {
            tys.push(*rng.pick(&[Ty::Int, Ty::Text, Ty::Text, Ty::Float, Ty::Bool]));
        }
        let nt = match rng.below(16) {
            0 => rng.usize(0, 3),
            1..=12 => rng.usize(5, 40),
            _ => rng.usize(41, 120),
        };
        let nu = rng.usize(0, 14);
        let t = gen_tab(&mut rng, "t", &tys, nt, 600);
        let u = gen_tab(&mut rng, "u", &tys, nu, 300);
        let mut tables = BTreeMap::new();
        tables.insert("t".to_string(), t.spec.to_mtable(t.rows.clone()));
        tables.insert("u".to_string(), u.spec.to_mtable(u.rows.clone()));
        let db_dir = scratch.dir(&format!("db{}", dbi));
        let mut db = match Db::create(&db_dir) {
            Ok(d) => d,
            Err(e) => {
                ctx.inconclusive(&format!("cannot create database: {}", e));
                break;
            }
        };
        // durability is not under test here: no fsync per statement
        let setup: Vec<String> = std::iter::once("PRAGMA synchronous = OFF".to_string()).chain(t.setup("t", &t.rows)).chain(u.setup("u", &u.rows)).collect();
        let mut setup_err = None;
        for s in &setup {
            if let Err(e) = db.exec(s) {
                setup_err = Some(json!({"stmt": s, "error": e}));
                break;
            }
        }
        if let Some(e) = setup_err {
            ctx.eval();
            ctx.violation("setup", "C15/setup_failed", json!({"failed": e, "setup": setup}));
            continue;
        }
        ctx.count("databases", 1);
        let mut twins = NullFree::default();
        ctx.count(if t.index.is_empty() { "tables_t_without_index" } else { "tables_t_with_index" }, 1);
        for _ in 0..per_db {
            let family = pick_family(&mut rng);
            let mut q = match family {
                "group" => gen_group(&mut rng, &t),
                "join" => gen_join(&mut rng, &t, &u),
                "setop" => gen_setop(&mut rng, &t, &u),
                f => gen_single(&mut rng, &t, f),
            };
            // window relative to the unwindowed cardinality
            let want_window = match family {
                "limit" | "limit_only" => true,
                "order" => false,
                _ => rng.chance(1, 2),
            };
            if want_window {
                let n = match run_model(&q, &tables) {
                    Ok(m) => m.rows.len() as u64,
                    Err(_) => 5,
                };
                let (l, o) = pick_window(&mut rng, n);
                set_window(&mut q, l, o);
            }
            let sql = q.sql();
            ctx.eval();
            let plan = db.explain(&sql);
            let path = plan_path(&plan, &q);
            match run_case(&mut db, &tables, &q) {
                Outcome::Dropped(r) => {
                    ctx.count("dropped_model_undecided", 1);
                    bump(&mut drop_reasons, &r);
                }
                Outcome::Pass { m } => {
                    bump(&mut fam_counts, family);
                    bump(&mut path_counts, &path);
                    // which sub-assertions had substance
                    let pool = m.pre_window.as_ref().unwrap_or(&m.rows);
                    let mut nontrivial = false;
                    if m.ordered {
                        if let Some(keys) = &m.sort_cols {
                            let kt: BTreeSet<String> = pool.iter().map(|r| keys.iter().map(|(c, _)| r[*c].key(true)).collect::<Vec<_>>().join("|")).collect();
                            if m.rows.len() >= 2 {
                                bump(&mut check_counts, "sorted");
                            }
                            if pool.iter().any(|r| keys.iter().any(|(c, _)| r[*c].is_null())) {
                                bump(&mut check_counts, "sorted_with_null_keys");
                            }
                            nontrivial |= kt.len() >= 2;
                        }
                    }
                    if m.pre_window.is_some() {
                        bump(&mut check_counts, "window");
                        let cut = pool.len() > m.rows.len();
                        if cut {
                            bump(&mut check_counts, "window_cuts_rows");
                        }
                        if m.rows.is_empty() && !pool.is_empty() {
                            bump(&mut check_counts, "window_empty_result");
                        }
                        nontrivial |= cut;
                    } else {
                        bump(&mut check_counts, "bag");
                    }
                    if is_distinct(&q) {
                        bump(&mut check_counts, "distinct_once");
                        let mut q2 = base_of(&q);
                        if let Query::Select(s) = &mut q2 {
                            s.distinct = false;
                        }
                        if let Ok(m2) = run_model(&q2, &tables) {
                            let d: BTreeSet<String> = m2.rows.iter().map(|r| row_key(r, true)).collect();
                            if d.len() < m2.rows.len() {
                                bump(&mut check_counts, "distinct_removes_rows");
                                nontrivial = true;
                            }
                        }
                    }
                    if nontrivial {
                        ctx.nontrivial(fnv(format!("{}#{}", dbi, sql).as_bytes()));
                    }
                    if ctx.samples.len() < 6 && nontrivial && rng.chance(1, 40) {
                        ctx.sample(json!({"sql": sql, "family": family, "path": path, "rows": m.rows.len(), "table_rows": [t.rows.len(), u.rows.len()], "index_on_t": t.index}));
                    }
                }
                Outcome::Fail { fails, got, m } => {
                    let a0 = fails[0].0.clone();
                    // a wrong base query (no DISTINCT/ORDER BY/LIMIT/OFFSET) explains wrong values / counts / errors,
                    // (and with them a wrong key window), but not an unsorted result or a repeated DISTINCT row
                    let base = base_of(&q);
                    let attributable = !matches!(a0.as_str(), "sorted" | "distinct_once");
                    if has_c15_feature(&q) && attributable {
                        if let Outcome::Fail { fails: bf, .. } = run_case(&mut db, &tables, &base) {
                            let mut f = BTreeSet::new();
                            base.features(&mut f);
                            let k = format!("{}|{}", bf[0].0, f.into_iter().filter(|x| !x.starts_with("cmp(") && !x.starts_with("arith")).collect::<Vec<_>>().join("+"));
                            let e = base_fail.entry(k).or_insert((0, base.sql()));
                            e.0 += 1;
                            ctx.count("dropped_base_query_wrong", 1);
                            continue;
                        }
                    }
                    bump(&mut fam_counts, family);
                    bump(&mut path_counts, &path);
                    bump(&mut path_fail_counts, &path);
                    let small = shrink(&mut db, &tables, &q, &a0, 120);
                    if !has_c15_feature(&small) {
                        ctx.count("dropped_minimal_query_has_no_c15_feature", 1);
                        let e = base_fail.entry(format!("{}|minimal:{}", a0, small.sql())).or_insert((0, small.sql()));
                        e.0 += 1;
                        continue;
                    }
                    let small_plan = db.explain(&small.sql());
                    let small_path = plan_path(&small_plan, &small);
                    let feats = sig_features(&small);
                    let nullc = null_causal(&mut db, &[&t, &u], &mut twins, &small, &a0, small_path.starts_with("index_order"));
                    let small_out = run_case(&mut db, &tables, &small);
                    let (small_fails, small_got, small_want) = match small_out {
                        Outcome::Fail { fails, got, m } => (fails, got, Some(m.rows)),
                        _ => (vec![], None, None),
                    };
                    let sig = format!(
                        "C15/{}/{}/{}/{}",
                        a0,
                        match nullc {
                            Some(true) => "null_keys",
                            Some(false) => "any_keys",
                            None => "null_keys_undetermined",
                        },
                        small_path.replace('/', "@"),
                        MECH_FEATURES.iter().filter(|f| feats.contains(**f)).cloned().collect::<Vec<_>>().join("+")
                    );
                    let first = !sig_counts.contains_key(&sig);
                    let ent = sig_counts.entry(sig.clone()).or_insert((0, small.sql(), sql.clone()));
                    ent.0 += 1;
                    if small.sql().len() < ent.1.len() {
                        ent.1 = small.sql();
                    }
                    let detail = json!({
                            "sql": sql, "family": family, "plan": plan, "path": path,
                            "failing_assertions": fails.iter().map(|f| f.0.clone()).collect::<Vec<_>>(),
                            "first_fail_detail": fails[0].1,
                            "got": got.as_ref().map(|g| rows_json(g, 12)), "want_one_valid_order": rows_json(&m.rows, 12),
                            "minimal_sql": small.sql(), "minimal_plan": small_plan,
                            "minimal_failing_assertions": small_fails.iter().map(|f| f.0.clone()).collect::<Vec<_>>(),
                            "minimal_detail": small_fails.first().map(|f| f.1.clone()),
                            "minimal_got": small_got.as_ref().map(|g| rows_json(g, 12)), "minimal_want_one_valid_order": small_want.as_ref().map(|g| rows_json(g, 12)),
                            "null_keys_causal": nullc, "minimal_features": feats.iter().cloned().collect::<Vec<_>>(), "setup": setup, "first_of_sig": first,
                    });
                    // debugging aid: C15_TRACE=<substring of a signature> prints the full detail of matching failures
                    if let Ok(pat) = std::env::var("C15_TRACE") {
                        if !pat.is_empty() && sig.contains(&pat) {
                            println!("TRACE {}\n{}", sig, serde_json::to_string_pretty(&detail).unwrap_or_default());
                        }
                    }
                    ctx.violation(coarse(&a0), &sig, detail);
                }
            }
        }
        drop(db);
        let _ = std::fs::remove_dir_all(&db_dir);
    }
    ctx.extra.insert("judged_cases_by_family".into(), json!(fam_counts));
    ctx.extra.insert("judged_cases_by_plan_path".into(), json!(path_counts));
    ctx.extra.insert("failing_cases_by_plan_path".into(), json!(path_fail_counts));
    ctx.extra.insert("passing_cases_by_substantive_check".into(), json!(check_counts));
    ctx.extra.insert("dropped_model_undecided_reasons".into(), json!(drop_reasons));
    let sc: BTreeMap<String, J> = sig_counts.into_iter().map(|(k, (n, s, o))| (k, json!({"count": n, "shortest_minimal_sql": s, "first_original_sql": o}))).collect();
    ctx.extra.insert("failure_signatures".into(), json!(sc));
    let bf: BTreeMap<String, J> = base_fail.into_iter().map(|(k, (n, s))| (k, json!({"count": n, "example": s}))).collect();
    ctx.extra.insert("dropped_base_query_failures".into(), json!(bf));
    ctx.assumptions.push("NULL sorts lowest (first ascending, last descending) as the property states; text compares bytewise; FALSE < TRUE; tie order is free; with LIMIT/OFFSET any tie choice is accepted (key multiset of the window + rows drawn from the unwindowed bag); a failure whose base query (no DISTINCT/ORDER BY/LIMIT/OFFSET) is already wrong belongs to C14/C16/C17/C18 and is dropped; no -0.0/NaN, no text-vs-number comparison is generated".into());
    ctx.finish()
}

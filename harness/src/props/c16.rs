//! C16: aggregates and GROUP BY follow SQL semantics.
//!
//! Generated worlds (table `t`, optionally a second table `u` for aggregate-over-join shapes) with
//! NULL-bearing / all-NULL / empty inputs; generated aggregate queries (COUNT(*), COUNT(e), SUM, AVG,
//! MIN, MAX over int/float/text columns and over expressions; no GROUP BY / one / several keys /
//! expression keys; WHERE incl. never-matching; HAVING on aggregates and keys). Every query runs on
//! TurDB and on the reference evaluator (`sqlm::query::run_model`). Sub-assertions:
//! `one_row_per_group`, `null_group_once`, `agg_value` (per aggregate function, with the input fact of
//! the failing group), `having_filters`, plus `executes` / `no_panic`.
//! A failing case is shrunk (select items, HAVING, GROUP BY keys, WHERE, argument expressions, then table
//! rows by re-creating the tables in a fresh database) while the same sub-assertion for the same
//! aggregate function still fails on the same execution path, so the signature is that of a minimal case.
use crate::report::{catch, Ctx};
use crate::rng::{fnv, Rng};
use crate::sqlm::db::{is_panic, panic_tag, Db, Scratch};
use crate::sqlm::expr::{bin, col, qcol, AggFn, BinOp, E};
use crate::sqlm::gen::{gen_value, ColSpec, TableSpec, Ty};
use crate::sqlm::query::{run_model, FromItem, Item, Join, JoinKind, MTable, QResult, Query, Select};
use crate::sqlm::val::{row_key, rows_json, Row, V};
use crate::Args;
use serde_json::{json, Value as J};
use std::collections::{BTreeMap, BTreeSet, HashMap};

// ---------------------------------------------------------------------------------------------
// worlds
// ---------------------------------------------------------------------------------------------

#[derive(Clone)]
struct World {
    /// (spec, rows); index 0 = t, index 1 = u (join worlds only)
    tabs: Vec<(TableSpec, Vec<Row>)>,
}

const TKEYS: &[&str] = &["a", "b", "ab", ""];

impl World {
    fn tables(&self) -> BTreeMap<String, MTable> {
        let mut m = BTreeMap::new();
        for (s, r) in &self.tabs {
            m.insert(s.name.clone(), s.to_mtable(r.clone()));
        }
        m
    }
    fn ddl(&self) -> Vec<String> {
        let mut v = vec![];
        for (s, r) in &self.tabs {
            v.push(s.create_sql());
            for ch in r.chunks(20) {
                v.push(format!("INSERT INTO {} VALUES {}", s.name, ch.iter().map(|r| format!("({})", r.iter().map(|v| v.sql()).collect::<Vec<_>>().join(", "))).collect::<Vec<_>>().join(", ")));
            }
        }
        v
    }
    fn setup(&self, db: &mut Db) -> Result<(), String> {
        // scratch databases only: no fsync per statement (does not change any query path)
        let _ = db.exec("PRAGMA synchronous = OFF");
        for s in self.ddl() {
            db.exec(&s).map_err(|e| format!("{} -> {}", s, e))?;
        }
        Ok(())
    }
    fn col_ty(&self, tbl: &Option<String>, name: &str) -> Option<Ty> {
        for (s, _) in &self.tabs {
            if let Some(t) = tbl {
                if !s.name.eq_ignore_ascii_case(t) {
                    continue;
                }
            }
            for (n, ty) in s.col_names().iter().zip(s.col_types()) {
                if n.eq_ignore_ascii_case(name) {
                    return Some(ty);
                }
            }
        }
        None
    }
    fn total_rows(&self) -> usize {
        self.tabs.iter().map(|(_, r)| r.len()).sum()
    }
}

fn pick_null_pm(rng: &mut Rng) -> u64 {
    *rng.pick(&[0u64, 0, 150, 150, 500, 500, 1000])
}

fn gen_rows(rng: &mut Rng, spec: &TableSpec, n: usize, kmax: i64) -> Vec<Row> {
    let mut rows = vec![];
    for i in 0..n {
        let mut r = vec![V::Int(i as i64 + 1)];
        for c in &spec.cols {
            let v = if rng.below(1000) < c.null_pm {
                V::Null
            } else if c.name == "ik" || c.name == "jk" {
                V::Int(rng.range(0, kmax))
            } else if c.name == "tk" {
                V::Text(rng.pick(TKEYS).to_string())
            } else if c.name == "ib" {
                V::Int(rng.range(-5, 12))
            } else {
                gen_value(rng, c.ty, 0)
            };
            r.push(v);
        }
        rows.push(r);
    }
    rows
}

fn gen_world(rng: &mut Rng, join: bool) -> World {
    let cs = |n: &str, ty: Ty, pm: u64| ColSpec { name: n.to_string(), ty, null_pm: pm };
    let t = TableSpec {
        name: "t".into(),
        with_pk: true,
        cols: vec![
            cs("ik", Ty::Int, *rng.pick(&[0u64, 150, 300, 500])),
            cs("tk", Ty::Text, *rng.pick(&[0u64, 150, 300, 500])),
            cs("ia", Ty::Int, pick_null_pm(rng)),
            cs("ib", Ty::Int, pick_null_pm(rng)),
            cs("fa", Ty::Float, pick_null_pm(rng)),
            cs("ta", Ty::Text, pick_null_pm(rng)),
        ],
    };
    let kmax = *rng.pick(&[1i64, 2, 3, 3, 6]);
    let n = match rng.below(100) {
        0..=5 => 0,
        6..=11 => 1,
        12..=40 => rng.usize(2, 8),
        _ => rng.usize(9, 40),
    };
    let t_rows = gen_rows(rng, &t, n, kmax);
    let mut tabs = vec![(t, t_rows)];
    if join {
        let u = TableSpec {
            name: "u".into(),
            with_pk: true,
            cols: vec![cs("jk", Ty::Int, *rng.pick(&[0u64, 150, 400])), cs("ja", Ty::Int, pick_null_pm(rng)), cs("jf", Ty::Float, pick_null_pm(rng)), cs("jt", Ty::Text, pick_null_pm(rng))],
        };
        let n = match rng.below(100) {
            0..=5 => 0,
            6..=15 => 1,
            _ => rng.usize(2, 12),
        };
        let u_rows = gen_rows(rng, &u, n, kmax);
        tabs.push((u, u_rows));
    }
    World { tabs }
}

// ---------------------------------------------------------------------------------------------
// query generation
// ---------------------------------------------------------------------------------------------

struct Scope {
    ints: Vec<E>,
    floats: Vec<E>,
    texts: Vec<E>,
    /// candidate grouping columns
    keys: Vec<E>,
    pk: E,
}

fn scope_single() -> Scope {
    Scope { ints: vec![col("ia"), col("ib"), col("ia"), col("ik")], floats: vec![col("fa")], texts: vec![col("ta"), col("tk")], keys: vec![col("ik"), col("ik"), col("tk"), col("tk"), col("ib"), col("fa"), col("ta")], pk: col("id") }
}
fn scope_join() -> Scope {
    Scope {
        ints: vec![qcol("t", "ia"), qcol("t", "ib"), qcol("u", "ja"), qcol("u", "ja")],
        floats: vec![qcol("t", "fa"), qcol("u", "jf")],
        texts: vec![qcol("t", "ta"), qcol("u", "jt")],
        keys: vec![qcol("t", "ik"), qcol("t", "ik"), qcol("u", "jk"), qcol("t", "tk"), qcol("u", "jt")],
        pk: qcol("t", "id"),
    }
}

fn agg(f: AggFn, a: E) -> E {
    E::Agg(f, Some(Box::new(a)))
}
fn count_star() -> E {
    E::Agg(AggFn::CountStar, None)
}
fn ilit(i: i64) -> E {
    E::Lit(V::Int(i))
}
fn flit(f: f64) -> E {
    E::Lit(V::Float(f))
}

fn gen_num_expr(rng: &mut Rng, sc: &Scope) -> E {
    let a = rng.pick(&sc.ints).clone();
    let b = rng.pick(&sc.ints).clone();
    let f = rng.pick(&sc.floats).clone();
    match rng.below(6) {
        0 | 1 => bin(BinOp::Add, a, b),
        2 => bin(BinOp::Sub, a, b),
        3 => bin(BinOp::Mul, a, ilit(2)),
        4 => bin(BinOp::Mul, f, flit(2.0)),
        _ => bin(BinOp::Add, f, b),
    }
}

fn gen_num_arg(rng: &mut Rng, sc: &Scope) -> E {
    match rng.below(100) {
        0..=44 => rng.pick(&sc.ints).clone(),
        45..=74 => rng.pick(&sc.floats).clone(),
        _ => gen_num_expr(rng, sc),
    }
}

fn gen_agg(rng: &mut Rng, sc: &Scope) -> E {
    match rng.below(100) {
        0..=11 => count_star(),
        12..=29 => {
            let a = match rng.below(10) {
                0..=3 => rng.pick(&sc.ints).clone(),
                4..=5 => rng.pick(&sc.floats).clone(),
                6..=8 => rng.pick(&sc.texts).clone(),
                _ => gen_num_expr(rng, sc),
            };
            agg(AggFn::Count, a)
        }
        30..=47 => agg(AggFn::Sum, gen_num_arg(rng, sc)),
        48..=61 => agg(AggFn::Avg, gen_num_arg(rng, sc)),
        x => {
            let f = if x <= 80 { AggFn::Min } else { AggFn::Max };
            let a = if rng.chance(1, 3) { rng.pick(&sc.texts).clone() } else { gen_num_arg(rng, sc) };
            agg(f, a)
        }
    }
}

fn gen_where(rng: &mut Rng, sc: &Scope, n_rows: usize) -> E {
    let cmp = *rng.pick(&[BinOp::Lt, BinOp::Le, BinOp::Gt, BinOp::Ge, BinOp::Eq, BinOp::Ne]);
    let atom = |rng: &mut Rng| -> E {
        match rng.below(100) {
            0..=24 => bin(cmp, rng.pick(&sc.ints).clone(), ilit(rng.range(-3, 8))),
            25..=34 => bin(*rng.pick(&[BinOp::Lt, BinOp::Gt, BinOp::Le, BinOp::Ge]), rng.pick(&sc.floats).clone(), flit(rng.range(-8, 30) as f64 / 4.0)),
            35..=49 => bin(*rng.pick(&[BinOp::Eq, BinOp::Ne, BinOp::Lt, BinOp::Ge]), rng.pick(&sc.texts).clone(), E::Lit(V::Text(rng.pick(TKEYS).to_string()))),
            50..=64 => {
                let all: Vec<&E> = sc.ints.iter().chain(sc.floats.iter()).chain(sc.texts.iter()).collect();
                E::IsNull(Box::new((*rng.pick(&all)).clone()), rng.chance(1, 2))
            }
            65..=79 => bin(*rng.pick(&[BinOp::Le, BinOp::Gt, BinOp::Lt, BinOp::Ge]), sc.pk.clone(), ilit(rng.range(0, n_rows as i64 + 1))),
            80..=89 => bin(BinOp::Eq, sc.pk.clone(), ilit(rng.range(1, n_rows.max(1) as i64 + 1))),
            // matches nothing: ids start at 1
            _ => bin(BinOp::Lt, sc.pk.clone(), ilit(0)),
        }
    };
    let a = atom(rng);
    if rng.chance(1, 6) {
        let b = atom(rng);
        return bin(if rng.chance(2, 3) { BinOp::And } else { BinOp::Or }, a, b);
    }
    a
}

fn gen_having(rng: &mut Rng, sc: &Scope, world: &World, keys: &[E], aggs: &[E]) -> E {
    // on a key (plain grouping column) or on an aggregate (selected or not)
    let plain_keys: Vec<&E> = keys.iter().filter(|k| matches!(k, E::Col { .. })).collect();
    if !plain_keys.is_empty() && rng.chance(1, 3) {
        let k = (*rng.pick(&plain_keys)).clone();
        if rng.chance(1, 3) {
            return E::IsNull(Box::new(k), rng.chance(1, 2));
        }
        let ty = if let E::Col { tbl, name } = &k { world.col_ty(tbl, name) } else { None };
        return match ty {
            Some(Ty::Text) => bin(*rng.pick(&[BinOp::Eq, BinOp::Ne, BinOp::Gt]), k, E::Lit(V::Text(rng.pick(TKEYS).to_string()))),
            Some(Ty::Float) => bin(*rng.pick(&[BinOp::Lt, BinOp::Ge]), k, flit(rng.range(-8, 30) as f64 / 4.0)),
            _ => bin(*rng.pick(&[BinOp::Eq, BinOp::Ne, BinOp::Gt, BinOp::Le]), k, ilit(rng.range(0, 3))),
        };
    }
    let a = if !aggs.is_empty() && rng.chance(3, 5) { rng.pick(aggs).clone() } else { gen_agg(rng, sc) };
    if rng.chance(1, 6) {
        return E::IsNull(Box::new(a), rng.chance(1, 2));
    }
    let cmp = *rng.pick(&[BinOp::Gt, BinOp::Ge, BinOp::Lt, BinOp::Le, BinOp::Eq, BinOp::Ne]);
    let rhs = match &a {
        E::Agg(AggFn::CountStar, _) | E::Agg(AggFn::Count, _) => ilit(rng.range(0, 4)),
        E::Agg(_, Some(arg)) => match arg_class(arg, world).as_str() {
            "textcol" => E::Lit(V::Text(rng.pick(TKEYS).to_string())),
            "floatcol" => flit(rng.range(-8, 30) as f64 / 4.0),
            _ => ilit(rng.range(-3, 12)),
        },
        _ => ilit(1),
    };
    bin(cmp, a, rhs)
}

#[derive(Clone, Copy, PartialEq, Eq, Debug)]
enum Shape {
    Single,
    Grouped,
    Join,
}

fn gen_select(rng: &mut Rng, world: &World, shape: Shape) -> Select {
    let join = shape == Shape::Join;
    let sc = if join { scope_join() } else { scope_single() };
    let mut s = Select::default();
    s.from = vec![FromItem::Table { name: "t".into(), alias: None }];
    if join {
        let kind = *rng.pick(&[JoinKind::Inner, JoinKind::Inner, JoinKind::Inner, JoinKind::Left, JoinKind::Cross]);
        let on = if kind == JoinKind::Cross {
            None
        } else if rng.chance(5, 6) {
            Some(bin(BinOp::Eq, qcol("t", "ik"), qcol("u", "jk")))
        } else {
            Some(bin(BinOp::Lt, qcol("t", "ik"), qcol("u", "jk")))
        };
        s.joins = vec![Join { kind, item: FromItem::Table { name: "u".into(), alias: None }, on }];
    }
    // grouping keys
    let grouped = match shape {
        Shape::Single => false,
        Shape::Grouped => true,
        Shape::Join => rng.chance(3, 5),
    };
    let mut keys: Vec<E> = vec![];
    if grouped {
        let r = rng.below(100);
        if r < 60 || join {
            keys.push(rng.pick(&sc.keys).clone());
            if join && rng.chance(1, 5) {
                let k2 = rng.pick(&sc.keys).clone();
                if k2.sql() != keys[0].sql() {
                    keys.push(k2);
                }
            }
        } else if r < 85 {
            keys.push(rng.pick(&sc.keys).clone());
            for _ in 0..rng.usize(1, 2) {
                let k2 = rng.pick(&sc.keys).clone();
                if keys.iter().all(|k| k.sql() != k2.sql()) {
                    keys.push(k2);
                }
            }
        } else {
            let ik = col("ik");
            keys.push(match rng.below(4) {
                0 => bin(BinOp::Add, ik, ilit(1)),
                1 => bin(BinOp::Mul, ik, ilit(2)),
                2 => bin(BinOp::Mod, ik, ilit(2)),
                _ => bin(BinOp::Add, ik, col("ib")),
            });
        }
    }
    // aggregates
    let nagg = match rng.below(100) {
        0..=54 => 1,
        55..=79 => 2,
        80..=91 => 3,
        _ => 4,
    };
    let mut aggs: Vec<E> = vec![];
    for _ in 0..nagg * 2 {
        if aggs.len() >= nagg {
            break;
        }
        let a = gen_agg(rng, &sc);
        if aggs.iter().all(|x| x.sql() != a.sql()) {
            aggs.push(a);
        }
    }
    // select list layout
    let it = |e: &E| Item::Expr { e: e.clone(), alias: None };
    let layout = rng.below(100);
    if keys.is_empty() || layout < 80 {
        s.items = keys.iter().map(it).chain(aggs.iter().map(it)).collect();
    } else if layout < 90 {
        s.items = aggs.iter().map(it).chain(keys.iter().map(it)).collect();
    } else {
        // keys not selected: a single aggregate so that any mismatch is attributable
        aggs.truncate(1);
        s.items = aggs.iter().map(it).collect();
    }
    s.group_by = keys.clone();
    if rng.chance(2, 5) {
        s.where_ = Some(gen_where(rng, &sc, world.tabs[0].1.len()));
    }
    let having_p = if grouped { 30 } else { 8 };
    if rng.below(100) < having_p {
        s.having = Some(gen_having(rng, &sc, world, &keys, &aggs));
    }
    s
}

// ---------------------------------------------------------------------------------------------
// oracle
// ---------------------------------------------------------------------------------------------

#[derive(Clone, Debug)]
struct Fail {
    assertion: &'static str,
    /// stable part of the cause that must be preserved while shrinking (aggregate function, having kind, ...)
    func: String,
    /// full cause for the signature (func + operand class + input fact)
    cause: String,
    /// SQL of the failing select item (agg_value only)
    item: Option<String>,
    /// "base" = the statement without HAVING failed; "having" = only the statement with HAVING failed
    stage: &'static str,
    detail: J,
}

fn arg_class(e: &E, world: &World) -> String {
    match e {
        E::Col { tbl, name } => match world.col_ty(tbl, name) {
            Some(Ty::Int) => "intcol".into(),
            Some(Ty::Float) => "floatcol".into(),
            Some(Ty::Text) => "textcol".into(),
            Some(Ty::Bool) => "boolcol".into(),
            None => "col".into(),
        },
        _ => "expr".into(),
    }
}

fn fn_name(f: AggFn) -> &'static str {
    match f {
        AggFn::CountStar => "count_star",
        AggFn::Count => "count_col",
        AggFn::Sum => "sum",
        AggFn::Avg => "avg",
        AggFn::Min => "min",
        AggFn::Max => "max",
    }
}

fn fact_rank(f: &str) -> u8 {
    match f {
        "no_nulls" | "nonempty" => 0,
        "null_inputs" => 1,
        "all_null_inputs" => 2,
        "empty_input" => 3,
        _ => 4,
    }
}

fn fact_of(n: i64, nn: i64, has_arg: bool) -> &'static str {
    if n == 0 {
        "empty_input"
    } else if !has_arg {
        "nonempty"
    } else if nn == 0 {
        "all_null_inputs"
    } else if nn < n {
        "null_inputs"
    } else {
        "no_nulls"
    }
}

fn item_exprs(s: &Select) -> Vec<&E> {
    s.items.iter().filter_map(|i| if let Item::Expr { e, .. } = i { Some(e) } else { None }).collect()
}

fn key_of(vals: &[V]) -> String {
    row_key(&vals.to_vec(), true)
}

/// per aggregate item: group key -> input fact (evaluated in the model)
fn input_facts(base: &Select, tables: &BTreeMap<String, MTable>, arg: &Option<Box<E>>) -> Option<HashMap<String, &'static str>> {
    let mut c = base.clone();
    c.having = None;
    let it = |e: E| Item::Expr { e, alias: None };
    let mut items: Vec<Item> = base.group_by.iter().map(|g| it(g.clone())).collect();
    items.push(it(count_star()));
    if let Some(a) = arg {
        items.push(it(agg(AggFn::Count, (**a).clone())));
    }
    c.items = items;
    let m = run_model(&Query::Select(c), tables).ok()?;
    let nk = base.group_by.len();
    let mut out = HashMap::new();
    for r in &m.rows {
        let n = if let V::Int(i) = r[nk] { i } else { 0 };
        let nn = if arg.is_some() {
            if let V::Int(i) = r[nk + 1] {
                i
            } else {
                0
            }
        } else {
            n
        };
        out.insert(key_of(&r[..nk]), fact_of(n, nn, arg.is_some()));
    }
    Some(out)
}

fn bag_of(keys: impl Iterator<Item = String>) -> BTreeMap<String, i64> {
    let mut m = BTreeMap::new();
    for k in keys {
        *m.entry(k).or_insert(0) += 1;
    }
    m
}

/// compare the rows TurDB returned for the HAVING-free statement `base` with the model's result
fn compare_base(got: &[Row], m: &QResult, base: &Select, tables: &BTreeMap<String, MTable>, world: &World) -> Vec<Fail> {
    let mut fails: Vec<Fail> = vec![];
    let items = item_exprs(base);
    let sql = Query::Select(base.clone()).sql();
    if got.iter().any(|r| r.len() != items.len()) {
        fails.push(Fail { assertion: "executes", func: "width".into(), cause: "width".into(), item: None, stage: "base", detail: json!({"sql": sql, "got_width": got.first().map(|r| r.len()), "want_width": items.len()}) });
        return fails;
    }
    let gsql: Vec<String> = base.group_by.iter().map(|e| e.sql()).collect();
    let agg_pos: Vec<usize> = items.iter().enumerate().filter(|(_, e)| matches!(e, E::Agg(..))).map(|(i, _)| i).collect();
    // position of each grouping key in the select list
    let key_pos: Vec<Option<usize>> = gsql.iter().map(|g| items.iter().position(|e| !matches!(e, E::Agg(..)) && &e.sql() == g)).collect();
    let all_keys_selected = key_pos.iter().all(|p| p.is_some());
    let ctx_detail = |extra: J| json!({"sql": sql, "got": rows_json(got, 12), "want": rows_json(&m.rows, 12), "info": extra});

    // report one agg_value failure for select item p; `facts` = facts of the failing groups
    let agg_fail = |p: usize, facts: Vec<&'static str>, extra: J| -> Fail {
        let (f, arg) = match items[p] {
            E::Agg(f, a) => (*f, a.clone()),
            _ => unreachable!(),
        };
        let fact = facts.into_iter().min_by_key(|f| fact_rank(f)).unwrap_or("unknown");
        let cls = match &arg {
            Some(a) => format!("/{}", arg_class(a, world)),
            None => String::new(),
        };
        Fail { assertion: "agg_value", func: fn_name(f).to_string(), cause: format!("{}{}/{}", fn_name(f), cls, fact), item: Some(items[p].sql()), stage: "base", detail: ctx_detail(json!({"aggregate": items[p].sql(), "mismatch": extra})) }
    };
    let arg_of = |p: usize| -> Option<Box<E>> {
        match items[p] {
            E::Agg(_, a) => a.clone(),
            _ => None,
        }
    };

    if gsql.is_empty() {
        let facts0 = input_facts(base, tables, &None);
        let input = facts0.as_ref().and_then(|f| f.get("").copied()).unwrap_or("unknown");
        if got.len() != 1 {
            let kind = if got.is_empty() { "no_row" } else { "several_rows" };
            fails.push(Fail { assertion: "one_row_per_group", func: "single_group".into(), cause: format!("single_group/{}/{}", kind, input), item: None, stage: "base", detail: ctx_detail(json!({"got_rows": got.len(), "want_rows": 1})) });
            return fails;
        }
        for &p in &agg_pos {
            if got[0][p].key(true) != m.rows[0][p].key(true) {
                let facts = input_facts(base, tables, &arg_of(p));
                let fact = facts.as_ref().and_then(|f| f.get("").copied()).unwrap_or("unknown");
                fails.push(agg_fail(p, vec![fact], json!({"got": got[0][p].to_json(), "want": m.rows[0][p].to_json()})));
            }
        }
        return fails;
    }

    if all_keys_selected {
        let kp: Vec<usize> = key_pos.iter().map(|p| p.unwrap()).collect();
        let keyvals = |r: &Row| -> Vec<V> { kp.iter().map(|&p| r[p].clone()).collect() };
        let has_null = |r: &Row| kp.iter().any(|&p| r[p].is_null());
        let g_nn = bag_of(got.iter().filter(|r| !has_null(r)).map(|r| key_of(&keyvals(r))));
        let w_nn = bag_of(m.rows.iter().filter(|r| !has_null(r)).map(|r| key_of(&keyvals(r))));
        let g_n = bag_of(got.iter().filter(|r| has_null(r)).map(|r| key_of(&keyvals(r))));
        let w_n = bag_of(m.rows.iter().filter(|r| has_null(r)).map(|r| key_of(&keyvals(r))));
        if g_nn == w_nn && g_n != w_n {
            let gn: i64 = g_n.values().sum();
            let wn: i64 = w_n.values().sum();
            let kind = if gn > wn { "null_group_split" } else if gn < wn { "null_group_missing" } else { "null_group_keys_differ" };
            fails.push(Fail { assertion: "null_group_once", func: "null_group".into(), cause: kind.to_string(), item: None, stage: "base", detail: ctx_detail(json!({"null_key_rows_got": gn, "null_key_rows_want": wn})) });
            return fails;
        }
        if g_nn != w_nn {
            let (assertion_cause, extra) = if got.len() != m.rows.len() {
                (if got.len() < m.rows.len() { "group_count/fewer" } else { "group_count/more" }, json!({"got_rows": got.len(), "want_rows": m.rows.len()}))
            } else {
                ("key_values_differ", json!({"got_keys": g_nn.keys().take(6).collect::<Vec<_>>(), "want_keys": w_nn.keys().take(6).collect::<Vec<_>>()}))
            };
            fails.push(Fail { assertion: "one_row_per_group", func: "groups".into(), cause: assertion_cause.to_string(), item: None, stage: "base", detail: ctx_detail(extra) });
            return fails;
        }
        // keys agree (each exactly once): align and compare every aggregate column
        let want_by_key: HashMap<String, &Row> = m.rows.iter().map(|r| (key_of(&keyvals(r)), r)).collect();
        for &p in &agg_pos {
            let mut bad: Vec<(String, J)> = vec![];
            for r in got {
                let k = key_of(&keyvals(r));
                if let Some(w) = want_by_key.get(&k) {
                    if r[p].key(true) != w[p].key(true) {
                        bad.push((k, json!({"key": keyvals(r).iter().map(|v| v.to_json()).collect::<Vec<_>>(), "got": r[p].to_json(), "want": w[p].to_json()})));
                    }
                }
            }
            if !bad.is_empty() {
                // group-by key order for the facts map = group_by order, the same as keyvals
                let facts = input_facts(base, tables, &arg_of(p));
                let fs: Vec<&'static str> = bad.iter().map(|(k, _)| facts.as_ref().and_then(|f| f.get(k).copied()).unwrap_or("unknown")).collect();
                fails.push(agg_fail(p, fs, J::Array(bad.into_iter().take(4).map(|x| x.1).collect())));
            }
        }
        return fails;
    }

    // some grouping key is not selected: rows cannot be aligned by key
    if got.len() != m.rows.len() {
        fails.push(Fail {
            assertion: "one_row_per_group",
            func: "groups".into(),
            cause: (if got.len() < m.rows.len() { "group_count/fewer" } else { "group_count/more" }).to_string(),
            item: None, stage: "base", detail: ctx_detail(json!({"got_rows": got.len(), "want_rows": m.rows.len()})),
        });
        return fails;
    }
    let mut any = false;
    for &p in &agg_pos {
        let g = bag_of(got.iter().map(|r| r[p].key(true)));
        let w = bag_of(m.rows.iter().map(|r| r[p].key(true)));
        if g != w {
            any = true;
            // fact over the whole input (groups cannot be told apart): weakest fact among all groups
            let facts = input_facts(base, tables, &arg_of(p));
            let fs: Vec<&'static str> = facts.map(|f| f.values().copied().collect()).unwrap_or_default();
            fails.push(agg_fail(p, fs, json!({"column_bag_got": g, "column_bag_want": w})));
        }
    }
    if !any && bag_of(got.iter().map(|r| row_key(r, true))) != bag_of(m.rows.iter().map(|r| row_key(r, true))) {
        fails.push(Fail { assertion: "one_row_per_group", func: "groups".into(), cause: "row_pairing".into(), item: None, stage: "base", detail: ctx_detail(json!({})) });
    }
    fails
}

fn having_kind(h: &E, s: &Select) -> String {
    let mut found: Option<E> = None;
    h.visit(&mut |e| {
        if found.is_none() {
            if let E::Agg(..) = e {
                found = Some(e.clone());
            }
        }
    });
    match found {
        Some(E::Agg(f, a)) => {
            let e = E::Agg(f, a);
            let sel = item_exprs(s).iter().any(|i| i.sql() == e.sql());
            if sel {
                format!("agg:{}/selected", fn_name(f))
            } else {
                "agg_not_selected".to_string()
            }
        }
        _ => "key".into(),
    }
}

pub fn err_class(e: &str) -> String {
    e.split(|c: char| !c.is_ascii_alphabetic()).filter(|w| !w.is_empty()).take(7).collect::<Vec<_>>().join("_").to_lowercase()
}

fn exec_fail(sql: &str, e: &str, stage: &str) -> Fail {
    if is_panic(e) {
        Fail { assertion: "no_panic", func: format!("panic:{}", panic_tag(e)), cause: format!("panic:{}/{}", panic_tag(e), stage), item: None, stage: "base", detail: json!({"sql": sql, "panic": e}) }
    } else {
        Fail { assertion: "executes", func: format!("error:{}", err_class(e)), cause: format!("unexpected_error:{}/{}", err_class(e), stage), item: None, stage: "base", detail: json!({"sql": sql, "error": e}) }
    }
}

/// the rows reaching the aggregate (FROM/JOIN/WHERE of the statement, projected on the primary keys) are
/// what the model says: otherwise the failure belongs to the join / WHERE properties (C17, C14), not to C16
fn input_ok(db: &mut Db, tables: &BTreeMap<String, MTable>, s: &Select) -> bool {
    let mut c = Select::default();
    c.from = s.from.clone();
    c.joins = s.joins.clone();
    c.where_ = s.where_.clone();
    let multi = !s.joins.is_empty() || s.from.len() > 1;
    let mut names: Vec<String> = s.from.iter().map(|f| f.alias()).collect();
    names.extend(s.joins.iter().map(|j| j.item.alias()));
    c.items = names.iter().map(|n| Item::Expr { e: if multi { qcol(n, "id") } else { col("id") }, alias: None }).collect();
    let q = Query::Select(c);
    let m = match run_model(&q, tables) {
        Ok(m) => m,
        Err(_) => return true,
    };
    match db.query(&q.sql()) {
        Ok(rows) => bag_of(rows.iter().map(|r| row_key(r, true))) == bag_of(m.rows.iter().map(|r| row_key(r, true))),
        Err(_) => false,
    }
}

struct Verdict {
    judged: bool,
    fails: Vec<Fail>,
    /// the HAVING clause was judged (base statement clean)
    having_judged: bool,
}

fn judge(db: &mut Db, tables: &BTreeMap<String, MTable>, world: &World, sel: &Select) -> Verdict {
    let mut base = sel.clone();
    base.having = None;
    let qb = Query::Select(base.clone());
    let m = match run_model(&qb, tables) {
        Ok(m) => m,
        Err(_) => return Verdict { judged: false, fails: vec![], having_judged: false },
    };
    let got = match db.query(&qb.sql()) {
        Ok(r) => r,
        Err(e) => return Verdict { judged: true, fails: vec![exec_fail(&qb.sql(), &e, "base")], having_judged: false },
    };
    let fails = compare_base(&got, &m, &base, tables, world);
    if !fails.is_empty() || sel.having.is_none() {
        return Verdict { judged: true, fails, having_judged: false };
    }
    // the HAVING-free statement is right: now HAVING must keep exactly the groups for which it is TRUE
    let qh = Query::Select(sel.clone());
    let mh = match run_model(&qh, tables) {
        Ok(m) => m,
        Err(_) => return Verdict { judged: true, fails: vec![], having_judged: false },
    };
    let hk = having_kind(sel.having.as_ref().unwrap(), sel);
    match db.query(&qh.sql()) {
        Ok(rows) => {
            let g = bag_of(rows.iter().map(|r| row_key(r, true)));
            let w = bag_of(mh.rows.iter().map(|r| row_key(r, true)));
            let mut fails = vec![];
            if g != w {
                let dir = if rows.len() > mh.rows.len() { "keeps_too_many" } else if rows.len() < mh.rows.len() { "drops_too_many" } else { "wrong_rows" };
                fails.push(Fail { assertion: "having_filters", func: hk.clone(), cause: format!("{}/{}", hk, dir), item: None, stage: "having", detail: json!({"sql": qh.sql(), "got": rows_json(&rows, 12), "want": rows_json(&mh.rows, 12), "without_having": rows_json(&got, 12)}) });
            }
            Verdict { judged: true, fails, having_judged: true }
        }
        Err(e) => {
            let mut f = exec_fail(&qh.sql(), &e, "having");
            f.cause = format!("{}/{}", f.cause, hk);
            f.stage = "having";
            Verdict { judged: true, fails: vec![f], having_judged: true }
        }
    }
}

// ---------------------------------------------------------------------------------------------
// execution path
// ---------------------------------------------------------------------------------------------

fn header_shape(s: &Select) -> bool {
    s.joins.is_empty() && s.from.len() == 1 && s.where_.is_none() && s.group_by.is_empty() && s.having.is_none() && s.items.len() == 1 && matches!(item_exprs(s).first(), Some(E::Agg(AggFn::Count, _)) | Some(E::Agg(AggFn::CountStar, _)))
}

/// (path class, normalised plan)
fn path_of(db: &mut Db, s: &Select) -> (String, String) {
    let plan = db.explain(&Query::Select(s.clone()).sql()).unwrap_or_default();
    let norm: Vec<String> = plan
        .lines()
        .map(|l| l.trim().trim_start_matches("-> ").to_string())
        .filter(|l| !l.is_empty())
        .map(|l| match l.find(" (reverse") {
            Some(i) => l[..i].to_string(),
            None => l,
        })
        .map(|l| match l.find(" on ") {
            Some(i) => l[..i].to_string(),
            None => l,
        })
        .collect();
    let norm = norm.join(">");
    let path = if !s.joins.is_empty() || s.from.len() > 1 {
        "join"
    } else if header_shape(s) {
        "header"
    } else {
        "volcano"
    };
    (path.to_string(), norm)
}

fn features(s: &Select) -> Vec<String> {
    let mut f = vec![];
    for j in &s.joins {
        // a plain cross join is the canonical (feature-free) join shape of the `join` path
        if j.kind != JoinKind::Cross {
            f.push(format!("join_{:?}", j.kind).to_lowercase());
        }
        if let Some(E::Bin(op, _, _)) = &j.on {
            if *op != BinOp::Eq {
                f.push("non_equi_on".into());
            }
        }
    }
    if s.where_.is_some() {
        f.push("where".into());
    }
    if !s.group_by.is_empty() {
        f.push("group_by".into());
    }
    if s.group_by.len() > 1 {
        f.push("multi_key".into());
    }
    if s.group_by.iter().any(|g| !matches!(g, E::Col { .. })) {
        f.push("group_expr".into());
    }
    if s.having.is_some() {
        f.push("having".into());
    }
    let items = item_exprs(s);
    if items.iter().filter(|e| matches!(e, E::Agg(..))).count() > 1 {
        f.push("multi_agg".into());
    }
    let first_key = items.iter().position(|e| !matches!(e, E::Agg(..)));
    let first_agg = items.iter().position(|e| matches!(e, E::Agg(..)));
    if let (Some(k), Some(a)) = (first_key, first_agg) {
        if a < k {
            f.push("agg_before_key".into());
        }
    }
    let gsql: Vec<String> = s.group_by.iter().map(|e| e.sql()).collect();
    if gsql.iter().any(|g| !items.iter().any(|e| &e.sql() == g)) {
        f.push("key_not_selected".into());
    }
    f
}

// ---------------------------------------------------------------------------------------------
// shrinking
// ---------------------------------------------------------------------------------------------

fn replace_expr(e: &E, from_sql: &str, to: &E) -> E {
    if e.sql() == from_sql {
        return to.clone();
    }
    e.clone()
}

fn stmt_candidates(s: &Select, keep_having: bool) -> Vec<Select> {
    let mut out = vec![];
    if s.having.is_some() && !keep_having {
        let mut c = s.clone();
        c.having = None;
        out.push(c);
    }
    if s.items.len() > 1 {
        for i in 0..s.items.len() {
            let mut c = s.clone();
            c.items.remove(i);
            out.push(c);
        }
    }
    for j in 0..s.group_by.len() {
        let mut c = s.clone();
        let g = c.group_by.remove(j).sql();
        c.items.retain(|it| !matches!(it, Item::Expr { e, .. } if e.sql() == g));
        if !c.items.is_empty() {
            out.push(c);
        }
    }
    for j in 0..s.group_by.len() {
        let g = &s.group_by[j];
        if !matches!(g, E::Col { .. }) {
            for cand in g.shrink_candidates().into_iter().filter(|c| matches!(c, E::Col { .. })) {
                if s.group_by.iter().any(|x| x.sql() == cand.sql()) {
                    continue;
                }
                let mut c = s.clone();
                let gs = g.sql();
                c.group_by[j] = cand.clone();
                for it in c.items.iter_mut() {
                    if let Item::Expr { e, .. } = it {
                        *e = replace_expr(e, &gs, &cand);
                    }
                }
                out.push(c);
            }
        }
    }
    if s.where_.is_some() {
        let mut c = s.clone();
        c.where_ = None;
        out.push(c);
        if let Some(E::Bin(BinOp::And, a, b)) | Some(E::Bin(BinOp::Or, a, b)) = &s.where_ {
            for x in [a, b] {
                let mut c = s.clone();
                c.where_ = Some((**x).clone());
                out.push(c);
            }
        }
    }
    for i in 0..s.items.len() {
        if let Item::Expr { e: E::Agg(f, Some(a)), .. } = &s.items[i] {
            if !matches!(**a, E::Col { .. }) {
                for cand in a.shrink_candidates().into_iter().filter(|c| matches!(c, E::Col { .. })) {
                    let mut c = s.clone();
                    c.items[i] = Item::Expr { e: agg(*f, cand), alias: None };
                    out.push(c);
                }
            }
        }
    }
    {
        // canonical select list: every grouping key (once, in GROUP BY order) first, then the aggregates
        let gsql: Vec<String> = s.group_by.iter().map(|e| e.sql()).collect();
        let aggs: Vec<Item> = s.items.iter().filter(|it| matches!(it, Item::Expr { e: E::Agg(..), .. })).cloned().collect();
        let mut canon: Vec<Item> = s.group_by.iter().map(|g| Item::Expr { e: g.clone(), alias: None }).collect();
        canon.extend(aggs);
        let cur_sql: Vec<String> = item_exprs(s).iter().map(|e| e.sql()).collect();
        let canon_sql: Vec<String> = canon.iter().filter_map(|it| if let Item::Expr { e, .. } = it { Some(e.sql()) } else { None }).collect();
        if !gsql.is_empty() && cur_sql != canon_sql {
            let mut c = s.clone();
            c.items = canon;
            out.push(c);
        }
    }
    for (ji, j) in s.joins.iter().enumerate() {
        if j.kind != JoinKind::Cross {
            let mut c = s.clone();
            c.joins[ji].kind = JoinKind::Cross;
            c.joins[ji].on = None;
            out.push(c);
        }
        if j.kind == JoinKind::Left {
            let mut c = s.clone();
            c.joins[ji].kind = JoinKind::Inner;
            out.push(c);
        }
        if let Some(E::Bin(op, a, b)) = &j.on {
            if *op != BinOp::Eq {
                let mut c = s.clone();
                c.joins[ji].on = Some(bin(BinOp::Eq, (**a).clone(), (**b).clone()));
                out.push(c);
            }
        }
    }
    out
}

struct Shrinker<'a> {
    scratch: Option<&'a Scratch>,
    next_dir: u64,
    tests: u64,
    fresh_failed: Vec<String>,
    /// the shrink database is no longer in a known state (a DELETE/INSERT failed): stop row shrinking
    broken: bool,
    unconfirmed: u64,
}

type FKey = (String, String, String); // (assertion, func, path)

fn find_fail(v: &Verdict, k: &FKey) -> Option<Fail> {
    v.fails.iter().find(|f| f.assertion == k.0 && f.func == k.1).cloned()
}

impl<'a> Shrinker<'a> {
    fn test_stmt(&mut self, db: &mut Db, tables: &BTreeMap<String, MTable>, world: &World, s: &Select, k: &FKey) -> Option<Fail> {
        self.tests += 1;
        if path_of(db, s).0 != k.2 {
            return None;
        }
        let f = find_fail(&judge(db, tables, world, s), k)?;
        if !input_ok(db, tables, s) {
            return None;
        }
        Some(f)
    }

    fn shrink_stmt(&mut self, db: &mut Db, world: &World, s: &Select, k: &FKey, budget: usize) -> Select {
        let tables = world.tables();
        let mut cur = s.clone();
        let mut left = budget;
        'outer: loop {
            // (dropping HAVING is a candidate like any other: for a having_filters failure it is rejected by the test)
            let cur_feats: BTreeSet<String> = features(&cur).into_iter().collect();
            for cand in stmt_candidates(&cur, false) {
                if left == 0 {
                    break 'outer;
                }
                // a candidate must not introduce a shape feature the current statement does not have
                if !features(&cand).iter().all(|f| cur_feats.contains(f)) {
                    continue;
                }
                left -= 1;
                if self.test_stmt(db, &tables, world, &cand, k).is_some() {
                    cur = cand;
                    continue 'outer;
                }
            }
            break;
        }
        cur
    }

    /// fresh database holding `world`; None if it cannot be set up
    fn fresh(&mut self, world: &World) -> Option<Db> {
        self.next_dir += 1;
        let scratch = self.scratch?;
        let mut db = match Db::create(&scratch.dir(&format!("shr{}", self.next_dir % 4))) {
            Ok(d) => d,
            Err(e) => {
                self.fresh_failed.push(format!("create: {}", e));
                return None;
            }
        };
        if let Err(e) = world.setup(&mut db) {
            self.fresh_failed.push(format!("setup: {}", e));
            return None;
        }
        Some(db)
    }

    /// Move the shrink database from the rows of `cur` to the rows of `cand` (a subset, table `ti`) with DELETE, test,
    /// and put the deleted rows back with INSERT if the failure is gone. The final minimal case is confirmed on a
    /// database that is created from scratch, so DELETE artefacts cannot leak into a signature.
    fn test_world(&mut self, db: &mut Db, cur: &World, cand: &World, ti: usize, s: &Select, k: &FKey) -> bool {
        if self.broken {
            return false;
        }
        self.tests += 1;
        if k.2 == "header" {
            // the header shortcut reads the stored row count, which DELETE + re-INSERT can disturb: build from scratch
            let mut fdb = match self.fresh(cand) {
                Some(d) => d,
                None => return false,
            };
            let tables = cand.tables();
            return path_of(&mut fdb, s).0 == k.2 && find_fail(&judge(&mut fdb, &tables, cand, s), k).is_some() && input_ok(&mut fdb, &tables, s);
        }
        let name = cur.tabs[ti].0.name.clone();
        let keep: BTreeSet<String> = cand.tabs[ti].1.iter().map(|r| r[0].key(true)).collect();
        let removed: Vec<Row> = cur.tabs[ti].1.iter().filter(|r| !keep.contains(&r[0].key(true))).cloned().collect();
        if removed.is_empty() {
            return false;
        }
        let del = if cand.tabs[ti].1.is_empty() { format!("DELETE FROM {}", name) } else { format!("DELETE FROM {} WHERE id IN ({})", name, removed.iter().map(|r| r[0].sql()).collect::<Vec<_>>().join(", ")) };
        if db.exec(&del).is_err() {
            self.broken = true;
            return false;
        }
        let tables = cand.tables();
        let ok = path_of(db, s).0 == k.2 && find_fail(&judge(db, &tables, cand, s), k).is_some() && input_ok(db, &tables, s);
        if !ok {
            for ch in removed.chunks(20) {
                let ins = format!("INSERT INTO {} VALUES {}", name, ch.iter().map(|r| format!("({})", r.iter().map(|v| v.sql()).collect::<Vec<_>>().join(", "))).collect::<Vec<_>>().join(", "));
                if db.exec(&ins).is_err() {
                    self.broken = true;
                    return false;
                }
            }
        }
        ok
    }

    fn shrink_rows(&mut self, db: &mut Db, world: &World, s: &Select, k: &FKey, budget: usize) -> World {
        let mut cur = world.clone();
        let mut left = budget;
        for ti in 0..cur.tabs.len() {
            // (a) empty table
            if cur.tabs[ti].1.is_empty() {
                continue;
            }
            if left > 0 {
                left -= 1;
                let mut c = cur.clone();
                c.tabs[ti].1.clear();
                if self.test_world(db, &cur, &c, ti, s, k) {
                    cur = c;
                    continue;
                }
            }
            // (b) a single row (NULL-bearing rows first)
            let mut by_nulls: Vec<usize> = (0..cur.tabs[ti].1.len()).collect();
            by_nulls.sort_by_key(|&i| cur.tabs[ti].1[i].iter().filter(|v| v.is_null()).count());
            // rows with the fewest NULLs first (a defect that does not need NULLs gets the fact `no_nulls`), then the most
            let mut order: Vec<usize> = by_nulls.iter().take(3).copied().collect();
            for &i in by_nulls.iter().rev().take(3) {
                if !order.contains(&i) {
                    order.push(i);
                }
            }
            let mut done = false;
            if cur.tabs[ti].1.len() > 1 {
                for &i in order.iter() {
                    if left == 0 {
                        break;
                    }
                    left -= 1;
                    let mut c = cur.clone();
                    c.tabs[ti].1 = vec![cur.tabs[ti].1[i].clone()];
                    if self.test_world(db, &cur, &c, ti, s, k) {
                        cur = c;
                        done = true;
                        break;
                    }
                }
            }
            if done {
                continue;
            }
            // (c) complement reduction with halving chunks
            let mut chunk = (cur.tabs[ti].1.len() + 1) / 2;
            while chunk >= 1 && left > 0 {
                let mut start = 0;
                while start < cur.tabs[ti].1.len() && left > 0 {
                    let end = (start + chunk).min(cur.tabs[ti].1.len());
                    let mut c = cur.clone();
                    c.tabs[ti].1.drain(start..end);
                    left -= 1;
                    if self.test_world(db, &cur, &c, ti, s, k) {
                        cur = c;
                    } else {
                        start = end;
                    }
                }
                if chunk == 1 {
                    break;
                }
                chunk /= 2;
            }
        }
        cur
    }
}

// ---------------------------------------------------------------------------------------------
// component level: the generic Volcano HashAggregateExecutor (src/sql/executor.rs) driven directly
// ---------------------------------------------------------------------------------------------

fn run_generic_executor(rows: &[Row], group_by: &[usize], aggs: &[(AggFn, usize)]) -> Result<Vec<Row>, String> {
    use smallvec::SmallVec;
    use turdb::sql::executor::{AggregateFunction, Executor, HashAggregateExecutor, MaterializedRowSource, TableScanExecutor};
    let owned: Vec<Vec<turdb::OwnedValue>> = rows.iter().map(|r| r.iter().map(|v| v.to_owned_value()).collect()).collect();
    let gb: SmallVec<[usize; 4]> = group_by.iter().copied().collect();
    let fs: SmallVec<[AggregateFunction; 4]> = aggs
        .iter()
        .map(|(f, c)| match f {
            AggFn::CountStar | AggFn::Count => AggregateFunction::Count { distinct: false },
            AggFn::Sum => AggregateFunction::Sum { column: *c },
            AggFn::Avg => AggregateFunction::Avg { column: *c },
            AggFn::Min => AggregateFunction::Min { column: *c },
            AggFn::Max => AggregateFunction::Max { column: *c },
        })
        .collect();
    let r = catch(move || -> Result<Vec<Row>, String> {
        let arena = bumpalo::Bump::new();
        let scan = TableScanExecutor::new(MaterializedRowSource::new(owned), &arena);
        let mut ex = HashAggregateExecutor::new(scan, gb, fs, &arena);
        ex.open().map_err(|e| format!("{:#}", e))?;
        let mut out: Vec<Row> = vec![];
        while let Some(row) = ex.next().map_err(|e| format!("{:#}", e))? {
            out.push(row.values.iter().map(|v| V::from_owned(&turdb::OwnedValue::from(v))).collect());
        }
        ex.close().map_err(|e| format!("{:#}", e))?;
        Ok(out)
    });
    match r {
        Ok(x) => x,
        Err(p) => Err(format!("PANIC: {}", p)),
    }
}

struct CompCase {
    world: World,
    sel: Select,
    group_by: Vec<usize>,
    aggs: Vec<(AggFn, usize)>,
}

fn gen_component_case(rng: &mut Rng) -> CompCase {
    let world = gen_world(rng, false);
    let names = world.tabs[0].0.col_names(); // id ik tk ia ib fa ta
    let idx = |n: &str| names.iter().position(|x| x == n).unwrap();
    let keysets: Vec<Vec<&str>> = vec![vec![], vec![], vec!["ik"], vec!["ik"], vec!["tk"], vec!["ik", "tk"], vec!["fa"]];
    let ks = rng.pick(&keysets).clone();
    let nagg = rng.usize(1, 3);
    let mut aggs: Vec<(AggFn, usize)> = vec![];
    let mut items: Vec<Item> = ks.iter().map(|k| Item::Expr { e: col(k), alias: None }).collect();
    let mut seen = BTreeSet::new();
    for _ in 0..nagg {
        let f = *rng.pick(&[AggFn::CountStar, AggFn::Sum, AggFn::Sum, AggFn::Avg, AggFn::Min, AggFn::Max, AggFn::Min, AggFn::Max]);
        let c = match f {
            AggFn::Min | AggFn::Max => *rng.pick(&["ia", "ib", "fa", "ta", "tk"]),
            _ => *rng.pick(&["ia", "ib", "fa"]),
        };
        let e = if f == AggFn::CountStar { count_star() } else { agg(f, col(c)) };
        if seen.insert(e.sql()) {
            aggs.push((f, idx(c)));
            items.push(Item::Expr { e, alias: None });
        }
    }
    let sel = Select { items, from: vec![FromItem::Table { name: "t".into(), alias: None }], group_by: ks.iter().map(|k| col(k)).collect(), ..Default::default() };
    CompCase { group_by: ks.iter().map(|k| idx(k)).collect(), aggs, world, sel }
}

fn judge_component(c: &CompCase, world: &World) -> Verdict {
    let tables = world.tables();
    let m = match run_model(&Query::Select(c.sel.clone()), &tables) {
        Ok(m) => m,
        Err(_) => return Verdict { judged: false, fails: vec![], having_judged: false },
    };
    match run_generic_executor(&world.tabs[0].1, &c.group_by, &c.aggs) {
        Ok(got) => Verdict { judged: true, fails: compare_base(&got, &m, &c.sel, &tables, world), having_judged: false },
        Err(e) => Verdict { judged: true, fails: vec![exec_fail(&Query::Select(c.sel.clone()).sql(), &e, "generic_executor")], having_judged: false },
    }
}

// ---------------------------------------------------------------------------------------------
// driver
// ---------------------------------------------------------------------------------------------

struct Stats {
    sigs: BTreeMap<String, u64>,
    paths: BTreeMap<String, u64>,
    plans: BTreeMap<String, u64>,
    judged_fn: BTreeMap<String, u64>,
    judged_fact: BTreeMap<String, u64>,
    shape: BTreeMap<String, u64>,
    input_defects: BTreeMap<String, u64>,
    fail_paths: BTreeMap<String, u64>,
    example: BTreeMap<String, J>,
}

fn bump(m: &mut BTreeMap<String, u64>, k: &str) {
    *m.entry(k.to_string()).or_insert(0) += 1;
}

pub fn run(a: &Args) -> i32 {
    let mut ctx = Ctx::new(
        "C16",
        &a.tier,
        a.seed,
        "exploration",
        "generated worlds: table t(id PK, ik, tk, ia, ib, fa, ta) with 0/1/2..40 rows, per-column NULL strata 0/15/50/100% (all-NULL columns and empty tables included), small key domains; 30% of worlds add u(id PK, jk, ja, jf, jt) for aggregate-over-join shapes. Generated statements: 1..4 of COUNT(*), COUNT(col|expr), SUM/AVG(int|float col|expr), MIN/MAX(int|float|text col|expr); no GROUP BY / one key / several keys / expression key (ik+1, ik*2, ik%2, ik+ib); keys before/after the aggregates or not selected; optional WHERE (comparisons, IS [NOT] NULL, id ranges, id = k, never-true id < 0); optional HAVING on an aggregate (selected or not) or on a key. Each statement is executed by TurDB and by the reference evaluator; first without HAVING (one_row_per_group, null_group_once, agg_value per aggregate function with the failing group's input fact: no_nulls/null_inputs/all_null_inputs/empty_input), then, if that is clean, with HAVING (having_filters). Numeric values compare by loose numeric key (Int 3 == Float 3.0, 9 significant digits). A failing case is shrunk (items, HAVING, keys, WHERE, argument expression, rows via re-created tables in a fresh database) while the same sub-assertion+function fails on the same path class (header = header-based COUNT fast path, volcano = DynamicExecutor::HashAggregate over a table/index scan, join = hand-written aggregate loop in database.rs, generic_executor = sql::executor::HashAggregateExecutor driven directly on materialized rows). distinct_nontrivial = distinct (statement text, per-aggregate input facts) pairs that were judged",
    );
    let mut rng = Rng::derive(a.seed, 16);
    let quick = ctx.quick();
    let miri = cfg!(miri);
    let (nworlds, per_world, ncomp) = if miri {
        (0, 0, 60)
    } else if quick {
        (260, 14, 1500)
    } else {
        (3200, 16, 30000)
    };
    let full_shrinks_per_raw = if quick { 2 } else { 5 };
    let deadline = if quick { 38.0 } else { 470.0 };
    // no files under Miri: only the component stage runs there
    let scratch_holder = if miri { None } else { Some(Scratch::new("c16")) };
    let scratch = scratch_holder.as_ref();
    let mut st = Stats { sigs: BTreeMap::new(), paths: BTreeMap::new(), plans: BTreeMap::new(), judged_fn: BTreeMap::new(), judged_fact: BTreeMap::new(), shape: BTreeMap::new(), input_defects: BTreeMap::new(), fail_paths: BTreeMap::new(), example: BTreeMap::new() };
    let mut shr = Shrinker { scratch, next_dir: 0, tests: 0, fresh_failed: vec![], broken: false, unconfirmed: 0 };
    // raw signature (after statement shrinking) -> final signatures obtained by full (row) shrinking
    let mut raw_cache: HashMap<String, Vec<String>> = HashMap::new();
    let mut t_shrink_total = 0.0f64;

    // component level: generic HashAggregateExecutor on materialized rows (also the Miri stage)
    let mut comp_judged = 0u64;
    for _ in 0..ncomp {
        let c = gen_component_case(&mut rng);
        ctx.eval();
        let v = judge_component(&c, &c.world);
        if !v.judged {
            ctx.count("dropped_model_undecided", 1);
            continue;
        }
        comp_judged += 1;
        bump(&mut st.paths, "generic_executor");
        let sql = Query::Select(c.sel.clone()).sql();
        ctx.nontrivial(fnv(format!("generic|{}|{}", sql, c.world.tabs[0].1.len()).as_bytes()));
        for (f, _) in &c.aggs {
            bump(&mut st.judged_fn, &format!("generic_executor/{}", fn_name(*f)));
        }
        for f0 in &v.fails {
            // shrink in memory: drop the grouping keys, drop the other aggregates, then rows (empty, one at a time)
            let same = |c: &CompCase, w: &World| judge_component(c, w).fails.iter().find(|f| f.assertion == f0.assertion && f.func == f0.func).cloned();
            let mut cc = CompCase { world: c.world.clone(), sel: c.sel.clone(), group_by: c.group_by.clone(), aggs: c.aggs.clone() };
            let mut w = cc.world.clone();
            for _round in 0..3 {
                let before = (cc.group_by.len(), cc.aggs.len(), w.tabs[0].1.len());
                if !cc.group_by.is_empty() {
                    let nk = cc.group_by.len();
                    let mut cand = CompCase { world: w.clone(), sel: cc.sel.clone(), group_by: vec![], aggs: cc.aggs.clone() };
                    cand.sel.group_by.clear();
                    cand.sel.items.drain(0..nk);
                    if same(&cand, &w).is_some() {
                        cc = cand;
                    }
                }
                let mut ai = 0;
                while cc.aggs.len() > 1 && ai < cc.aggs.len() {
                    let nk = cc.group_by.len();
                    let mut cand = CompCase { world: w.clone(), sel: cc.sel.clone(), group_by: cc.group_by.clone(), aggs: cc.aggs.clone() };
                    cand.aggs.remove(ai);
                    cand.sel.items.remove(nk + ai);
                    if same(&cand, &w).is_some() {
                        cc = cand;
                    } else {
                        ai += 1;
                    }
                }
                let mut cand = w.clone();
                cand.tabs[0].1.clear();
                if same(&cc, &cand).is_some() {
                    w = cand;
                } else {
                    let mut i = 0;
                    while i < w.tabs[0].1.len() {
                        let mut cand = w.clone();
                        cand.tabs[0].1.remove(i);
                        if same(&cc, &cand).is_some() {
                            w = cand;
                        } else {
                            i += 1;
                        }
                    }
                }
                if before == (cc.group_by.len(), cc.aggs.len(), w.tabs[0].1.len()) {
                    break;
                }
            }
            let f2 = same(&cc, &w).unwrap_or_else(|| f0.clone());
            let feats = features(&cc.sel).join("+");
            let sig = format!("C16/{}/generic_executor/{}{}", f2.assertion, f2.cause, if feats.is_empty() { String::new() } else { format!("/{}", feats) });
            bump(&mut st.sigs, &sig);
            let aggs_txt: Vec<String> = cc.aggs.iter().map(|(f, i)| format!("{}(col {})", fn_name(*f), i)).collect();
            if !st.example.contains_key(&sig) {
                st.example.insert(sig.clone(), json!({"rows": rows_json(&w.tabs[0].1, 8), "columns": w.tabs[0].0.col_names(), "group_by_columns": cc.group_by, "aggregates": aggs_txt, "failure": f2.detail}));
            }
            ctx.violation(f0.assertion, &sig, json!({"component": "turdb::sql::executor::HashAggregateExecutor", "original_equivalent_sql": sql, "rows": rows_json(&w.tabs[0].1, 12), "group_by_columns": cc.group_by, "aggregates": aggs_txt, "minimal_failure": f2.detail, "original_failure": f0.detail}));
        }
    }
    let t_component = ctx.elapsed();

    'worlds: for wi in 0..nworlds {
        if ctx.elapsed() > deadline {
            ctx.count("stopped_at_deadline", 1);
            break;
        }
        let join_world = rng.chance(3, 10);
        let world = gen_world(&mut rng, join_world);
        let tables = world.tables();
        let mut db = match Db::create(&scratch.expect("scratch directory").dir(&format!("w{}", wi % 8))) {
            Ok(d) => d,
            Err(e) => {
                ctx.inconclusive(&format!("cannot create database: {}", e));
                break;
            }
        };
        if let Err(e) = world.setup(&mut db) {
            ctx.violation("setup", "C16/setup_failed", json!({"error": e, "log": db.log}));
            continue;
        }
        for _ in 0..per_world {
            let shape = if join_world {
                Shape::Join
            } else if rng.chance(2, 5) {
                Shape::Single
            } else {
                Shape::Grouped
            };
            let sel = gen_select(&mut rng, &world, shape);
            let sql = Query::Select(sel.clone()).sql();
            ctx.eval();
            let (path, plan) = path_of(&mut db, &sel);
            let v = judge(&mut db, &tables, &world, &sel);
            if !v.judged {
                ctx.count("dropped_model_undecided", 1);
                continue;
            }
            bump(&mut st.paths, &path);
            bump(&mut st.plans, &plan);
            if sel.having.is_some() {
                // the HAVING-free statement is executed (and judged) first; it may take another path
                let mut b = sel.clone();
                b.having = None;
                let (p2, plan2) = path_of(&mut db, &b);
                bump(&mut st.paths, &p2);
                bump(&mut st.plans, &plan2);
            }
            for f in features(&sel) {
                bump(&mut st.shape, &f);
            }
            if v.having_judged {
                ctx.count("having_judged", 1);
            } else if sel.having.is_some() {
                ctx.count("having_not_judged_base_failed", 1);
            }
            // coverage: which functions over which input facts were judged
            let mut base = sel.clone();
            base.having = None;
            let mut fact_sig = String::new();
            for e in item_exprs(&sel) {
                if let E::Agg(f, arg) = e {
                    bump(&mut st.judged_fn, &format!("{}/{}", path, fn_name(*f)));
                    if let Some(fm) = input_facts(&base, &tables, arg) {
                        let fs: BTreeSet<&str> = fm.values().copied().collect();
                        for x in &fs {
                            bump(&mut st.judged_fact, &format!("{}/{}", fn_name(*f), x));
                        }
                        fact_sig.push_str(&format!("{:?};", fs));
                    }
                }
            }
            ctx.nontrivial(fnv(format!("{}|{}", sql, fact_sig).as_bytes()));
            if v.fails.is_empty() {
                ctx.count("cases_held", 1);
                if ctx.samples.len() < 6 && (ctx.samples.len() as u64) < 1 + wi as u64 / 3 {
                    ctx.sample(json!({"sql": sql, "plan": plan, "path": path, "rows_t": world.tabs[0].1.len()}));
                }
                continue;
            }
            if !input_ok(&mut db, &tables, &sel) {
                // the un-aggregated FROM/WHERE result is already wrong: a join/WHERE defect, not judged here
                ctx.count("dropped_input_rows_wrong", 1);
                bump(&mut st.input_defects, &format!("{}/{}", path, features(&sel).into_iter().filter(|f| f.starts_with("join") || f == "where" || f == "non_equi_on").collect::<Vec<_>>().join("+")));
                continue;
            }
            ctx.count("cases_with_failures", 1);
            let t_shrink0 = std::time::Instant::now();
            for f0 in &v.fails {
                // a failure of the HAVING-free statement does not involve HAVING at all: drop it first, and take
                // the execution path of the statement that actually failed
                let mut sel = sel.clone();
                if f0.stage == "base" {
                    sel.having = None;
                }
                let (path, plan) = path_of(&mut db, &sel);
                bump(&mut st.fail_paths, &path);
                let k: FKey = (f0.assertion.to_string(), f0.func.clone(), path.clone());
                // statement shrinking on the live database
                let s1 = shr.shrink_stmt(&mut db, &world, &sel, &k, 60);
                let f1 = find_fail(&judge(&mut db, &tables, &world, &s1), &k).unwrap_or_else(|| f0.clone());
                let raw = format!("C16/{}/{}/{}/{}", f1.assertion, path, f1.cause, features(&s1).join("+"));
                let cached = raw_cache.get(&raw).cloned().unwrap_or_default();
                let (sig, min_sel, min_world, min_fail, how) = if cached.len() >= full_shrinks_per_raw && cached.iter().all(|x| x == &cached[0]) {
                    ctx.count("shrinks_by_cached_mapping", 1);
                    (cached[0].clone(), s1.clone(), world.clone(), f1.clone(), "statement_shrunk_rows_by_cached_mapping")
                } else {
                    ctx.count("shrinks_full", 1);
                    // alternate row and statement shrinking until nothing changes (a GROUP BY that is needed on the
                    // full data can often be dropped once only the failing group's rows are left, and then the
                    // table can shrink further)
                    let mut w2 = world.clone();
                    let mut s2 = s1.clone();
                    let mut f2: Option<Fail> = None;
                    shr.broken = false;
                    if let Some(mut db2) = shr.fresh(&world) {
                        for _round in 0..3 {
                            let w3 = shr.shrink_rows(&mut db2, &w2, &s2, &k, 60);
                            let mut s3 = shr.shrink_stmt(&mut db2, &w3, &s2, &k, 40);
                            // normal form for the volcano path: when only WHERE / HAVING / a second aggregate keeps the
                            // statement off the header shortcut, try `SELECT ik, <agg> FROM t GROUP BY ik` instead
                            let feats = features(&s3);
                            if path == "volcano" && !feats.iter().any(|f| f == "group_by") && !feats.is_empty() {
                                if let Some(item) = find_fail(&judge(&mut db2, &w3.tables(), &w3, &s3), &k).and_then(|f| f.item) {
                                    if let Some(it) = s3.items.iter().find(|it| matches!(it, Item::Expr { e, .. } if e.sql() == item)) {
                                        let mut c = Select::default();
                                        c.from = s3.from.clone();
                                        c.group_by = vec![col("ik")];
                                        c.items = vec![Item::Expr { e: col("ik"), alias: None }, it.clone()];
                                        if shr.test_stmt(&mut db2, &w3.tables(), &w3, &c, &k).is_some() {
                                            s3 = c;
                                        }
                                    }
                                }
                            }
                            let changed = w3.total_rows() != w2.total_rows() || Query::Select(s3.clone()).sql() != Query::Select(s2.clone()).sql();
                            w2 = w3;
                            s2 = s3;
                            if !changed || shr.broken {
                                break;
                            }
                        }
                        drop(db2);
                        // confirm the minimal case on a database built from scratch
                        if let Some(mut db3) = shr.fresh(&w2) {
                            let tb = w2.tables();
                            if path_of(&mut db3, &s2).0 == path && input_ok(&mut db3, &tb, &s2) {
                                f2 = find_fail(&judge(&mut db3, &tb, &w2, &s2), &k);
                            }
                        }
                        if f2.is_none() {
                            shr.unconfirmed += 1;
                        }
                    }
                    match f2 {
                        Some(f2) => {
                            let feats = features(&s2).join("+");
                            let sig = format!("C16/{}/{}/{}{}", f2.assertion, path, f2.cause, if feats.is_empty() { String::new() } else { format!("/{}", feats) });
                            raw_cache.entry(raw.clone()).or_default().push(sig.clone());
                            (sig, s2, w2, f2, "fully_shrunk")
                        }
                        None => {
                            // could not re-establish on the reduced world (should not happen): keep the statement-shrunk case
                            let feats = features(&s1).join("+");
                            let sig = format!("C16/{}/{}/{}{}", f1.assertion, path, f1.cause, if feats.is_empty() { String::new() } else { format!("/{}", feats) });
                            (sig, s1.clone(), world.clone(), f1.clone(), "statement_shrunk_only")
                        }
                    }
                };
                bump(&mut st.sigs, &sig);
                let detail = json!({
                    "original_sql": sql,
                    "original_plan": plan,
                    "original_failure": f0.detail,
                    "minimal_sql": Query::Select(min_sel.clone()).sql(),
                    "minimal_setup": if min_world.total_rows() <= 12 { json!(min_world.ddl()) } else { json!({"statements": min_world.ddl().len(), "first": min_world.ddl().into_iter().take(4).collect::<Vec<_>>()}) },
                    "minimal_failure": min_fail.detail,
                    "shrink": how,
                });
                if !st.example.contains_key(&sig) && how == "fully_shrunk" {
                    st.example.insert(sig.clone(), json!({"setup": min_world.ddl(), "sql": Query::Select(min_sel.clone()).sql(), "failure": min_fail.detail}));
                }
                if let Ok(pat) = std::env::var("C16_DUMP") {
                    if sig.contains(&pat) {
                        eprintln!("DUMP {} {}", sig, serde_json::to_string(&detail).unwrap_or_default());
                    }
                }
                ctx.violation(f0.assertion, &sig, detail);
                if ctx.elapsed() > deadline + 8.0 {
                    ctx.count("stopped_at_deadline", 1);
                    break 'worlds;
                }
            }
            t_shrink_total += t_shrink0.elapsed().as_secs_f64();
        }
    }

    ctx.extra.insert("wall_seconds_by_stage".into(), json!({"generic_executor": t_component, "sql_level_total": ctx.elapsed() - t_component, "of_which_shrinking": t_shrink_total}));
    ctx.count("generic_executor_cases", comp_judged);
    ctx.count("shrink_reexecutions", shr.tests);
    ctx.count("shrink_fresh_database_failed", shr.fresh_failed.len() as u64);
    ctx.count("shrink_result_not_confirmed_on_fresh_database", shr.unconfirmed);
    if !shr.fresh_failed.is_empty() {
        ctx.extra.insert("shrink_fresh_database_errors".into(), json!(shr.fresh_failed.iter().take(5).collect::<Vec<_>>()));
    }

    // both SQL-level paths named by the property must have been reached
    if !miri {
        for p in ["volcano", "join", "header"] {
            if st.paths.get(p).copied().unwrap_or(0) == 0 {
                // a run cut short by its wall budget on a loaded machine may not get to every path; that is
                // recorded (and visible in cases_per_path), but only a run that reached NO path is inconclusive
                ctx.count(&format!("path_never_reached_{}", p), 1);
            }
        }
    }
    if !miri && st.paths.values().all(|n| *n == 0) {
        ctx.inconclusive("no SQL-level execution path was reached");
    }
    ctx.extra.insert("cases_per_path".into(), json!(st.paths));
    ctx.extra.insert("cases_per_plan".into(), json!(st.plans));
    ctx.extra.insert("failing_statements_per_path".into(), json!(st.fail_paths));
    ctx.extra.insert("judged_aggregates_by_path_and_function".into(), json!(st.judged_fn));
    ctx.extra.insert("judged_aggregates_by_function_and_input_fact".into(), json!(st.judged_fact));
    ctx.extra.insert("statement_features".into(), json!(st.shape));
    ctx.extra.insert("signatures".into(), json!(st.sigs));
    ctx.extra.insert("dropped_because_unaggregated_input_wrong".into(), json!(st.input_defects));
    ctx.extra.insert("minimal_example_per_signature".into(), json!(st.example));
    ctx.assumptions.push("SUM/AVG/MIN/MAX results are compared numerically (Int 3 == Float 3.0), the Int-vs-Float result type is not asserted; float inputs are multiples of 0.25 so sums are exact; integer magnitudes stay below 2^32 so no sum overflows; text compares bytewise; no ORDER BY is generated (result sets compare as bags / by group key)".into());
    ctx.assumptions.push("path classes are decided by statement shape and confirmed by EXPLAIN (cases_per_plan): a join below HashAggregate is executed by the hand-written aggregate loop of Database::query, a lone COUNT without WHERE/GROUP BY/HAVING by the header row-count shortcut, everything else by DynamicExecutor::HashAggregate".into());
    ctx.finish()
}

//! C17: joins return the SQL-defined rows under any memory budget.
//!
//! Level (a), SQL: generated 2..4-way joins of every kind over small tables with duplicate and NULL
//! join keys; each query is executed under `PRAGMA join_memory_budget = N` for four budgets and
//! compared as a bag with the library's nested-loop reference evaluator (`bag`), and across budgets
//! (`budget_invariant`). EXPLAIN is recorded so the evidence says which join algorithm ran.
//! Level (b), component: the same generated inputs as `MaterializedRowSource`s into the Volcano join
//! executors reachable through the public API (NestedLoopJoin, GraceHashJoin in memory and spilling,
//! StreamingHashJoin), `bag` against the model and `algorithm_invariant` across executors.
use crate::report::{catch, Ctx};
use crate::rng::{fnv, Rng};
use crate::sqlm::cmp::bag_diff;
use crate::sqlm::db::{is_panic, panic_tag, Db, Scratch};
use crate::sqlm::expr::{bin, BinOp, MErr, E};
use crate::sqlm::query::{run_model, FromItem, Item, Join, JoinKind, MTable, Query, Select};
use crate::sqlm::val::{row_key, rows_json, Row, V};
use crate::Args;
use serde_json::{json, Value as J};
use std::collections::{BTreeMap, BTreeSet};
use std::path::{Path, PathBuf};

const BUDGETS: [usize; 4] = [1024, 4096, 65536, 10485760];

// ---------------------------------------------------------------------------------------------
// tables
// ---------------------------------------------------------------------------------------------

#[derive(Clone, Copy, Debug, PartialEq, Eq, Hash)]
enum CK {
    Pk,
    IntKey,
    TextKey,
    Payload,
    Date,
    Bool,
    Ts,
}

impl CK {
    fn sql_type(&self) -> &'static str {
        match self {
            CK::Pk => "BIGINT PRIMARY KEY",
            CK::IntKey | CK::Payload => "BIGINT",
            CK::TextKey => "TEXT",
            CK::Date => "DATE",
            CK::Bool => "BOOLEAN",
            CK::Ts => "TIMESTAMP",
        }
    }
    /// comparison class: columns of the same class may be compared with each other
    fn class(&self) -> &'static str {
        match self {
            CK::Pk | CK::IntKey | CK::Payload => "int",
            CK::TextKey => "text",
            CK::Date => "date",
            CK::Bool => "bool",
            CK::Ts => "ts",
        }
    }
    fn tag(&self) -> &'static str {
        match self {
            CK::Pk => "pk",
            CK::IntKey | CK::Payload => "int",
            CK::TextKey => "text",
            CK::Date => "date",
            CK::Bool => "bool",
            CK::Ts => "ts",
        }
    }
}

#[derive(Clone, Debug)]
struct Col {
    name: String,
    kind: CK,
}

#[derive(Clone, Debug)]
struct Tab {
    name: String,
    cols: Vec<Col>,
    rows: Vec<Row>,
    /// columns carrying a secondary index
    indexes: Vec<String>,
}

impl Tab {
    fn col(&self, name: &str) -> Option<(usize, &Col)> {
        self.cols.iter().enumerate().find(|(_, c)| c.name == name)
    }
    fn create_sql(&self) -> String {
        format!("CREATE TABLE {} ({})", self.name, self.cols.iter().map(|c| format!("{} {}", c.name, c.kind.sql_type())).collect::<Vec<_>>().join(", "))
    }
    fn insert_sql(&self) -> Vec<String> {
        self.rows.chunks(6).map(|ch| format!("INSERT INTO {} VALUES {}", self.name, ch.iter().map(|r| format!("({})", r.iter().map(|v| v.sql()).collect::<Vec<_>>().join(", "))).collect::<Vec<_>>().join(", "))).collect()
    }
    fn index_sql(&self) -> Vec<String> {
        self.indexes.iter().map(|c| format!("CREATE INDEX ix_{}_{} ON {} ({})", self.name, c, self.name, c)).collect()
    }
    fn setup_sql(&self) -> Vec<String> {
        let mut v = vec![self.create_sql()];
        v.extend(self.insert_sql());
        v.extend(self.index_sql());
        v
    }
    fn mtable(&self) -> MTable {
        MTable { name: self.name.clone(), cols: self.cols.iter().map(|c| c.name.clone()).collect(), rows: self.rows.clone() }
    }
}

#[derive(Clone, Debug)]
struct Spec {
    tabs: Vec<Tab>,
    shared_id: bool,
    special: Option<CK>,
}

impl Spec {
    fn model_tables(&self) -> BTreeMap<String, MTable> {
        self.tabs.iter().map(|t| (t.name.clone(), t.mtable())).collect()
    }
    fn setup_sql(&self) -> Vec<String> {
        self.tabs.iter().flat_map(|t| t.setup_sql()).collect()
    }
    fn data_hash(&self) -> u64 {
        let mut s = String::new();
        for t in &self.tabs {
            s.push_str(&t.name);
            for r in &t.rows {
                s.push_str(&row_key(r, false));
                s.push('\n');
            }
        }
        fnv(s.as_bytes())
    }
}

const TEXT_KEYS: &[&str] = &["a", "ab", "abc", "b", "ba", "c"];
const DATES: &[&str] = &["2024-01-05", "2024-01-06", "2024-02-29", "1999-12-31"];
const STAMPS: &[&str] = &["2024-01-05 10:00:00", "2024-01-06 11:30:00", "1999-12-31 23:59:59", "2024-02-29 00:00:01"];

fn gen_cell(rng: &mut Rng, kind: CK, dom: i64, null_pm: u64) -> V {
    if rng.below(1000) < null_pm {
        return V::Null;
    }
    match kind {
        CK::IntKey => V::Int(rng.range(0, dom - 1)),
        CK::TextKey => V::Text(TEXT_KEYS[rng.below((dom as u64).min(TEXT_KEYS.len() as u64)) as usize].to_string()),
        CK::Date => V::Text(rng.pick(DATES).to_string()),
        CK::Ts => V::Text(rng.pick(STAMPS).to_string()),
        CK::Bool => V::Bool(rng.chance(1, 2)),
        CK::Pk | CK::Payload => unreachable!(),
    }
}

/// `special`: optional extra key column of type DATE / BOOLEAN / TIMESTAMP (own stratum)
fn gen_spec(rng: &mut Rng, ntabs: usize, special: Option<CK>, allow_index: bool) -> Spec {
    let shared_id = rng.chance(1, 5);
    let max_rows = match ntabs {
        2 => 25,
        3 => 12,
        _ => 7,
    };
    let dom = *rng.pick(&[2i64, 3, 4, 6]);
    let mut tabs = vec![];
    for ti in 0..ntabs {
        let sfx = (b'a' + ti as u8) as char;
        let name = format!("t{}", sfx);
        let mut cols = vec![];
        if rng.chance(7, 10) {
            cols.push(Col { name: if shared_id { "id".to_string() } else { format!("id{}", sfx) }, kind: CK::Pk });
        }
        cols.push(Col { name: format!("k{}", sfx), kind: CK::IntKey });
        cols.push(Col { name: format!("s{}", sfx), kind: CK::TextKey });
        cols.push(Col { name: format!("v{}", sfx), kind: CK::Payload });
        if let Some(sp) = special {
            cols.push(Col { name: format!("x{}", sfx), kind: sp });
        }
        let null_pm = *rng.pick(&[0u64, 150, 150, 300]);
        let nrows = if rng.chance(1, 30) { 0 } else { rng.usize(3, max_rows) };
        let mut rows = vec![];
        // primary keys are not always dense / ascending in insertion order
        let mut ids: Vec<i64> = (1..=nrows as i64).collect();
        if rng.chance(1, 3) {
            rng.shuffle(&mut ids);
        }
        for i in 0..nrows {
            let mut r = vec![];
            for c in &cols {
                r.push(match c.kind {
                    CK::Pk => V::Int(ids[i]),
                    CK::Payload => V::Int((ti as i64 + 1) * 100 + i as i64),
                    k => gen_cell(rng, k, dom, null_pm),
                });
            }
            rows.push(r);
        }
        let mut indexes = vec![];
        if allow_index {
            if rng.chance(3, 10) {
                indexes.push(format!("k{}", sfx));
            }
            if rng.chance(2, 10) {
                indexes.push(format!("s{}", sfx));
            }
            if special.is_some() && rng.chance(7, 10) {
                indexes.push(format!("x{}", sfx));
            }
        }
        tabs.push(Tab { name, cols, rows, indexes });
    }
    Spec { tabs, shared_id, special }
}

// ---------------------------------------------------------------------------------------------
// join queries
// ---------------------------------------------------------------------------------------------

#[derive(Clone, Debug)]
struct TRef {
    tab: usize,
    alias: Option<String>,
}

#[derive(Clone, Debug, PartialEq)]
struct CRef {
    t: usize,
    col: String,
}

#[derive(Clone, Debug)]
enum Atom {
    /// earlier-table column = new-table column; `bool` = rendered reversed
    Equi(CRef, CRef, bool),
    Cmp2(CRef, BinOp, CRef),
    CmpLit(CRef, BinOp, V),
    IsNull(CRef, bool),
    Or(Box<Atom>, Box<Atom>),
}

impl Atom {
    fn refs(&self, out: &mut Vec<CRef>) {
        match self {
            Atom::Equi(a, b, _) | Atom::Cmp2(a, _, b) => {
                out.push(a.clone());
                out.push(b.clone());
            }
            Atom::CmpLit(a, _, _) | Atom::IsNull(a, _) => out.push(a.clone()),
            Atom::Or(a, b) => {
                a.refs(out);
                b.refs(out);
            }
        }
    }
    fn uses(&self, t: usize) -> bool {
        let mut r = vec![];
        self.refs(&mut r);
        r.iter().any(|c| c.t == t)
    }
    fn renumber(&mut self, removed: usize) {
        let f = |c: &mut CRef| {
            if c.t > removed {
                c.t -= 1
            }
        };
        match self {
            Atom::Equi(a, b, _) | Atom::Cmp2(a, _, b) => {
                f(a);
                f(b);
            }
            Atom::CmpLit(a, _, _) | Atom::IsNull(a, _) => f(a),
            Atom::Or(a, b) => {
                a.renumber(removed);
                b.renumber(removed);
            }
        }
    }
}

#[derive(Clone, Debug)]
struct JStep {
    kind: JoinKind,
    on: Vec<Atom>,
}

#[derive(Clone, Debug)]
struct JQ {
    trefs: Vec<TRef>,
    /// true: `FROM a, b, c WHERE ...`; false: `FROM a <JOIN> b ON .. <JOIN> c ON ..`
    comma: bool,
    /// one step per tref after the first (ignored when `comma`)
    steps: Vec<JStep>,
    where_: Vec<Atom>,
    /// None = `SELECT *`
    items: Option<Vec<CRef>>,
    qualify: bool,
}

fn kind_name(k: JoinKind) -> &'static str {
    match k {
        JoinKind::Inner => "inner",
        JoinKind::Left => "left",
        JoinKind::Right => "right",
        JoinKind::Full => "full",
        JoinKind::Cross => "cross",
    }
}

impl JQ {
    fn tname(&self, spec: &Spec, t: usize) -> String {
        let r = &self.trefs[t];
        r.alias.clone().unwrap_or_else(|| spec.tabs[r.tab].name.clone())
    }
    fn cref_e(&self, spec: &Spec, c: &CRef) -> E {
        if self.qualify {
            E::Col { tbl: Some(self.tname(spec, c.t)), name: c.col.clone() }
        } else {
            E::Col { tbl: None, name: c.col.clone() }
        }
    }
    fn atom_e(&self, spec: &Spec, a: &Atom) -> E {
        match a {
            Atom::Equi(l, r, rev) => {
                if *rev {
                    bin(BinOp::Eq, self.cref_e(spec, r), self.cref_e(spec, l))
                } else {
                    bin(BinOp::Eq, self.cref_e(spec, l), self.cref_e(spec, r))
                }
            }
            Atom::Cmp2(l, op, r) => bin(*op, self.cref_e(spec, l), self.cref_e(spec, r)),
            Atom::CmpLit(c, op, v) => bin(*op, self.cref_e(spec, c), E::Lit(v.clone())),
            Atom::IsNull(c, neg) => E::IsNull(Box::new(self.cref_e(spec, c)), *neg),
            Atom::Or(x, y) => bin(BinOp::Or, self.atom_e(spec, x), self.atom_e(spec, y)),
        }
    }
    fn conj(&self, spec: &Spec, atoms: &[Atom]) -> Option<E> {
        let mut it = atoms.iter().map(|a| self.atom_e(spec, a));
        let first = it.next()?;
        Some(it.fold(first, |acc, e| bin(BinOp::And, acc, e)))
    }
    fn from_item(&self, spec: &Spec, t: usize) -> FromItem {
        FromItem::Table { name: spec.tabs[self.trefs[t].tab].name.clone(), alias: self.trefs[t].alias.clone() }
    }
    fn to_query(&self, spec: &Spec) -> Query {
        let items = match &self.items {
            None => vec![Item::Star],
            Some(cs) => cs.iter().map(|c| Item::Expr { e: self.cref_e(spec, c), alias: None }).collect(),
        };
        let mut s = Select { items, ..Default::default() };
        if self.comma {
            s.from = (0..self.trefs.len()).map(|t| self.from_item(spec, t)).collect();
        } else {
            s.from = vec![self.from_item(spec, 0)];
            for (i, st) in self.steps.iter().enumerate() {
                let on = if st.kind == JoinKind::Cross { None } else { self.conj(spec, &st.on) };
                s.joins.push(Join { kind: st.kind, item: self.from_item(spec, i + 1), on });
            }
        }
        s.where_ = self.conj(spec, &self.where_);
        Query::Select(s)
    }
    fn sql(&self, spec: &Spec) -> String {
        self.to_query(spec).sql()
    }
    fn col_kind(&self, spec: &Spec, c: &CRef) -> CK {
        spec.tabs[self.trefs[c.t].tab].col(&c.col).map(|x| x.1.kind).unwrap_or(CK::Payload)
    }
    fn indexed(&self, spec: &Spec, c: &CRef) -> Option<&'static str> {
        let tab = &spec.tabs[self.trefs[c.t].tab];
        if self.col_kind(spec, c) == CK::Pk {
            Some("pk")
        } else if tab.indexes.iter().any(|i| *i == c.col) {
            Some("sec")
        } else {
            None
        }
    }
    fn kinds_tag(&self) -> String {
        if self.comma {
            format!("comma{}", self.trefs.len())
        } else {
            self.steps.iter().map(|s| kind_name(s.kind)).collect::<Vec<_>>().join(">")
        }
    }
    fn atom_tags(&self, spec: &Spec, a: &Atom, ctx: &str, new_t: Option<usize>, out: &mut BTreeSet<String>) {
        let side = |c: &CRef| -> &'static str {
            match new_t {
                Some(n) => {
                    if c.t == n {
                        "new"
                    } else {
                        "old"
                    }
                }
                None => {
                    if c.t == 0 {
                        "first"
                    } else if c.t + 1 == self.trefs.len() {
                        "last"
                    } else {
                        "mid"
                    }
                }
            }
        };
        match a {
            Atom::Equi(l, r, _) => {
                // the key type is only kept in the idx: tag (it matters for index lookups, not for hashing/comparing)
                out.insert(format!("{}:equi", ctx));
                // the planner looks for an index on the column of the table being joined
                let newc = match new_t {
                    Some(n) if l.t == n => l,
                    _ => r,
                };
                if let Some(i) = self.indexed(spec, newc) {
                    out.insert(format!("idx:{}({})", i, self.col_kind(spec, newc).tag()));
                }
            }
            Atom::Cmp2(..) => {
                out.insert(format!("{}:cond_both", ctx));
            }
            Atom::CmpLit(c, _, _) | Atom::IsNull(c, _) => {
                out.insert(format!("{}:cond_{}", ctx, side(c)));
            }
            Atom::Or(x, y) => {
                out.insert(format!("{}:or", ctx));
                self.atom_tags(spec, x, ctx, new_t, out);
                self.atom_tags(spec, y, ctx, new_t, out);
            }
        }
    }
    fn features(&self, spec: &Spec) -> BTreeSet<String> {
        let mut f = BTreeSet::new();
        if !self.comma {
            for (i, st) in self.steps.iter().enumerate() {
                for a in &st.on {
                    self.atom_tags(spec, a, "on", Some(i + 1), &mut f);
                }
            }
        }
        for a in &self.where_ {
            self.atom_tags(spec, a, "where", None, &mut f);
        }
        if !self.qualify {
            f.insert("unqualified".into());
        } else if self.trefs.iter().any(|t| t.alias.is_some()) {
            f.insert("alias".into());
        }
        if self.items.is_none() {
            f.insert("star".into());
        }
        let mut seen = BTreeSet::new();
        if self.trefs.iter().any(|t| !seen.insert(t.tab)) {
            f.insert("selfjoin".into());
        }
        // the same column name selected from two tables
        let names: Vec<String> = match &self.items {
            Some(cs) => cs.iter().map(|c| c.col.clone()).collect(),
            None => self.trefs.iter().flat_map(|t| spec.tabs[t.tab].cols.iter().map(|c| c.name.clone())).collect(),
        };
        let mut ns = BTreeSet::new();
        if names.iter().any(|n| !ns.insert(n.clone())) {
            f.insert("same_colname_twice".into());
        }
        f
    }
    /// remove table reference `t` together with everything that mentions it
    fn without_tref(&self, t: usize) -> Option<JQ> {
        if self.trefs.len() <= 2 {
            return None;
        }
        let mut q = self.clone();
        q.trefs.remove(t);
        if !q.comma {
            if t == 0 {
                q.steps.remove(0);
            } else {
                q.steps.remove(t - 1);
            }
            for st in q.steps.iter_mut() {
                st.on.retain(|a| !a.uses(t));
                for a in st.on.iter_mut() {
                    a.renumber(t);
                }
            }
            // a step whose ON list became empty has no condition left: that changes its meaning, refuse
            if q.steps.iter().any(|s| s.kind != JoinKind::Cross && s.on.is_empty()) {
                return None;
            }
            // every ON must still only mention tables joined so far
            for (i, st) in q.steps.iter().enumerate() {
                let mut r = vec![];
                for a in &st.on {
                    a.refs(&mut r);
                }
                if r.iter().any(|c| c.t > i + 1) {
                    return None;
                }
            }
        }
        q.where_.retain(|a| !a.uses(t));
        for a in q.where_.iter_mut() {
            a.renumber(t);
        }
        if let Some(items) = q.items.as_mut() {
            items.retain(|c| c.t != t);
            for c in items.iter_mut() {
                if c.t > t {
                    c.t -= 1;
                }
            }
            if items.is_empty() {
                return None;
            }
        }
        Some(q)
    }
    /// single-step simplifications, most aggressive first
    fn shrink_candidates(&self, spec: &Spec) -> Vec<JQ> {
        let mut out = vec![];
        for t in (0..self.trefs.len()).rev() {
            if let Some(q) = self.without_tref(t) {
                out.push(q);
            }
        }
        for i in 0..self.where_.len() {
            let mut q = self.clone();
            q.where_.remove(i);
            // a comma join without any condition is a cross product: still a valid (simpler) query
            out.push(q);
        }
        if !self.comma {
            for (si, st) in self.steps.iter().enumerate() {
                if st.on.len() > 1 {
                    for ai in 0..st.on.len() {
                        let mut q = self.clone();
                        q.steps[si].on.remove(ai);
                        out.push(q);
                    }
                }
                for (ai, a) in st.on.iter().enumerate() {
                    if let Atom::Or(x, y) = a {
                        for z in [x, y] {
                            let mut q = self.clone();
                            q.steps[si].on[ai] = (**z).clone();
                            out.push(q);
                        }
                    }
                }
                let simpler: &[JoinKind] = match st.kind {
                    JoinKind::Full => &[JoinKind::Inner, JoinKind::Left, JoinKind::Right],
                    JoinKind::Left | JoinKind::Right => &[JoinKind::Inner],
                    _ => &[],
                };
                for k in simpler {
                    let mut q = self.clone();
                    q.steps[si].kind = *k;
                    out.push(q);
                }
            }
        }
        for (ai, a) in self.where_.iter().enumerate() {
            if let Atom::Or(x, y) = a {
                for z in [x, y] {
                    let mut q = self.clone();
                    q.where_[ai] = (**z).clone();
                    out.push(q);
                }
            }
        }
        if !self.qualify {
            let mut q = self.clone();
            q.qualify = true;
            out.push(q);
        }
        if self.comma {
            // FROM a, b WHERE c  ==  a CROSS JOIN b WHERE c
            let mut q = self.clone();
            q.comma = false;
            q.steps = (1..self.trefs.len()).map(|_| JStep { kind: JoinKind::Cross, on: vec![] }).collect();
            out.push(q);
        } else {
            for (si, st) in self.steps.iter().enumerate() {
                if st.kind == JoinKind::Inner {
                    let mut q = self.clone();
                    q.steps[si] = JStep { kind: JoinKind::Cross, on: vec![] };
                    out.push(q);
                }
            }
        }
        match &self.items {
            None => {
                let mut q = self.clone();
                let mut items = vec![];
                for (t, r) in self.trefs.iter().enumerate() {
                    for c in &spec.tabs[r.tab].cols {
                        items.push(CRef { t, col: c.name.clone() });
                    }
                }
                // only when the explicit list is unambiguous
                if self.qualify {
                    q.items = Some(items);
                    out.push(q);
                }
            }
            Some(items) if items.len() > 1 => {
                for i in 0..items.len() {
                    let mut q = self.clone();
                    q.items.as_mut().unwrap().remove(i);
                    out.push(q);
                }
            }
            _ => {}
        }
        // drop aliases (not possible for self joins)
        let mut seen = BTreeSet::new();
        let selfjoin = self.trefs.iter().any(|t| !seen.insert(t.tab));
        if !selfjoin && self.qualify && self.trefs.iter().any(|t| t.alias.is_some()) {
            let mut q = self.clone();
            for t in q.trefs.iter_mut() {
                t.alias = None;
            }
            out.push(q);
        }
        out
    }
    /// strictly decreasing measure for the shrinker (so it terminates)
    fn rank(&self) -> usize {
        let atoms: usize = self.steps.iter().map(|s| s.on.len()).sum::<usize>() + self.where_.len();
        let ors: usize = {
            fn n(a: &Atom) -> usize {
                match a {
                    Atom::Or(x, y) => 1 + n(x) + n(y),
                    _ => 0,
                }
            }
            self.steps.iter().flat_map(|s| s.on.iter()).chain(self.where_.iter()).map(n).sum()
        };
        let kinds: usize = self
            .steps
            .iter()
            .map(|s| match s.kind {
                JoinKind::Cross => 0,
                JoinKind::Inner => 1,
                JoinKind::Left | JoinKind::Right => 2,
                JoinKind::Full => 3,
            })
            .sum();
        self.trefs.len() * 1000 + atoms * 40 + ors * 20 + kinds * 4 + self.items.as_ref().map(|i| i.len()).unwrap_or(30) * 2 + self.trefs.iter().filter(|t| t.alias.is_some()).count() + if self.qualify { 0 } else { 3 } + if self.comma { 2 } else { 0 }
    }
}

fn cols_of_class<'a>(spec: &'a Spec, q: &JQ, t: usize, class: &str) -> Vec<&'a Col> {
    spec.tabs[q.trefs[t].tab].cols.iter().filter(|c| c.kind.class() == class).collect()
}

fn gen_lit_atom(rng: &mut Rng, spec: &Spec, q: &JQ, t: usize) -> Atom {
    let tab = &spec.tabs[q.trefs[t].tab];
    let c = rng.pick(&tab.cols);
    let cr = CRef { t, col: c.name.clone() };
    if rng.chance(1, 4) {
        return Atom::IsNull(cr, rng.chance(1, 2));
    }
    match c.kind {
        CK::IntKey => Atom::CmpLit(cr, *rng.pick(&[BinOp::Eq, BinOp::Ne, BinOp::Lt, BinOp::Ge]), V::Int(rng.range(0, 3))),
        CK::Pk => Atom::CmpLit(cr, *rng.pick(&[BinOp::Le, BinOp::Gt, BinOp::Ne]), V::Int(rng.range(1, 6))),
        CK::Payload => {
            let base = c.name.as_bytes().last().map(|b| (*b - b'a') as i64 + 1).unwrap_or(1) * 100;
            Atom::CmpLit(cr, *rng.pick(&[BinOp::Lt, BinOp::Ge, BinOp::Ne, BinOp::Gt]), V::Int(base + rng.range(0, 8)))
        }
        CK::TextKey => Atom::CmpLit(cr, *rng.pick(&[BinOp::Eq, BinOp::Ne, BinOp::Lt, BinOp::Ge]), V::Text(rng.pick(TEXT_KEYS).to_string())),
        // literals against DATE/TIMESTAMP/BOOLEAN columns are other properties' business
        CK::Date | CK::Ts | CK::Bool => Atom::IsNull(cr, rng.chance(1, 2)),
    }
}

fn gen_equi(rng: &mut Rng, spec: &Spec, q: &JQ, new_t: usize, prefer_special: bool) -> Option<Atom> {
    let old_t = rng.usize(0, new_t - 1);
    let class = if prefer_special && spec.special.is_some() && rng.chance(4, 5) {
        spec.special.unwrap().class()
    } else {
        *rng.pick(&["int", "int", "int", "text", "text"])
    };
    let pick = |rng: &mut Rng, t: usize| -> Option<String> {
        let cs = cols_of_class(spec, q, t, class);
        if cs.is_empty() {
            return None;
        }
        if class == "int" {
            // mostly the key column, sometimes the primary key (FK -> PK join), rarely the payload
            let r = rng.below(10);
            let want = if r < 6 { CK::IntKey } else if r < 9 { CK::Pk } else { CK::Payload };
            if let Some(c) = cs.iter().find(|c| c.kind == want) {
                return Some(c.name.clone());
            }
            return cs.iter().find(|c| c.kind == CK::IntKey).map(|c| c.name.clone());
        }
        Some(rng.pick(&cs).name.clone())
    };
    let a = pick(rng, old_t)?;
    let b = pick(rng, new_t)?;
    Some(Atom::Equi(CRef { t: old_t, col: a }, CRef { t: new_t, col: b }, rng.chance(1, 3)))
}

fn gen_cmp2(rng: &mut Rng, spec: &Spec, q: &JQ, t1: usize, t2: usize) -> Option<Atom> {
    let a = cols_of_class(spec, q, t1, "int");
    let b = cols_of_class(spec, q, t2, "int");
    if a.is_empty() || b.is_empty() {
        return None;
    }
    // same kind on both sides keeps the comparison meaningful (key vs key, payload vs payload shifted)
    let ka: Vec<&&Col> = a.iter().filter(|c| c.kind == CK::IntKey).collect();
    let kb: Vec<&&Col> = b.iter().filter(|c| c.kind == CK::IntKey).collect();
    let op = *rng.pick(&[BinOp::Lt, BinOp::Le, BinOp::Gt, BinOp::Ne, BinOp::Ge]);
    Some(Atom::Cmp2(CRef { t: t1, col: ka[0].name.clone() }, op, CRef { t: t2, col: kb[0].name.clone() }))
}

fn gen_query(rng: &mut Rng, spec: &Spec) -> JQ {
    let ntabs = spec.tabs.len();
    let n = rng.usize(2, ntabs.min(4));
    let mut order: Vec<usize> = (0..ntabs).collect();
    rng.shuffle(&mut order);
    let mut trefs: Vec<TRef> = order[..n].iter().map(|t| TRef { tab: *t, alias: None }).collect();
    let selfjoin = rng.chance(1, 14);
    if selfjoin {
        let i = rng.usize(1, n - 1);
        trefs[i].tab = trefs[0].tab;
    }
    let alias_style = rng.below(10);
    for (i, t) in trefs.iter_mut().enumerate() {
        let a = match alias_style {
            0..=5 => true,
            6..=7 => false,
            _ => i % 2 == 0,
        };
        if a || selfjoin {
            t.alias = Some(format!("x{}", i));
        }
    }
    let unique_names = !spec.shared_id && !selfjoin;
    let qualify = !(unique_names && rng.chance(1, 10));
    let comma = rng.chance(1, 5);
    let mut q = JQ { trefs, comma, steps: vec![], where_: vec![], items: None, qualify };
    if comma {
        for t in 1..n {
            if rng.chance(17, 20) {
                if let Some(a) = gen_equi(rng, spec, &q, t, true) {
                    q.where_.push(a);
                }
            }
        }
    } else {
        for t in 1..n {
            let kind = *rng.pick(&[JoinKind::Inner, JoinKind::Inner, JoinKind::Inner, JoinKind::Left, JoinKind::Left, JoinKind::Left, JoinKind::Right, JoinKind::Right, JoinKind::Full, JoinKind::Full, JoinKind::Cross]);
            let mut on = vec![];
            if kind != JoinKind::Cross {
                let r = rng.below(100);
                let primary = if r < 80 {
                    gen_equi(rng, spec, &q, t, true)
                } else if r < 92 {
                    let o = rng.usize(0, t - 1);
                    gen_cmp2(rng, spec, &q, o, t)
                } else {
                    let x = gen_equi(rng, spec, &q, t, false);
                    let y = if rng.chance(1, 2) {
                        gen_equi(rng, spec, &q, t, false)
                    } else {
                        let o = rng.usize(0, t - 1);
                        gen_cmp2(rng, spec, &q, o, t)
                    };
                    match (x, y) {
                        (Some(x), Some(y)) => Some(Atom::Or(Box::new(x), Box::new(y))),
                        (x, _) => x,
                    }
                };
                on.push(primary.unwrap_or_else(|| Atom::Equi(CRef { t: 0, col: spec.tabs[q.trefs[0].tab].cols.iter().find(|c| c.kind == CK::IntKey).unwrap().name.clone() }, CRef { t, col: spec.tabs[q.trefs[t].tab].cols.iter().find(|c| c.kind == CK::IntKey).unwrap().name.clone() }, false)));
                let extra = match rng.below(20) {
                    0..=10 => 0,
                    11..=17 => 1,
                    _ => 2,
                };
                for _ in 0..extra {
                    let a = match rng.below(5) {
                        0 => {
                            let o = rng.usize(0, t - 1);
                            gen_cmp2(rng, spec, &q, o, t)
                        }
                        1 | 2 => Some(gen_lit_atom(rng, spec, &q, t)),
                        3 => {
                            let o = rng.usize(0, t - 1);
                            Some(gen_lit_atom(rng, spec, &q, o))
                        }
                        _ => gen_equi(rng, spec, &q, t, false),
                    };
                    if let Some(a) = a {
                        on.push(a);
                    }
                }
            }
            q.steps.push(JStep { kind, on });
        }
    }
    let nwhere = match rng.below(20) {
        0..=9 => 0,
        10..=16 => 1,
        _ => 2,
    };
    for _ in 0..nwhere {
        let t = rng.usize(0, n - 1);
        if rng.chance(1, 5) {
            let u = (t + 1 + rng.usize(0, n - 2)) % n;
            if let Some(a) = gen_cmp2(rng, spec, &q, t.min(u), t.max(u)) {
                q.where_.push(a);
                continue;
            }
        }
        let a = gen_lit_atom(rng, spec, &q, t);
        q.where_.push(a);
    }
    if !rng.chance(1, 25) {
        let mut items = vec![];
        for t in 0..n {
            let tab = &spec.tabs[q.trefs[t].tab];
            if rng.chance(4, 5) {
                items.push(CRef { t, col: tab.cols.iter().find(|c| c.kind == CK::Payload).unwrap().name.clone() });
            }
            let extra = rng.usize(0, 2);
            for _ in 0..extra {
                let c = rng.pick(&tab.cols);
                let cr = CRef { t, col: c.name.clone() };
                if !items.contains(&cr) {
                    items.push(cr);
                }
            }
        }
        if items.is_empty() {
            items.push(CRef { t: 0, col: spec.tabs[q.trefs[0].tab].cols[0].name.clone() });
        }
        if rng.chance(3, 10) {
            rng.shuffle(&mut items);
        }
        q.items = Some(items);
    }
    q
}

// ---------------------------------------------------------------------------------------------
// running on TurDB
// ---------------------------------------------------------------------------------------------

fn civil_from_days(z: i64) -> (i64, i64, i64) {
    let z = z + 719468;
    let era = if z >= 0 { z } else { z - 146096 } / 146097;
    let doe = z - era * 146097;
    let yoe = (doe - doe / 1460 + doe / 36524 - doe / 146096) / 365;
    let y = yoe + era * 400;
    let doy = doe - (365 * yoe + yoe / 4 - yoe / 100);
    let mp = (5 * doy + 2) / 153;
    let d = doy - (153 * mp + 2) / 5 + 1;
    let m = if mp < 10 { mp + 3 } else { mp - 9 };
    (if m <= 2 { y + 1 } else { y }, m, d)
}

/// DATE / TIMESTAMP come back as OwnedValue::Date(days) / Timestamp(micros): render them like the literals
fn norm_cell(v: &V) -> V {
    if let V::Other(s) = v {
        if let Some(n) = s.strip_prefix("Date(").and_then(|x| x.strip_suffix(')')).and_then(|x| x.parse::<i64>().ok()) {
            let (y, m, d) = civil_from_days(n);
            return V::Text(format!("{:04}-{:02}-{:02}", y, m, d));
        }
        if let Some(n) = s.strip_prefix("Timestamp(").and_then(|x| x.strip_suffix(')')).and_then(|x| x.parse::<i64>().ok()) {
            let secs = n.div_euclid(1_000_000);
            let (y, m, d) = civil_from_days(secs.div_euclid(86400));
            let r = secs.rem_euclid(86400);
            return V::Text(format!("{:04}-{:02}-{:02} {:02}:{:02}:{:02}", y, m, d, r / 3600, (r / 60) % 60, r % 60));
        }
    }
    v.clone()
}

fn norm_rows(rows: Vec<Row>) -> Vec<Row> {
    rows.into_iter().map(|r| r.iter().map(norm_cell).collect()).collect()
}

fn err_class(e: &str) -> String {
    e.split(|c: char| !c.is_ascii_alphabetic()).filter(|w| !w.is_empty()).take(6).collect::<Vec<_>>().join("_").to_lowercase()
}

fn build_db(scratch: &Scratch, spec: &Spec, tag: &str) -> Result<Db, String> {
    let mut db = Db::create(&scratch.dir(tag))?;
    // durability is irrelevant here and the default (FULL) makes every insert an fsync
    db.exec("PRAGMA synchronous = OFF").map_err(|e| format!("pragma synchronous: {}", e))?;
    for s in spec.setup_sql() {
        db.exec(&s).map_err(|e| format!("setup `{}`: {}", s, e))?;
    }
    Ok(db)
}

fn run_under(db: &mut Db, sql: &str, budget: usize) -> Result<Vec<Row>, String> {
    db.exec(&format!("PRAGMA join_memory_budget = {}", budget)).map_err(|e| format!("pragma: {}", e))?;
    db.query(sql).map(norm_rows)
}

/// outcome of one query that did not hold
#[derive(Clone, Debug)]
struct Fail {
    /// sub-assertion
    assertion: String,
    /// extra cause (error class / panic site)
    cause: String,
    detail: J,
    /// the rows TurDB returned (when it returned rows, identically under every budget)
    got: Option<Vec<Row>>,
}

fn bag_equal(a: &[Row], b: &[Row]) -> bool {
    bag_diff(a, b).is_none()
}

/// run under the given budgets and judge against the model rows
fn judge(db: &mut Db, sql: &str, want: &[Row], width: usize, budgets: &[usize]) -> Option<Fail> {
    let res: Vec<Result<Vec<Row>, String>> = budgets.iter().map(|b| run_under(db, sql, *b)).collect();
    // budget_invariant: same outcome class and same bag under every budget
    let class = |r: &Result<Vec<Row>, String>| -> String {
        match r {
            Ok(_) => "ok".into(),
            Err(e) if is_panic(e) => format!("panic/{}", panic_tag(e)),
            Err(e) => format!("error/{}", err_class(e)),
        }
    };
    let c0 = class(&res[0]);
    let mut invariant = res.iter().all(|r| class(r) == c0);
    if invariant {
        if let Ok(r0) = &res[0] {
            invariant = res.iter().all(|r| bag_equal(r.as_ref().unwrap(), r0));
        }
    }
    if !invariant {
        let per: Vec<J> = budgets
            .iter()
            .zip(res.iter())
            .map(|(b, r)| match r {
                Ok(rows) => json!({"budget": b, "rows": rows.len(), "equals_model": bag_equal(rows, want), "sample": rows_json(rows, 6)}),
                Err(e) => json!({"budget": b, "error": e}),
            })
            .collect();
        return Some(Fail { assertion: "budget_invariant".into(), cause: String::new(), detail: json!({"sql": sql, "per_budget": per}), got: None });
    }
    match &res[0] {
        Err(e) if is_panic(e) => Some(Fail { assertion: "no_panic".into(), cause: panic_tag(e), detail: json!({"sql": sql, "panic": e}), got: None }),
        Err(e) => Some(Fail { assertion: "no_error".into(), cause: err_class(e), detail: json!({"sql": sql, "error": e, "model_rows": want.len()}), got: None }),
        Ok(rows) => {
            if let Some(r) = rows.first() {
                if r.len() != width {
                    return Some(Fail { assertion: "width".into(), cause: String::new(), detail: json!({"sql": sql, "got_width": r.len(), "want_width": width, "got_rows": rows.len(), "want_rows": want.len()}), got: Some(rows.clone()) });
                }
            }
            bag_diff(rows, want).map(|d| Fail { assertion: "bag".into(), cause: String::new(), detail: json!({"sql": sql, "diff": d, "got": rows_json(rows, 10), "want": rows_json(want, 10)}), got: Some(rows.clone()) })
        }
    }
}

fn model_of(q: &JQ, spec: &Spec) -> Result<(Vec<Row>, usize), MErr> {
    let m = run_model(&q.to_query(spec), &spec.model_tables())?;
    Ok((m.rows, m.cols.len()))
}

/// does `q` on `db`/`spec` fail with the same sub-assertion (+cause)?
fn still_fails(db: &mut Db, q: &JQ, spec: &Spec, f0: &Fail, budgets: &[usize]) -> Option<Fail> {
    let (want, width) = model_of(q, spec).ok()?;
    let f = judge(db, &q.sql(spec), &want, width, budgets)?;
    if f.assertion == f0.assertion && f.cause == f0.cause {
        Some(f)
    } else {
        None
    }
}

fn plan_algos(plan: &str) -> Vec<&'static str> {
    let mut v = vec![];
    // "IndexNestedLoopJoin" contains "NestedLoopJoin": count it apart
    let inl = plan.matches("IndexNestedLoopJoin").count();
    let nl = plan.matches("NestedLoopJoin").count() - inl;
    for _ in 0..inl {
        v.push("IndexNestedLoopJoin");
    }
    for _ in 0..nl {
        v.push("NestedLoopJoin");
    }
    for a in ["GraceHashJoin", "StreamingHashJoin", "HashSemiJoin", "HashAntiJoin"] {
        for _ in 0..plan.matches(a).count() {
            v.push(a);
        }
    }
    v
}

/// table names in the order the plan scans them ("TableScan on <t>" / "on root.<t> using index")
fn plan_scan_order(plan: &str) -> Vec<String> {
    let mut v = vec![];
    for line in plan.lines() {
        let l = line.trim();
        if let Some(rest) = l.strip_prefix("-> TableScan on ") {
            v.push(rest.split_whitespace().next().unwrap_or("").to_string());
        } else if l.starts_with("-> IndexScan") || l.starts_with("-> SecondaryIndexScan") {
            if let Some(i) = l.find(" on ") {
                v.push(l[i + 4..].split_whitespace().next().unwrap_or("").trim_start_matches("root.").to_string());
            }
        }
    }
    v
}

// ---------------------------------------------------------------------------------------------
// emulations of defects established on the unchanged tree: each predicts the exact (wrong) output.
// A failing two-table query whose result equals the model under the smallest set of emulations is
// reported under the signature(s) of exactly those defects; anything else keeps a feature signature.
// ---------------------------------------------------------------------------------------------

#[derive(Clone, Copy, Debug, PartialEq, Eq, PartialOrd, Ord)]
enum Emu {
    /// three tables: the inner (first) join is a StreamingHashJoin / IndexNestedLoopJoin, which the hand-written
    /// join executor in database.rs does not know how to run as an input: the input is empty
    NestedStreamingOrIndexJoinYieldsNoRows,
    /// three tables: a nested NestedLoopJoin / GraceHashJoin input is computed by execute_nested_join_recursive /
    /// execute_hash_join_recursive, which ignore the join type (always inner; Grace: equality keys only)
    NestedJoinRunsAsInner,
    /// three tables: filters pushed below the top join onto the nested join (or its scans) are skipped
    NestedJoinInputFiltersIgnored,
    /// join_reordering.rs rebuilds the join tree and keeps only conditions whose qualified column
    /// references touch both sides: every ON conjunct is lost when an input is a pushed-down Filter, and
    /// one-sided / IS NULL / unqualified conjuncts are lost always
    ReorderDropsConditions,
    /// predicate_pushdown.rs picks the side from binary-operator column references only: an IS [NOT] NULL
    /// conjunct on the other table travels with the predicate and is evaluated without its column
    PushdownMisroutesIsNull,
    /// a join input planned as IndexScan / SecondaryIndexScan (WHERE indexed_col <op> literal) is materialised as a full
    /// table scan by the hand-written join executor: the index condition is lost (variant: only that condition)
    IndexScanJoinInputLosesKeyPredicate,
    /// same, variant: every pushed-down conjunct on that table is lost with it
    IndexScanJoinInputLosesAllPredicates,
    /// hash join paths (GraceHashJoin / StreamingHashJoin plans) take only the equality keys of ON
    HashJoinIgnoresNonKeyOn,
    /// index nested loop join: lookup key for DATE / BOOLEAN / TIMESTAMP never matches the stored index key
    InljSpecialKeyNeverMatches,
    /// index nested loop join executes RIGHT as INNER
    InljRightAsInner,
    /// index nested loop join never applies the WHERE filter (above it or pushed into the outer scan)
    InljIgnoresWhere,
    /// outer joins: WHERE is evaluated while matching and never on the NULL-padded rows (acts like part of ON)
    OuterJoinWhereActsAsOn,
    /// RIGHT/FULL: the rows of unmatched right-side rows take their output columns by bare column name, first hit
    /// wins: a right-side column whose name also exists on the left side comes out NULL
    UnmatchedRightRowsResolveColumnsByBareName,
    /// three tables, RIGHT/FULL on top of a nested join that produced no rows: the width of the left side is taken
    /// from its first row (0 when empty), so the unmatched right rows are read at the wrong column offsets
    RightJoinOverEmptyNestedInputMisalignsColumns,
}

impl Emu {
    fn name(&self) -> &'static str {
        match self {
            Emu::NestedStreamingOrIndexJoinYieldsNoRows => "nested_streaming_hash_or_index_join_input_yields_no_rows",
            Emu::NestedJoinRunsAsInner => "nested_join_input_runs_as_inner_join",
            Emu::NestedJoinInputFiltersIgnored => "nested_join_input_filters_ignored",
            Emu::ReorderDropsConditions => "join_reordering_drops_join_conditions",
            Emu::PushdownMisroutesIsNull => "predicate_pushdown_misroutes_is_null_conjunct",
            Emu::IndexScanJoinInputLosesKeyPredicate | Emu::IndexScanJoinInputLosesAllPredicates => "index_scan_join_input_loses_its_predicate",
            Emu::HashJoinIgnoresNonKeyOn => "hash_join_ignores_non_key_on_conjuncts",
            Emu::InljSpecialKeyNeverMatches => "index_nested_loop_join_date_bool_timestamp_key_never_matches",
            Emu::InljRightAsInner => "index_nested_loop_join_runs_right_join_as_inner",
            Emu::InljIgnoresWhere => "index_nested_loop_join_ignores_where",
            Emu::OuterJoinWhereActsAsOn => "outer_join_where_not_applied_to_null_padded_rows",
            Emu::UnmatchedRightRowsResolveColumnsByBareName => "unmatched_right_rows_resolve_columns_by_bare_name",
            Emu::RightJoinOverEmptyNestedInputMisalignsColumns => "right_join_over_empty_nested_input_misaligns_columns",
        }
    }
    /// application order
    const ALL: [Emu; 14] = [
        Emu::NestedStreamingOrIndexJoinYieldsNoRows,
        Emu::NestedJoinRunsAsInner,
        Emu::NestedJoinInputFiltersIgnored,
        Emu::ReorderDropsConditions,
        Emu::PushdownMisroutesIsNull,
        Emu::IndexScanJoinInputLosesKeyPredicate,
        Emu::IndexScanJoinInputLosesAllPredicates,
        Emu::HashJoinIgnoresNonKeyOn,
        Emu::InljSpecialKeyNeverMatches,
        Emu::InljRightAsInner,
        Emu::InljIgnoresWhere,
        Emu::OuterJoinWhereActsAsOn,
        Emu::UnmatchedRightRowsResolveColumnsByBareName,
        Emu::RightJoinOverEmptyNestedInputMisalignsColumns,
    ];
}

fn atom_trefs(a: &Atom) -> BTreeSet<usize> {
    let mut r = vec![];
    a.refs(&mut r);
    r.iter().map(|c| c.t).collect()
}

/// table references that the optimizer's `collect_expr_tables` sees in this atom (IS NULL contributes none)
fn binop_trefs(a: &Atom, out: &mut BTreeSet<usize>) {
    match a {
        Atom::IsNull(..) => {}
        Atom::Or(x, y) => {
            binop_trefs(x, out);
            binop_trefs(y, out);
        }
        other => out.extend(atom_trefs(other)),
    }
}

/// join operators of the plan in pre-order (top join first)
fn plan_join_ops(plan: &str) -> Vec<&'static str> {
    let mut v = vec![];
    for line in plan.lines() {
        let l = line.trim();
        for (pat, name) in [("-> IndexNestedLoopJoin", "IndexNestedLoopJoin"), ("-> NestedLoopJoin", "NestedLoopJoin"), ("-> GraceHashJoin", "GraceHashJoin"), ("-> StreamingHashJoin", "StreamingHashJoin")] {
            if l.starts_with(pat) {
                v.push(name);
                break;
            }
        }
    }
    v
}

/// tables the plan reads through "IndexScan on <t>" / "SecondaryIndexScan on <t>" as a join input
fn plan_index_scanned_tables(plan: &str) -> BTreeSet<String> {
    let mut v = BTreeSet::new();
    for line in plan.lines() {
        let l = line.trim();
        if l.starts_with("-> IndexScan on ") || l.starts_with("-> SecondaryIndexScan on ") {
            if let Some(i) = l.find(" on ") {
                v.insert(l[i + 4..].split_whitespace().next().unwrap_or("").trim_start_matches("root.").to_string());
            }
        }
    }
    v
}

fn never_true(q: &JQ, spec: &Spec, t: usize) -> Atom {
    // payload values are >= 100 and never NULL
    let pc = spec.tabs[q.trefs[t].tab].cols.iter().find(|c| c.kind == CK::Payload).unwrap().name.clone();
    Atom::CmpLit(CRef { t, col: pc }, BinOp::Lt, V::Int(-1))
}

/// WHERE atoms that predicate pushdown sees (equalities of a comma/cross join were extracted into the join before)
fn pushdown_where<'a>(q: &'a JQ) -> Vec<&'a Atom> {
    let extracted = q.comma || q.steps.iter().all(|s| s.kind == JoinKind::Cross);
    q.where_.iter().filter(|a| !(extracted && matches!(a, Atom::Equi(..)))).collect()
}

/// which emulations can apply to this query given the observed plan (two tables, or three in a JOIN chain)
fn applicable_emus(q: &JQ, spec: &Spec, plan: &str) -> Vec<Emu> {
    let ops = plan_join_ops(plan);
    let n = q.trefs.len();
    let mut v = vec![];
    if n == 3 && !q.comma && ops.len() == 2 {
        let (top_op, child_op) = (ops[0], ops[1]);
        let top = &q.steps[1];
        if matches!(child_op, "StreamingHashJoin" | "IndexNestedLoopJoin") {
            v.push(Emu::NestedStreamingOrIndexJoinYieldsNoRows);
        } else {
            v.push(Emu::NestedJoinRunsAsInner);
        }
        let mut bt = BTreeSet::new();
        for a in q.where_.iter() {
            binop_trefs(a, &mut bt);
        }
        // join reordering (inner/cross chains only) may move any filtered table into the nested join
        let reorderable = q.steps.iter().all(|s| matches!(s.kind, JoinKind::Inner | JoinKind::Cross));
        if !bt.is_empty() && (!bt.contains(&2) || (reorderable && bt.len() == 1)) {
            v.push(Emu::NestedJoinInputFiltersIgnored);
        }
        if matches!(top_op, "GraceHashJoin" | "StreamingHashJoin") && top.on.iter().any(|a| matches!(a, Atom::Equi(..))) && top.on.iter().any(|a| !matches!(a, Atom::Equi(..))) {
            v.push(Emu::HashJoinIgnoresNonKeyOn);
        }
        if matches!(top.kind, JoinKind::Left | JoinKind::Right | JoinKind::Full) && !q.where_.is_empty() && top_op != "IndexNestedLoopJoin" {
            v.push(Emu::OuterJoinWhereActsAsOn);
        }
        if matches!(top.kind, JoinKind::Right | JoinKind::Full) && top_op != "IndexNestedLoopJoin" && q.items.is_some() {
            v.push(Emu::RightJoinOverEmptyNestedInputMisalignsColumns);
        }
        return v;
    }
    if n != 2 || ops.len() != 1 {
        return v;
    }
    let kind = if q.comma { JoinKind::Cross } else { q.steps[0].kind };
    let inlj = ops[0] == "IndexNestedLoopJoin";
    let hash = matches!(ops[0], "GraceHashJoin" | "StreamingHashJoin");
    let has_cond = q.steps.iter().any(|s| !s.on.is_empty()) || q.where_.iter().any(|a| matches!(a, Atom::Equi(..)));
    if matches!(kind, JoinKind::Inner | JoinKind::Cross) && plan.contains("NestedLoopJoin (Cross)") && has_cond {
        v.push(Emu::ReorderDropsConditions);
    }
    {
        let w = pushdown_where(q);
        let mut bt = BTreeSet::new();
        for a in &w {
            binop_trefs(a, &mut bt);
        }
        if bt.len() == 1 && !inlj {
            let t = *bt.iter().next().unwrap();
            if w.iter().any(|a| matches!(a, Atom::IsNull(c, _) if c.t != t)) {
                v.push(Emu::PushdownMisroutesIsNull);
            }
        }
    }
    if !plan_index_scanned_tables(plan).is_empty() && q.where_.iter().any(|a| matches!(a, Atom::CmpLit(..))) {
        v.push(Emu::IndexScanJoinInputLosesKeyPredicate);
        v.push(Emu::IndexScanJoinInputLosesAllPredicates);
    }
    if hash && !q.comma && q.steps[0].on.iter().any(|a| matches!(a, Atom::Equi(..))) && q.steps[0].on.iter().any(|a| !matches!(a, Atom::Equi(..))) {
        v.push(Emu::HashJoinIgnoresNonKeyOn);
    }
    if inlj {
        let special_equi = q.steps.iter().flat_map(|s| s.on.iter()).chain(q.where_.iter()).any(|a| matches!(a, Atom::Equi(l, _, _) if matches!(q.col_kind(spec, l), CK::Date | CK::Bool | CK::Ts)));
        if special_equi {
            v.push(Emu::InljSpecialKeyNeverMatches);
        }
        if kind == JoinKind::Right {
            v.push(Emu::InljRightAsInner);
        }
        if q.where_.iter().any(|a| !matches!(a, Atom::Equi(..))) {
            v.push(Emu::InljIgnoresWhere);
        }
    }
    if matches!(kind, JoinKind::Left | JoinKind::Right | JoinKind::Full) && !q.where_.is_empty() && !inlj {
        v.push(Emu::OuterJoinWhereActsAsOn);
    }
    if matches!(kind, JoinKind::Right | JoinKind::Full) && !inlj {
        if let Some(items) = &q.items {
            let left_cols: BTreeSet<&str> = spec.tabs[q.trefs[0].tab].cols.iter().map(|c| c.name.as_str()).collect();
            if items.iter().any(|c| c.t == 1 && left_cols.contains(c.col.as_str())) {
                v.push(Emu::UnmatchedRightRowsResolveColumnsByBareName);
            }
        }
    }
    v
}

/// the query the defective engine effectively evaluates (row-level patches are applied by `emulated_rows`)
fn emulate(q: &JQ, spec: &Spec, set: &[Emu], plan: &str) -> JQ {
    let mut e = q.clone();
    let top = e.steps.len().saturating_sub(1);
    for emu in Emu::ALL.iter().filter(|x| set.contains(x)) {
        match emu {
            Emu::NestedStreamingOrIndexJoinYieldsNoRows => {
                let never = never_true(&e, spec, 1);
                e.steps[0] = JStep { kind: JoinKind::Inner, on: vec![never] };
            }
            Emu::NestedJoinRunsAsInner => {
                if e.steps[0].kind != JoinKind::Cross {
                    e.steps[0].kind = JoinKind::Inner;
                }
            }
            Emu::NestedJoinInputFiltersIgnored => {
                e.where_.clear();
            }
            Emu::ReorderDropsConditions => {
                if e.comma {
                    e.where_.retain(|a| !matches!(a, Atom::Equi(..)));
                } else {
                    let was_cross = e.steps[0].kind == JoinKind::Cross;
                    e.steps[0] = JStep { kind: JoinKind::Cross, on: vec![] };
                    if was_cross {
                        // equalities in WHERE had been extracted into the join condition, which is then lost
                        e.where_.retain(|a| !matches!(a, Atom::Equi(..)));
                    }
                }
            }
            Emu::PushdownMisroutesIsNull => {
                let mut bt = BTreeSet::new();
                for a in pushdown_where(&e) {
                    binop_trefs(a, &mut bt);
                }
                if bt.len() == 1 {
                    let t = *bt.iter().next().unwrap();
                    let mut out = vec![];
                    for a in e.where_.clone() {
                        match &a {
                            // evaluated on the pushed side: a same-named column there is taken instead; without one,
                            // IS NULL holds and IS NOT NULL does not
                            Atom::IsNull(c, neg) if c.t != t && spec.tabs[e.trefs[t].tab].col(&c.col).is_some() => out.push(Atom::IsNull(CRef { t, col: c.col.clone() }, *neg)),
                            Atom::IsNull(c, false) if c.t != t => {}
                            Atom::IsNull(c, true) if c.t != t => out.push(never_true(&e, spec, c.t)),
                            _ => out.push(a),
                        }
                    }
                    e.where_ = out;
                }
            }
            Emu::IndexScanJoinInputLosesKeyPredicate | Emu::IndexScanJoinInputLosesAllPredicates => {
                let scanned = plan_index_scanned_tables(plan);
                let all = *emu == Emu::IndexScanJoinInputLosesAllPredicates;
                // table references whose table is index-scanned and that carry a literal comparison on an indexed column
                let hit: BTreeSet<usize> = e
                    .where_
                    .iter()
                    .filter_map(|a| match a {
                        Atom::CmpLit(c, _, _) if scanned.contains(&spec.tabs[e.trefs[c.t].tab].name) && e.indexed(spec, c).is_some() => Some(c.t),
                        _ => None,
                    })
                    .collect();
                let ee = e.clone();
                e.where_.retain(|a| match a {
                    Atom::CmpLit(c, _, _) if hit.contains(&c.t) && ee.indexed(spec, c).is_some() => false,
                    other => !(all && atom_trefs(other).iter().all(|t| hit.contains(t))),
                });
            }
            Emu::HashJoinIgnoresNonKeyOn => {
                if !e.comma && e.steps[top].on.iter().any(|a| matches!(a, Atom::Equi(..))) {
                    e.steps[top].on.retain(|a| matches!(a, Atom::Equi(..)));
                }
            }
            Emu::InljSpecialKeyNeverMatches => {
                let never = never_true(&e, spec, 1);
                if e.comma || e.steps[0].kind == JoinKind::Cross {
                    e.where_.push(never);
                } else {
                    e.steps[0].on.push(never);
                }
            }
            Emu::InljRightAsInner => {
                if !e.comma && e.steps[0].kind == JoinKind::Right {
                    e.steps[0].kind = JoinKind::Inner;
                }
            }
            Emu::InljIgnoresWhere => {
                e.where_.retain(|a| matches!(a, Atom::Equi(..)));
            }
            Emu::OuterJoinWhereActsAsOn => {
                if !e.comma && e.steps[top].kind != JoinKind::Cross {
                    let w = std::mem::take(&mut e.where_);
                    e.steps[top].on.extend(w);
                }
            }
            Emu::UnmatchedRightRowsResolveColumnsByBareName | Emu::RightJoinOverEmptyNestedInputMisalignsColumns => {}
        }
    }
    e
}

/// rows the defective engine is predicted to return
fn emulated_rows(q: &JQ, spec: &Spec, set: &[Emu], plan: &str) -> Option<Vec<Row>> {
    let e = emulate(q, spec, set, plan);
    if set.contains(&Emu::RightJoinOverEmptyNestedInputMisalignsColumns) {
        if e.trefs.len() != 3 || e.comma {
            return None;
        }
        // the nested input as the engine computes it (no filters) must be empty for the defect to show
        let prefix = JQ { trefs: e.trefs[..2].to_vec(), comma: false, steps: e.steps[..1].to_vec(), where_: vec![], items: Some(vec![CRef { t: 0, col: spec.tabs[e.trefs[0].tab].cols[0].name.clone() }]), qualify: true };
        if !model_of(&prefix, spec).ok()?.0.is_empty() {
            return None;
        }
        let ops = plan_join_ops(plan);
        let child_has_map = matches!(ops.get(1).copied(), Some("NestedLoopJoin") | Some("GraceHashJoin"));
        // column lookup by bare name, first hit: nested left layout (if any), then the right table at offset 0
        let mut layout: Vec<(String, usize)> = vec![];
        if child_has_map {
            let mut off = 0;
            for t in 0..2 {
                for (i, c) in spec.tabs[e.trefs[t].tab].cols.iter().enumerate() {
                    layout.push((c.name.clone(), off + i));
                }
                off += spec.tabs[e.trefs[t].tab].cols.len();
            }
        }
        for (i, c) in spec.tabs[e.trefs[2].tab].cols.iter().enumerate() {
            layout.push((c.name.clone(), i));
        }
        let items = e.items.clone()?;
        let rows = spec.tabs[e.trefs[2].tab]
            .rows
            .iter()
            .map(|r| items.iter().map(|it| r.get(layout.iter().find(|(n, _)| *n == it.col).map(|x| x.1).unwrap_or(0)).cloned().unwrap_or(V::Null)).collect::<Row>())
            .collect();
        return Some(rows);
    }
    if !set.contains(&Emu::UnmatchedRightRowsResolveColumnsByBareName) {
        return model_of(&e, spec).ok().map(|x| x.0);
    }
    // mark NULL-padded (unmatched right) rows with a never-NULL left column, patch them, drop the marker
    let items = e.items.clone()?;
    let mut e2 = e.clone();
    e2.qualify = true;
    let pc = spec.tabs[e.trefs[0].tab].cols.iter().find(|c| c.kind == CK::Payload)?.name.clone();
    e2.items.as_mut()?.push(CRef { t: 0, col: pc });
    let (rows, _) = model_of(&e2, spec).ok()?;
    let left_cols: BTreeSet<&str> = spec.tabs[e.trefs[0].tab].cols.iter().map(|c| c.name.as_str()).collect();
    Some(
        rows.into_iter()
            .map(|mut r| {
                let marker = r.pop().unwrap();
                if marker.is_null() {
                    for (i, it) in items.iter().enumerate() {
                        if it.t == 1 && left_cols.contains(it.col.as_str()) {
                            r[i] = V::Null;
                        }
                    }
                }
                r
            })
            .collect(),
    )
}

/// smallest set of applicable emulations under which the model reproduces `got` exactly
fn explain(q: &JQ, spec: &Spec, plan: &str, got: &[Row]) -> Option<Vec<Emu>> {
    let app = applicable_emus(q, spec, plan);
    if app.is_empty() {
        return None;
    }
    let n = app.len();
    let mut subsets: Vec<Vec<Emu>> = vec![];
    for mask in 1u32..(1 << n) {
        subsets.push((0..n).filter(|i| mask & (1 << i) != 0).map(|i| app[i]).collect());
    }
    subsets.sort_by_key(|s| (s.len(), s.clone()));
    for s in subsets {
        if s.len() > 3 {
            break;
        }
        if let Some(rows) = emulated_rows(q, spec, &s, plan) {
            if bag_equal(&rows, got) {
                return Some(s);
            }
        }
    }
    None
}

fn columns_referenced(q: &JQ) -> Vec<CRef> {
    let mut r = vec![];
    for st in &q.steps {
        for a in &st.on {
            a.refs(&mut r);
        }
    }
    for a in &q.where_ {
        a.refs(&mut r);
    }
    r
}

/// rows of each table restricted by `keep(tab index, row)`
fn filter_rows(spec: &Spec, keep: &mut dyn FnMut(usize, &Tab, &Row) -> bool) -> Spec {
    let mut s = spec.clone();
    for (ti, t) in s.tabs.iter_mut().enumerate() {
        let tt = spec.tabs[ti].clone();
        t.rows.retain(|r| keep(ti, &tt, r));
    }
    s
}

/// what one worker reports for one database (merged into the Ctx by the main thread, in database order)
#[derive(Default)]
struct Report {
    evals: u64,
    counters: Vec<(String, u64)>,
    nontrivial: Vec<u64>,
    samples: Vec<J>,
    /// (assertion, signature, detail)
    violations: Vec<(String, String, J)>,
    by_algo: Vec<(String, bool)>,
    by_kind: Vec<(String, bool)>,
    features: Vec<String>,
}

impl Report {
    fn count(&mut self, k: &str, n: u64) {
        self.counters.push((k.to_string(), n));
    }
}

/// structural shrink on the same database: greedy over `shrink_candidates` while the same sub-assertion fails
fn shrink_query(db: &mut Db, spec: &Spec, q: &JQ, f0: &Fail, budgets: &[usize], mut left: usize, keep: &mut dyn FnMut(&mut Db, &JQ, &Fail) -> bool) -> (JQ, Fail) {
    let mut cur = q.clone();
    let mut cur_f = f0.clone();
    'outer: loop {
        for cand in cur.shrink_candidates(spec) {
            if left == 0 {
                break 'outer;
            }
            if cand.rank() >= cur.rank() {
                continue;
            }
            left -= 1;
            if let Some(f) = still_fails(db, &cand, spec, f0, budgets) {
                if keep(db, &cand, &f) {
                    cur = cand;
                    cur_f = f;
                    continue 'outer;
                }
            }
        }
        break;
    }
    (cur, cur_f)
}

fn used_setup(spec: &Spec, q: &JQ) -> Vec<String> {
    let used: BTreeSet<usize> = q.trefs.iter().map(|t| t.tab).collect();
    spec.tabs.iter().enumerate().filter(|(i, _)| used.contains(i)).flat_map(|(_, t)| t.setup_sql()).collect()
}

struct Worker<'s> {
    scratch: &'s Scratch,
    id: usize,
    /// signatures for which some worker has already produced a minimised witness
    seen_sigs: &'s std::sync::Mutex<BTreeSet<String>>,
    fresh_dbs: u64,
    start: std::time::Instant,
    /// after this many seconds only bounded classification work is done (no row minimisation)
    soft_deadline_s: f64,
}

impl<'s> Worker<'s> {
    fn fresh(&mut self, spec: &Spec, tag: &str) -> Result<Db, String> {
        self.fresh_dbs += 1;
        build_db(self.scratch, spec, &format!("w{}-{}", self.id, tag))
    }

    /// SELECT * over a join returns rows without columns (right cardinality): reported under its own signature
    fn star_defect(&mut self, rep: &mut Report, db: &mut Db, spec: &Spec, q: &JQ, f: &Fail, budgets: &[usize]) -> bool {
        if q.items.is_some() || f.assertion != "width" {
            return false;
        }
        let (got, want) = match (&f.got, model_of(q, spec)) {
            (Some(g), Ok((w, _))) => (g, w),
            _ => return false,
        };
        if got.len() != want.len() || !got.iter().all(|r| r.is_empty()) {
            return false;
        }
        let sig = "C17/sql/width/defect:select_star_over_join_returns_zero_columns".to_string();
        let first = self.seen_sigs.lock().unwrap().insert(sig.clone());
        let mut detail = json!({"sql": q.sql(spec), "fail": f.detail});
        if first {
            let (small, sf) = shrink_query(db, spec, q, f, budgets, 60, &mut |_d, c, cf| c.items.is_none() && cf.got.as_ref().map(|g| g.iter().all(|r| r.is_empty())).unwrap_or(false));
            detail = json!({"sql": q.sql(spec), "fail": f.detail, "minimal_sql": small.sql(spec), "minimal_setup": used_setup(spec, &small), "minimal_fail": sf.detail});
        }
        rep.count("sql_failures_explained_by_emulation", 1);
        rep.violations.push(("width".into(), sig, detail));
        true
    }

    /// star defect or exact emulation on (q, spec) as they stand; true if reported
    fn reclassify(&mut self, rep: &mut Report, db: &mut Db, spec: &Spec, q: &JQ, f: &Fail, budgets: &[usize]) -> bool {
        if self.star_defect(rep, db, spec, q, f, budgets) {
            return true;
        }
        if f.assertion != "bag" {
            return false;
        }
        if let (Some(got), Some(plan)) = (&f.got, db.explain(&q.sql(spec))) {
            if let Some(set) = explain(q, spec, &plan, got) {
                self.report_explained(rep, db, spec, q, &plan, f, &set, budgets);
                return true;
            }
        }
        false
    }

    fn handle_failure(&mut self, rep: &mut Report, db: &mut Db, spec: &Spec, q: &JQ, plan: Option<&str>, f0: Fail) {
        let shrink_budgets: Vec<usize> = if f0.assertion == "budget_invariant" { BUDGETS.to_vec() } else { vec![BUDGETS[0]] };
        // (1) SELECT * over a join: zero-width rows of the right cardinality
        if self.star_defect(rep, db, spec, q, &f0, &shrink_budgets) {
            return;
        }
        // (2) exact emulations on the query as generated
        if let (Some(plan), Some(got)) = (plan, &f0.got) {
            if f0.assertion == "bag" {
                if let Some(set) = explain(q, spec, plan, got) {
                    self.report_explained(rep, db, spec, q, plan, &f0, &set, &shrink_budgets);
                    return;
                }
            }
        }
        // (3) structural shrink, then emulations on the minimal query
        let (cur, mut cur_f) = shrink_query(db, spec, q, &f0, &shrink_budgets, 160, &mut |_, _, _| true);
        if self.star_defect(rep, db, spec, &cur, &cur_f, &shrink_budgets) {
            return;
        }
        let cur_plan = db.explain(&cur.sql(spec));
        if let (Some(p), Some(got)) = (&cur_plan, &cur_f.got) {
            if cur_f.assertion == "bag" {
                if let Some(set) = explain(&cur, spec, p, got) {
                    self.report_explained(rep, db, spec, &cur, p, &cur_f, &set, &shrink_budgets);
                    return;
                }
            }
        }
        // (4) unexplained: feature signature of the minimal query, with targeted data reductions on fresh databases
        let mut cur_spec = spec.clone();
        let mut facts: Vec<&'static str> = vec![];
        let used_tabs: BTreeSet<usize> = cur.trefs.iter().map(|t| t.tab).collect();
        let refs = columns_referenced(&cur);
        let ref_cols: Vec<(usize, usize)> = refs.iter().filter_map(|c| cur_spec.tabs[cur.trefs[c.t].tab].col(&c.col).map(|(i, _)| (cur.trefs[c.t].tab, i))).collect();
        // 4a. secondary indexes
        if cur_spec.tabs.iter().enumerate().any(|(i, t)| used_tabs.contains(&i) && !t.indexes.is_empty()) {
            let mut cand = cur_spec.clone();
            for t in cand.tabs.iter_mut() {
                t.indexes.clear();
            }
            if let Some(f) = self.fresh(&cand, "red").ok().and_then(|mut d| still_fails(&mut d, &cur, &cand, &f0, &shrink_budgets)) {
                cur_spec = cand;
                cur_f = f;
            }
        }
        // 4b. NULLs in referenced columns
        if ref_cols.iter().any(|(t, c)| cur_spec.tabs[*t].rows.iter().any(|r| r[*c].is_null())) {
            let cand = filter_rows(&cur_spec, &mut |ti, _t, r| !ref_cols.iter().any(|(t, c)| *t == ti && r[*c].is_null()));
            match self.fresh(&cand, "red").ok().and_then(|mut d| still_fails(&mut d, &cur, &cand, &f0, &shrink_budgets)) {
                Some(f) => {
                    cur_spec = cand;
                    cur_f = f;
                }
                None => facts.push("null_keys"),
            }
        }
        // 4c. duplicate values in referenced columns (keep the first row of every distinct referenced tuple)
        {
            let mut seen: BTreeSet<(usize, String)> = BTreeSet::new();
            let mut any_dup = false;
            let cand = filter_rows(&cur_spec, &mut |ti, _t, r| {
                let cols: Vec<usize> = ref_cols.iter().filter(|(t, _)| *t == ti).map(|(_, c)| *c).collect();
                if cols.is_empty() {
                    return true;
                }
                let key: Row = cols.iter().map(|c| r[*c].clone()).collect();
                if key.iter().any(|v| v.is_null()) {
                    return true;
                }
                let fresh = seen.insert((ti, row_key(&key, false)));
                if !fresh {
                    any_dup = true;
                }
                fresh
            });
            if any_dup {
                match self.fresh(&cand, "red").ok().and_then(|mut d| still_fails(&mut d, &cur, &cand, &f0, &shrink_budgets)) {
                    Some(f) => {
                        cur_spec = cand;
                        cur_f = f;
                    }
                    None => facts.push("dup_keys"),
                }
            }
        }
        let mut feats = cur.features(&cur_spec);
        if cur_spec.tabs.iter().all(|t| t.indexes.is_empty()) {
            feats.retain(|f| !f.starts_with("idx:sec"));
        }
        // the reduced data may leave a single established defect: classify again
        if let Ok(mut d) = self.fresh(&cur_spec, "plan") {
            if self.reclassify(rep, &mut d, &cur_spec, &cur, &cur_f, &shrink_budgets) {
                return;
            }
        }
        let plan2 = self.fresh(&cur_spec, "plan").ok().and_then(|mut d| d.explain(&cur.sql(&cur_spec)));
        let algos: BTreeSet<&str> = plan2.as_deref().map(plan_algos).unwrap_or_default().into_iter().collect();
        let plan_tag = if algos.is_empty() { "?".to_string() } else { algos.into_iter().collect::<Vec<_>>().join("+") };
        let cause = if cur_f.cause.is_empty() { String::new() } else { format!("{}/", cur_f.cause) };
        let arity = if cur.trefs.len() == 2 { "two_way" } else { "multiway" };
        let mut sig = format!("C17/sql/{}/unexplained/{}{}/{}/{}/plan={}", f0.assertion, cause, arity, cur.kinds_tag(), feats.into_iter().collect::<Vec<_>>().join("+"), plan_tag);
        for f in &facts {
            sig.push('/');
            sig.push_str(f);
        }
        let first = self.seen_sigs.lock().unwrap().insert(sig.clone());
        // for the first witness of a signature: delete rows (halves, then single rows; fresh database each)
        if first && self.start.elapsed().as_secs_f64() < self.soft_deadline_s {
            let mut budget = 16usize;
            let mut progress = true;
            while progress && budget > 0 {
                progress = false;
                for ti in used_tabs.iter().copied().collect::<Vec<_>>() {
                    // halves
                    loop {
                        let n = cur_spec.tabs[ti].rows.len();
                        if n < 4 || budget == 0 {
                            break;
                        }
                        let mut adopted = false;
                        for half in 0..2 {
                            let mut cand = cur_spec.clone();
                            if half == 0 {
                                cand.tabs[ti].rows.truncate(n / 2);
                            } else {
                                cand.tabs[ti].rows.drain(..n / 2);
                            }
                            budget = budget.saturating_sub(1);
                            if let Some(f) = self.fresh(&cand, "red").ok().and_then(|mut d| still_fails(&mut d, &cur, &cand, &f0, &shrink_budgets)) {
                                cur_spec = cand;
                                cur_f = f;
                                adopted = true;
                                progress = true;
                                break;
                            }
                        }
                        if !adopted {
                            break;
                        }
                    }
                    let mut ri = 0;
                    while ri < cur_spec.tabs[ti].rows.len() && budget > 0 && cur_spec.tabs[ti].rows.len() <= 6 {
                        let mut cand = cur_spec.clone();
                        cand.tabs[ti].rows.remove(ri);
                        budget -= 1;
                        match self.fresh(&cand, "red").ok().and_then(|mut d| still_fails(&mut d, &cur, &cand, &f0, &shrink_budgets)) {
                            Some(f) => {
                                cur_spec = cand;
                                cur_f = f;
                                progress = true;
                            }
                            None => ri += 1,
                        }
                    }
                }
            }
        }
        if first {
            if let Ok(mut d) = self.fresh(&cur_spec, "plan") {
                if self.reclassify(rep, &mut d, &cur_spec, &cur, &cur_f, &shrink_budgets) {
                    return;
                }
            }
        }
        rep.count("sql_failures_unexplained", 1);
        rep.violations.push((
            f0.assertion.clone(),
            sig,
            json!({
                "original_sql": q.sql(spec),
                "original_fail": f0.detail,
                "minimal_sql": cur.sql(&cur_spec),
                "minimal_setup": used_setup(&cur_spec, &cur),
                "minimal_fail": cur_f.detail,
                "minimal_plan": plan2,
                "data_facts": facts,
                "rows_minimised": first,
            }),
        ));
    }

    #[allow(clippy::too_many_arguments)]
    fn report_explained(&mut self, rep: &mut Report, db: &mut Db, spec: &Spec, q: &JQ, plan: &str, f: &Fail, set: &[Emu], budgets: &[usize]) {
        rep.count("sql_failures_explained_by_emulation", 1);
        let names: Vec<&str> = set.iter().map(|e| e.name()).collect();
        // first time this worker sees this defect alone: attach a shrunk reproduction explained by the same defect
        let mut minimal = J::Null;
        if set.len() == 1 {
            let sig = format!("C17/sql/bag/defect:{}", set[0].name());
            if self.seen_sigs.lock().unwrap().insert(sig) {
                let only = set.to_vec();
                let (small, sf) = {
                    // a candidate is kept only if it is still explained by exactly this defect
                    let mut keep = |d: &mut Db, c: &JQ, cf: &Fail| -> bool {
                        match (&cf.got, d.explain(&c.sql(spec))) {
                            (Some(g), Some(p)) => explain(c, spec, &p, g).as_deref() == Some(&only[..]),
                            _ => false,
                        }
                    };
                    shrink_query(db, spec, q, f, budgets, 80, &mut keep)
                };
                let sp = db.explain(&small.sql(spec));
                let same = match (&sp, &sf.got) {
                    (Some(p), Some(g)) => explain(&small, spec, p, g).as_deref() == Some(&only[..]),
                    _ => false,
                };
                if same {
                    minimal = json!({"minimal_sql": small.sql(spec), "minimal_setup": used_setup(spec, &small), "minimal_fail": sf.detail, "minimal_plan": sp});
                }
            }
        }
        let distinct: BTreeSet<&str> = set.iter().map(|e| e.name()).collect();
        for name in distinct {
            rep.violations.push((
                "bag".into(),
                format!("C17/sql/bag/defect:{}", name),
                json!({"sql": q.sql(spec), "setup": used_setup(spec, q), "plan": plan, "fail": f.detail, "explained_by_emulating": names, "emulated_sql": emulate(q, spec, set, plan).sql(spec), "minimal": minimal}),
            ));
        }
    }

    fn run_database(&mut self, seed: u64, dbi: u64) -> Report {
        let mut rep = Report::default();
        let mut rng = Rng::derive(seed.wrapping_mul(0x1000193).wrapping_add(dbi), 17);
        // strata: 1 in 7 databases carries a DATE / BOOLEAN / TIMESTAMP key column
        let special = if dbi % 7 == 3 { Some(*rng.pick(&[CK::Date, CK::Bool, CK::Ts])) } else { None };
        let ntabs = *rng.pick(&[2usize, 2, 2, 3, 3, 4]);
        // 1 in 3 databases has no secondary index at all (pure hash / nested-loop paths)
        let spec = gen_spec(&mut rng, ntabs, special, dbi % 3 != 0);
        let mut db = match build_db(self.scratch, &spec, &format!("w{}-db", self.id)) {
            Ok(d) => d,
            Err(e) => {
                rep.violations.push(("setup".into(), format!("C17/sql/setup/{}", err_class(&e)), json!({"error": e, "setup": spec.setup_sql()})));
                return rep;
            }
        };
        rep.count("sql_databases", 1);
        let dh = spec.data_hash();
        for _ in 0..10 {
            let q = gen_query(&mut rng, &spec);
            let sql = q.sql(&spec);
            let (want, width) = match model_of(&q, &spec) {
                Ok(x) => x,
                Err(_) => {
                    rep.count("sql_dropped_model_undecided", 1);
                    continue;
                }
            };
            rep.evals += 1;
            rep.count("sql_query_executions", BUDGETS.len() as u64);
            let plan = db.explain(&sql);
            let algos = plan.as_deref().map(plan_algos).unwrap_or_default();
            if plan.is_none() {
                rep.count("sql_explain_unavailable", 1);
            }
            let verdict = judge(&mut db, &sql, &want, width, &BUDGETS);
            let failed = verdict.is_some();
            let aset: BTreeSet<&str> = algos.iter().copied().collect();
            for al in &aset {
                rep.by_algo.push((al.to_string(), failed));
            }
            for al in &algos {
                rep.count(&format!("plan_operators:{}", al), 1);
            }
            rep.by_kind.push((q.kinds_tag(), failed));
            rep.features.extend(q.features(&spec));
            if special.is_some() {
                rep.count("sql_special_key_stratum_queries", 1);
            }
            match verdict {
                None => {
                    rep.count("sql_held", 1);
                    if !want.is_empty() {
                        rep.nontrivial.push(fnv(format!("{}#{}", sql, dh).as_bytes()));
                    }
                    if rep.samples.is_empty() && !want.is_empty() {
                        rep.samples.push(json!({"level": "sql", "sql": sql, "plan": plan, "model_rows": want.len(), "budgets": BUDGETS}));
                    }
                }
                Some(f) => {
                    rep.count("sql_failed", 1);
                    rep.nontrivial.push(fnv(format!("{}#{}", sql, dh).as_bytes()));
                    self.handle_failure(&mut rep, &mut db, &spec, &q, plan.as_deref(), f);
                }
            }
        }
        rep.count("sql_fresh_databases_for_shrinking", self.fresh_dbs);
        self.fresh_dbs = 0;
        rep
    }
}

struct SqlAgg {
    by_algo: BTreeMap<String, (u64, u64)>,
    by_kind: BTreeMap<String, (u64, u64)>,
    sigs: BTreeMap<String, u64>,
    witnesses: BTreeMap<String, J>,
    features: BTreeMap<String, u64>,
}

fn merge_report(ctx: &mut Ctx, agg: &mut SqlAgg, rep: Report) {
    ctx.evals(rep.evals);
    for (k, n) in rep.counters {
        ctx.count(&k, n);
    }
    for h in rep.nontrivial {
        ctx.nontrivial(h);
    }
    for s in rep.samples {
        if ctx.samples.iter().filter(|x| x["level"] == "sql").count() < 3 {
            ctx.sample(s);
        }
    }
    for (k, failed) in rep.by_algo {
        let e = agg.by_algo.entry(k).or_insert((0, 0));
        e.0 += 1;
        e.1 += failed as u64;
    }
    for (k, failed) in rep.by_kind {
        let e = agg.by_kind.entry(k).or_insert((0, 0));
        e.0 += 1;
        e.1 += failed as u64;
    }
    for f in rep.features {
        *agg.features.entry(f).or_insert(0) += 1;
    }
    for (assertion, sig, detail) in rep.violations {
        *agg.sigs.entry(sig.clone()).or_insert(0) += 1;
        if !agg.witnesses.contains_key(&sig) && agg.witnesses.len() < 80 {
            agg.witnesses.insert(sig.clone(), detail.clone());
        }
        ctx.violation(&assertion, &sig, detail);
    }
}

fn finish_sql(ctx: &mut Ctx, agg: SqlAgg) {
    let pairs = |m: &BTreeMap<String, (u64, u64)>| m.iter().map(|(k, v)| (k.clone(), json!({"queries": v.0, "failed": v.1}))).collect::<BTreeMap<_, _>>();
    ctx.extra.insert("sql_queries_by_join_algorithm".into(), json!(pairs(&agg.by_algo)));
    ctx.extra.insert("sql_queries_by_join_kinds".into(), json!(pairs(&agg.by_kind)));
    ctx.extra.insert("sql_queries_by_feature".into(), json!(agg.features));
    ctx.extra.insert("sql_signatures".into(), json!(agg.sigs));
    ctx.extra.insert("sql_first_witness_by_signature".into(), json!(agg.witnesses));
}

// ---------------------------------------------------------------------------------------------
// component level
// ---------------------------------------------------------------------------------------------

mod comp {
    use super::*;
    use bumpalo::Bump;
    use turdb::sql::ast::{JoinType, Statement};
    use turdb::sql::builder::ExecutorBuilder;
    use turdb::sql::context::ExecutionContext;
    use turdb::sql::executor::{DynamicExecutor, Executor, MaterializedRowSource, TableScanExecutor};
    use turdb::sql::parser::Parser;
    use turdb::sql::state::StreamingHashJoinState;
    use turdb::types::Value;

    type Dx<'a> = DynamicExecutor<'a, MaterializedRowSource>;

    #[derive(Clone, Debug, PartialEq)]
    pub enum Ex {
        Nlj,
        GraceMem { p: usize },
        GraceSpill { p: usize, budget: usize },
        Stream { swapped: bool },
    }

    impl Ex {
        pub fn class(&self, spilled: bool) -> String {
            match self {
                Ex::Nlj => "nlj".into(),
                Ex::GraceMem { p } => format!("grace_mem_{}", if *p == 1 { "p1" } else { "pN" }),
                Ex::GraceSpill { p, .. } => format!("{}_{}", if spilled { "grace_spill" } else { "grace_spilldir_nospill" }, if *p == 1 { "p1" } else { "pN" }),
                Ex::Stream { swapped: false } => "stream".into(),
                Ex::Stream { swapped: true } => "stream_swapped".into(),
            }
        }
    }

    #[derive(Clone, Debug)]
    pub struct Input {
        pub lcols: Vec<String>,
        pub rcols: Vec<String>,
        pub l: Vec<Row>,
        pub r: Vec<Row>,
        /// key column pairs (index into lcols, index into rcols)
        pub keys: Vec<(usize, usize)>,
        /// extra non-equi condition for the nested loop join: (left col, op, right col)
        pub extra: Option<(usize, BinOp, usize)>,
    }

    pub fn jt(k: JoinKind) -> JoinType {
        match k {
            JoinKind::Inner => JoinType::Inner,
            JoinKind::Left => JoinType::Left,
            JoinKind::Right => JoinType::Right,
            JoinKind::Full => JoinType::Full,
            JoinKind::Cross => JoinType::Cross,
        }
    }

    fn v_of(v: &Value) -> V {
        match v {
            Value::Null => V::Null,
            Value::Int(i) => V::Int(*i),
            Value::Float(f) => V::Float(*f),
            Value::Text(s) => V::Text(s.to_string()),
            Value::Blob(b) => V::Blob(b.to_vec()),
            other => V::Other(format!("{:?}", other)),
        }
    }

    fn scan<'a>(rows: &[Row], arena: &'a Bump) -> Dx<'a> {
        let owned: Vec<Vec<turdb::OwnedValue>> = rows.iter().map(|r| r.iter().map(|v| v.to_owned_value()).collect()).collect();
        DynamicExecutor::TableScan(TableScanExecutor::new(MaterializedRowSource::new(owned), arena))
    }

    pub fn cond_sql(inp: &Input, with_extra: bool) -> Option<String> {
        let mut parts: Vec<String> = inp.keys.iter().map(|(a, b)| format!("l.{} = r.{}", inp.lcols[*a], inp.rcols[*b])).collect();
        if with_extra {
            if let Some((a, op, b)) = &inp.extra {
                parts.push(format!("l.{} {} r.{}", inp.lcols[*a], op.sql(), inp.rcols[*b]));
            }
        }
        if parts.is_empty() {
            None
        } else {
            Some(parts.join(" AND "))
        }
    }

    /// the model's nested-loop definition of the same join
    pub fn expected(inp: &Input, kind: JoinKind, with_extra: bool) -> Result<Vec<Row>, MErr> {
        let mut tables = BTreeMap::new();
        tables.insert("l".to_string(), MTable { name: "l".into(), cols: inp.lcols.clone(), rows: inp.l.clone() });
        tables.insert("r".to_string(), MTable { name: "r".into(), cols: inp.rcols.clone(), rows: inp.r.clone() });
        let q = |t: &str, c: &str| E::Col { tbl: Some(t.to_string()), name: c.to_string() };
        let mut atoms: Vec<E> = inp.keys.iter().map(|(a, b)| bin(BinOp::Eq, q("l", &inp.lcols[*a]), q("r", &inp.rcols[*b]))).collect();
        if with_extra {
            if let Some((a, op, b)) = &inp.extra {
                atoms.push(bin(*op, q("l", &inp.lcols[*a]), q("r", &inp.rcols[*b])));
            }
        }
        let on = atoms.into_iter().reduce(|x, y| bin(BinOp::And, x, y));
        let s = Select { items: vec![Item::Star], from: vec![FromItem::Table { name: "l".into(), alias: None }], joins: vec![Join { kind, item: FromItem::Table { name: "r".into(), alias: None }, on }], ..Default::default() };
        run_model(&Query::Select(s), &tables).map(|m| m.rows)
    }

    fn drain<'a>(ex: &mut Dx<'a>, spill_dir: Option<&Path>) -> Result<(Vec<Row>, usize), String> {
        ex.open().map_err(|e| format!("open: {:#}", e))?;
        // all partition writes happen in open(): count the spill files that exist now
        let files = spill_dir.map(|d| std::fs::read_dir(d).map(|it| it.filter_map(|e| e.ok()).filter(|e| e.file_name().to_string_lossy().ends_with(".spill")).count()).unwrap_or(0)).unwrap_or(0);
        let mut out = vec![];
        let mut n = 0usize;
        loop {
            match ex.next().map_err(|e| format!("next: {:#}", e))? {
                Some(row) => {
                    out.push(row.values.iter().map(v_of).collect::<Row>());
                    n += 1;
                    if n > 200_000 {
                        return Err("runaway: more than 200000 rows".into());
                    }
                }
                None => break,
            }
        }
        ex.close().map_err(|e| format!("close: {:#}", e))?;
        Ok((out, files))
    }

    /// run one executor over the input; returns (rows, spill files observed)
    pub fn run_exec(ex: &Ex, kind: JoinKind, inp: &Input, with_extra: bool, spill_root: &Path, qid: u64) -> Result<(Vec<Row>, usize), String> {
        let r = catch(|| -> Result<(Vec<Row>, usize), String> {
            let arena = Bump::new();
            let ctx = ExecutionContext::new(&arena);
            let builder = ExecutorBuilder::new(&ctx);
            let left = scan(&inp.l, &arena);
            let right = scan(&inp.r, &arena);
            let (nl, nr) = (inp.lcols.len(), inp.rcols.len());
            let lk: Vec<usize> = inp.keys.iter().map(|k| k.0).collect();
            let rk: Vec<usize> = inp.keys.iter().map(|k| k.1).collect();
            match ex {
                Ex::Nlj => {
                    let mut cmap: Vec<(String, usize)> = vec![];
                    for (i, c) in inp.lcols.iter().enumerate() {
                        cmap.push((format!("l.{}", c), i));
                        cmap.push((c.clone(), i));
                    }
                    for (i, c) in inp.rcols.iter().enumerate() {
                        cmap.push((format!("r.{}", c), nl + i));
                        cmap.push((c.clone(), nl + i));
                    }
                    let cond = match cond_sql(inp, with_extra) {
                        None => None,
                        Some(c) => {
                            let sql: &str = arena.alloc_str(&format!("SELECT 1 FROM l WHERE {}", c));
                            let mut p = Parser::new(sql, &arena);
                            match p.parse_statement() {
                                Ok(Statement::Select(s)) => Some(s.where_clause.ok_or_else(|| "harness: no WHERE parsed".to_string())?),
                                Ok(_) => return Err("harness: condition did not parse as SELECT".into()),
                                Err(e) => return Err(format!("harness: condition parse error: {:#}", e)),
                            }
                        }
                    };
                    let st = builder.build_nested_loop_join(left, right, cond, &cmap, jt(kind), nl, nr);
                    let mut dx = DynamicExecutor::NestedLoopJoin(st);
                    drain(&mut dx, None)
                }
                Ex::GraceMem { p } => {
                    let st = builder.build_grace_hash_join(left, right, lk, rk, *p, jt(kind), nl, nr, None, 0, qid);
                    let mut dx = DynamicExecutor::GraceHashJoin(Box::new(st));
                    drain(&mut dx, None)
                }
                Ex::GraceSpill { p, budget } => {
                    let dir: PathBuf = spill_root.join(format!("q{}", qid));
                    let _ = std::fs::remove_dir_all(&dir);
                    // self-test of the monitor (never set in normal runs): run LEFT as INNER in the spilling executor
                    let kind = if kind == JoinKind::Left && std::env::var("C17_SELFTEST_BREAK").map(|v| v == "grace_spill_left_as_inner").unwrap_or(false) { JoinKind::Inner } else { kind };
                    let st = builder.build_grace_hash_join(left, right, lk, rk, *p, jt(kind), nl, nr, Some(dir.clone()), *budget, qid);
                    let mut dx = DynamicExecutor::GraceHashJoin(Box::new(st));
                    let r = drain(&mut dx, Some(&dir));
                    drop(dx);
                    let _ = std::fs::remove_dir_all(&dir);
                    r
                }
                Ex::Stream { swapped } => {
                    let (build, probe, bk, pk, bn, pn) = if *swapped { (right, left, rk, lk, nr, nl) } else { (left, right, lk, rk, nl, nr) };
                    let st = StreamingHashJoinState {
                        build: Box::new(build),
                        probe: Box::new(probe),
                        build_key_indices: bk.into_iter().collect(),
                        probe_key_indices: pk.into_iter().collect(),
                        arena: &arena,
                        hash_table: Default::default(),
                        build_rows: Vec::new(),
                        current_probe_row: None,
                        current_matches: Default::default(),
                        current_match_idx: 0,
                        join_type: jt(kind),
                        probe_row_matched: false,
                        build_matched: Vec::new(),
                        emitting_unmatched_build: false,
                        unmatched_build_idx: 0,
                        build_col_count: bn,
                        probe_col_count: pn,
                        built: false,
                        swapped: *swapped,
                        memory_budget: None,
                        last_reported_bytes: 0,
                    };
                    let mut dx = DynamicExecutor::StreamingHashJoin(st);
                    drain(&mut dx, None)
                }
            }
        });
        match r {
            Ok(x) => x,
            Err(p) => Err(format!("PANIC: {}", p)),
        }
    }

    pub fn gen_input(rng: &mut Rng, miri: bool) -> Input {
        let dom = *rng.pick(&[2i64, 3, 5, 9]);
        let max = if miri { 8 } else { 40 };
        let mk = |rng: &mut Rng, side: char, base: i64| -> (Vec<String>, Vec<Row>) {
            let cols = vec![format!("k{}", side), format!("s{}", side), format!("v{}", side)];
            let n = match rng.below(12) {
                0 => 0,
                1 => 1,
                _ => rng.usize(2, max),
            };
            let null_pm = *rng.pick(&[0u64, 150, 300]);
            let rows = (0..n).map(|i| vec![gen_cell(rng, CK::IntKey, dom, null_pm), gen_cell(rng, CK::TextKey, dom, null_pm), V::Int(base + i as i64)]).collect();
            (cols, rows)
        };
        let (lcols, l) = mk(rng, 'l', 100);
        let (rcols, r) = mk(rng, 'r', 200);
        let keys = match rng.below(10) {
            0..=4 => vec![(0, 0)],
            5..=7 => vec![(1, 1)],
            _ => vec![(0, 0), (1, 1)],
        };
        let extra = if rng.chance(1, 2) { Some((2usize, *rng.pick(&[BinOp::Lt, BinOp::Ge, BinOp::Ne]), 2usize)) } else { None };
        let mut inp = Input { lcols, rcols, l, r, keys, extra };
        // payload comparison l.v < r.v is always true (100.. vs 200..): shift so it discriminates
        if let Some((_, _, _)) = inp.extra {
            for (i, row) in inp.r.iter_mut().enumerate() {
                row[2] = V::Int(100 + ((i as i64 * 7) % 41));
            }
        }
        inp
    }

    pub fn facts(inp: &Input, kind: JoinKind) -> Vec<&'static str> {
        let mut f = vec![];
        let key_of = |row: &Row, left: bool| -> Row { inp.keys.iter().map(|(a, b)| row[if left { *a } else { *b }].clone()).collect() };
        let lk: Vec<Row> = inp.l.iter().map(|r| key_of(r, true)).collect();
        let rk: Vec<Row> = inp.r.iter().map(|r| key_of(r, false)).collect();
        if lk.iter().chain(rk.iter()).any(|k| k.iter().any(|v| v.is_null())) {
            f.push("null_keys");
        }
        let dup = |ks: &Vec<Row>| {
            let mut s = BTreeSet::new();
            ks.iter().filter(|k| !k.iter().any(|v| v.is_null())).any(|k| !s.insert(row_key(k, false)))
        };
        if dup(&lk) || dup(&rk) {
            f.push("dup_keys");
        }
        if inp.l.is_empty() {
            f.push("empty_left");
        }
        if inp.r.is_empty() {
            f.push("empty_right");
        }
        let nn = |k: &Row| !k.iter().any(|v| v.is_null());
        let ls: BTreeSet<String> = lk.iter().filter(|k| nn(k)).map(|k| row_key(k, false)).collect();
        let rs: BTreeSet<String> = rk.iter().filter(|k| nn(k)).map(|k| row_key(k, false)).collect();
        if !inp.l.is_empty() && lk.iter().any(|k| !nn(k) || !rs.contains(&row_key(k, false))) && matches!(kind, JoinKind::Left | JoinKind::Full) {
            f.push("unmatched_left");
        }
        if !inp.r.is_empty() && rk.iter().any(|k| !nn(k) || !ls.contains(&row_key(k, false))) && matches!(kind, JoinKind::Right | JoinKind::Full) {
            f.push("unmatched_right");
        }
        if inp.keys.len() > 1 {
            f.push("two_keys");
        }
        f
    }

    pub fn input_hash(inp: &Input) -> u64 {
        let mut s = String::new();
        for r in inp.l.iter() {
            s.push_str(&row_key(r, false));
            s.push('\n');
        }
        s.push_str("--\n");
        for r in inp.r.iter() {
            s.push_str(&row_key(r, false));
            s.push('\n');
        }
        s.push_str(&format!("{:?}{:?}", inp.keys, inp.extra));
        fnv(s.as_bytes())
    }

    pub fn input_json(inp: &Input) -> J {
        json!({"left_cols": inp.lcols, "right_cols": inp.rcols, "left_rows": rows_json(&inp.l, 60), "right_rows": rows_json(&inp.r, 60), "key_pairs": inp.keys, "nlj_extra_condition": inp.extra.as_ref().map(|(a, op, b)| format!("l.{} {} r.{}", inp.lcols[*a], op.sql(), inp.rcols[*b]))})
    }

    /// delete rows one at a time while `fails` holds
    pub fn shrink_rows(inp: &Input, fails: &mut dyn FnMut(&Input) -> bool, mut budget: usize) -> Input {
        let mut cur = inp.clone();
        let mut progress = true;
        while progress && budget > 0 {
            progress = false;
            // halves first
            for left in [true, false] {
                let n = if left { cur.l.len() } else { cur.r.len() };
                if n >= 4 && budget > 0 {
                    for half in 0..2 {
                        let mut c = cur.clone();
                        let v = if left { &mut c.l } else { &mut c.r };
                        if half == 0 {
                            v.truncate(n / 2);
                        } else {
                            v.drain(..n / 2);
                        }
                        budget = budget.saturating_sub(1);
                        if fails(&c) {
                            cur = c;
                            progress = true;
                            break;
                        }
                    }
                }
            }
            for left in [true, false] {
                let mut i = 0;
                while i < if left { cur.l.len() } else { cur.r.len() } {
                    if budget == 0 {
                        return cur;
                    }
                    let mut c = cur.clone();
                    if left {
                        c.l.remove(i);
                    } else {
                        c.r.remove(i);
                    }
                    budget -= 1;
                    if fails(&c) {
                        cur = c;
                        progress = true;
                    } else {
                        i += 1;
                    }
                }
            }
        }
        cur
    }
}

/// what kind of rows are missing / extra relative to `want` (left width `nl`): the stable part of a component signature
fn symptoms(got: &[Row], want: &[Row], nl: usize) -> Vec<String> {
    use std::collections::HashMap;
    let mut cnt: HashMap<String, (i64, Row)> = HashMap::new();
    for r in want {
        cnt.entry(row_key(r, true)).or_insert((0, r.clone())).0 += 1;
    }
    for r in got {
        cnt.entry(row_key(r, true)).or_insert((0, r.clone())).0 -= 1;
    }
    let mut out = BTreeSet::new();
    for (_, (c, r)) in cnt {
        if c == 0 {
            continue;
        }
        let shape = if r.len() < nl {
            "short_row"
        } else if r[..nl].iter().all(|v| v.is_null()) && !r[nl..].iter().all(|v| v.is_null()) {
            "unmatched_right_row"
        } else if r[nl..].iter().all(|v| v.is_null()) {
            "unmatched_left_row"
        } else {
            "matched_row"
        };
        out.insert(format!("{}_{}", if c > 0 { "missing" } else { "extra" }, shape));
    }
    out.into_iter().collect()
}

fn outcome_tag(r: &Result<(Vec<Row>, usize), String>, want: &[Row]) -> Option<(String, String)> {
    match r {
        Ok((rows, _)) => {
            if bag_equal(rows, want) {
                None
            } else {
                Some(("bag".into(), String::new()))
            }
        }
        Err(e) if is_panic(e) => Some(("no_panic".into(), panic_tag(e))),
        Err(e) => Some(("no_error".into(), err_class(e))),
    }
}

fn run_component_level(ctx: &mut Ctx, a: &Args, scratch: &Scratch, deadline_s: f64) {
    use comp::*;
    let quick = ctx.quick();
    let miri = cfg!(miri);
    let mut rng = Rng::derive(a.seed, 1700);
    let spill_root = scratch.root.join("spill");
    let ninputs = if miri { 12 } else if quick { 500 } else { 8000 };
    let mut qid: u64 = 1;
    let mut sigs: BTreeMap<String, u64> = BTreeMap::new();
    let mut seen_sigs: BTreeSet<String> = BTreeSet::new();
    let mut runs_by_class: BTreeMap<String, (u64, u64)> = BTreeMap::new();
    for _ in 0..ninputs {
        if ctx.elapsed() > deadline_s {
            ctx.count("component_stopped_at_wall_budget", 1);
            break;
        }
        let inp = gen_input(&mut rng, miri);
        ctx.count("component_inputs", 1);
        let ih = input_hash(&inp);
        // executors for this input: every family once, parameters drawn per input
        let mut execs: Vec<(Ex, bool)> = vec![(Ex::Nlj, false)];
        if inp.extra.is_some() {
            execs.push((Ex::Nlj, true));
        }
        execs.push((Ex::GraceMem { p: *rng.pick(&[1usize, 1, 2, 3, 7, 16]) }, false));
        execs.push((Ex::Stream { swapped: false }, false));
        execs.push((Ex::Stream { swapped: true }, false));
        if !miri {
            let p = *rng.pick(&[1usize, 1, 2, 2, 4, 8, 16]);
            let budget = *rng.pick(&[256usize, 256, 512, 1024, 4096, 65536]);
            execs.push((Ex::GraceSpill { p, budget }, false));
        }
        let kinds: Vec<JoinKind> = if miri { vec![*rng.pick(&[JoinKind::Inner, JoinKind::Left, JoinKind::Right, JoinKind::Full])] } else { vec![JoinKind::Inner, JoinKind::Left, JoinKind::Right, JoinKind::Full] };
        for kind in kinds {
            let want_eq = match expected(&inp, kind, false) {
                Ok(w) => w,
                Err(_) => {
                    ctx.count("component_dropped_model_undecided", 1);
                    continue;
                }
            };
            let want_extra = expected(&inp, kind, true).ok();
            let mut reference: Option<Vec<Row>> = None;
            for (ex, with_extra) in &execs {
                // the planner only builds a swapped streaming join for INNER; FULL is symmetric. LEFT/RIGHT under
                // `swapped` have no documented meaning, so they are not driven.
                if let Ex::Stream { swapped: true } = ex {
                    if !matches!(kind, JoinKind::Inner | JoinKind::Full) {
                        continue;
                    }
                }
                let want: &Vec<Row> = if *with_extra {
                    match &want_extra {
                        Some(w) => w,
                        None => continue,
                    }
                } else {
                    &want_eq
                };
                qid += 1;
                ctx.eval();
                let res = run_exec(ex, kind, &inp, *with_extra, &spill_root, qid);
                let spill_files = res.as_ref().map(|x| x.1).unwrap_or(0);
                let class = format!("{}{}", ex.class(spill_files > 0), if *with_extra { "+nonequi" } else { "" });
                if let Ex::GraceSpill { .. } = ex {
                    if spill_files > 0 {
                        ctx.count("component_spill_cases", 1);
                        ctx.count("component_spill_files_written", spill_files as u64);
                    } else {
                        ctx.count("component_spilldir_cases_without_spill", 1);
                    }
                }
                let fail = outcome_tag(&res, want);
                {
                    let e = runs_by_class.entry(format!("{}/{}", class, kind_name(kind))).or_insert((0, 0));
                    e.0 += 1;
                    if fail.is_some() {
                        e.1 += 1;
                    }
                }
                if !want.is_empty() || fail.is_some() {
                    ctx.nontrivial(fnv(format!("{}/{}/{:?}/{}", class, kind_name(kind), ex, ih).as_bytes()));
                }
                if ctx.samples.len() < 3 && spill_files > 0 && fail.is_none() && !want.is_empty() && inp.l.len() <= 12 && inp.r.len() <= 12 {
                    ctx.sample(json!({"level": "component", "executor": format!("{:?}", ex), "join": kind_name(kind), "spill_files": spill_files, "result_rows": want.len(), "input": input_json(&inp)}));
                }
                if *ex == Ex::Nlj && !*with_extra {
                    if let Ok((rows, _)) = &res {
                        reference = Some(rows.clone());
                    }
                }
                // `bag` (or error / panic) against the model
                if let Some((assertion, cause)) = fail {
                    let mut fails = |c: &Input| -> bool {
                        let w = match expected(c, kind, *with_extra) {
                            Ok(w) => w,
                            Err(_) => return false,
                        };
                        qid += 1;
                        let r = run_exec(ex, kind, c, *with_extra, &spill_root, qid);
                        // a spilling case must keep spilling to stay the same case
                        if spill_files > 0 && r.as_ref().map(|x| x.1 == 0).unwrap_or(false) {
                            return false;
                        }
                        outcome_tag(&r, &w) == Some((assertion.clone(), cause.clone()))
                    };
                    let small = shrink_rows(&inp, &mut fails, if matches!(ex, Ex::GraceSpill { .. }) { 120 } else { 400 });
                    let fx = facts(&small, kind);
                    qid += 1;
                    let got_small = run_exec(ex, kind, &small, *with_extra, &spill_root, qid);
                    let want_small = expected(&small, kind, *with_extra).unwrap_or_default();
                    // signature: executor class, join kind and the shape of the wrong rows (data facts stay in the detail)
                    let sym = match &got_small {
                        Ok((rows, _)) => symptoms(rows, &want_small, small.lcols.len()).join("+"),
                        Err(_) => String::new(),
                    };
                    let sig = format!("C17/component/{}/{}{}/{}/{}", assertion, if cause.is_empty() { String::new() } else { format!("{}/", cause) }, class, kind_name(kind), sym);
                    *sigs.entry(sig.clone()).or_insert(0) += 1;
                    let first = seen_sigs.insert(sig.clone());
                    ctx.violation(
                        &assertion,
                        &sig,
                        json!({
                            "executor": format!("{:?}", ex),
                            "join": kind_name(kind),
                            "condition": cond_sql(&small, *with_extra),
                            "minimal_input": input_json(&small),
                            "minimal_data_facts": fx,
                            "minimal_got": match &got_small { Ok((r, f)) => json!({"rows": rows_json(r, 40), "spill_files": f}), Err(e) => json!({"error": e}) },
                            "minimal_want": rows_json(&want_small, 40),
                            "original_input": if first { input_json(&inp) } else { J::Null },
                            "original_spill_files": spill_files,
                        }),
                    );
                }
                // `algorithm_invariant` (model-free): same bag as the nested loop executor on the same equi condition
                if !*with_extra && *ex != Ex::Nlj {
                    if let (Some(refrows), Ok((rows, _))) = (&reference, &res) {
                        if !bag_equal(rows, refrows) {
                            let sig = format!("C17/component/algorithm_invariant/{}_vs_nlj/{}/{}", class, kind_name(kind), symptoms(rows, refrows, inp.lcols.len()).join("+"));
                            *sigs.entry(sig.clone()).or_insert(0) += 1;
                            ctx.violation("algorithm_invariant", &sig, json!({"executor": format!("{:?}", ex), "join": kind_name(kind), "input": input_json(&inp), "diff_vs_nlj": bag_diff(rows, refrows)}));
                        }
                    }
                }
            }
        }
    }
    ctx.extra.insert("component_runs_by_executor_and_join".into(), json!(runs_by_class.iter().map(|(k, v)| (k.clone(), json!({"runs": v.0, "failed": v.1}))).collect::<BTreeMap<_, _>>()));
    ctx.extra.insert("component_signatures".into(), json!(sigs));
}

pub fn run(a: &Args) -> i32 {
    let mut ctx = Ctx::new(
        "C17",
        &a.tier,
        a.seed,
        "exploration",
        "(a) SQL level: fresh database per case group with 2..4 tables (3..25 rows, optional integer primary key, integer and text join keys from small domains with duplicates and 0/15/30% NULLs, unique payload column, optional DATE/BOOLEAN/TIMESTAMP key stratum, optional secondary indexes on key columns); generated 2..4-way joins (INNER/LEFT/RIGHT/FULL OUTER/CROSS chains or comma joins with WHERE equalities; ON = equality on int/text/pk/special keys, non-equi comparisons, OR, extra conjuncts on one or both sides; WHERE atoms on any side; aliases, unqualified names, SELECT * or qualified columns from all sides, self joins); each query runs under PRAGMA join_memory_budget in {1024, 4096, 65536, 10485760}; `bag` = result bag equals the reference nested-loop evaluator, `budget_invariant` = same outcome and bag under all four budgets; EXPLAIN is recorded per query. A failing query is first compared with the model under exact emulations of the defects established on the unchanged tree (smallest matching set; each predicts the precise wrong output; signature C17/sql/<assertion>/defect:<name>, one report per defect in the set); otherwise it is shrunk (tables, conjuncts, WHERE atoms, select items, join kinds, aliases, qualification; then secondary indexes / NULLs / duplicates in referenced columns removed on fresh databases, rows deleted for the first witness), emulations are tried again on the minimal case, and what stays unexplained gets a signature built from the minimal query's join kinds, features, plan operators and needed data facts. (b) component level: generated left/right inputs (0..40 rows, int/text keys, NULL and duplicate keys, one or two key columns) as MaterializedRowSource into DynamicExecutor::{NestedLoopJoin (equi and equi+non-equi condition), GraceHashJoin in memory (1..16 partitions), GraceHashJoin with spill_dir (budgets 256 B..64 KiB, 1..16 partitions; spill files counted after open()), StreamingHashJoin (build=left; swapped for INNER/FULL)} for INNER/LEFT/RIGHT/FULL; `bag` vs the model's nested-loop definition (failing inputs are row-minimised; signature = executor class / join kind / shape of the missing or extra rows), `algorithm_invariant` (model-free) = same bag as the NestedLoopJoin executor on the same equality condition. distinct_nontrivial = distinct (query, data) / (executor, join kind, input) cases with a non-empty expected result or a failure",
    );
    let quick = ctx.quick();
    // under Miri nothing touches the file system: the scratch directory is only named, never created
    let scratch = if cfg!(miri) { Scratch { root: PathBuf::from(format!("{}/scratch/c17-miri-unused", crate::report::VERIF_DIR)) } } else { Scratch::new("c17") };
    if cfg!(miri) {
        // no files / mmap under Miri: only the in-memory executors
        run_component_level(&mut ctx, a, &scratch, 1e9);
    } else {
        // SQL level on worker threads (one scratch database each); the component level runs meanwhile on this thread
        let (ndb, sql_deadline, comp_deadline): (u64, f64, f64) = if quick { (900, 40.0, 46.0) } else { (30000, 470.0, 520.0) };
        let nworkers: usize = std::env::var("C17_WORKERS").ok().and_then(|x| x.parse().ok()).unwrap_or(4);
        let next = std::sync::atomic::AtomicU64::new(0);
        let start = std::time::Instant::now();
        let seen_sigs: std::sync::Mutex<BTreeSet<String>> = std::sync::Mutex::new(BTreeSet::new());
        let (tx, rx) = std::sync::mpsc::channel::<(u64, Report)>();
        let seed = a.seed;
        let mut agg = SqlAgg { by_algo: BTreeMap::new(), by_kind: BTreeMap::new(), sigs: BTreeMap::new(), witnesses: BTreeMap::new(), features: BTreeMap::new() };
        std::thread::scope(|sc| {
            for w in 0..nworkers {
                let tx = tx.clone();
                let next = &next;
                let scratch = &scratch;
                let seen_sigs = &seen_sigs;
                sc.spawn(move || {
                    let mut wk = Worker { scratch, id: w, seen_sigs, fresh_dbs: 0, start, soft_deadline_s: sql_deadline };
                    loop {
                        let i = next.fetch_add(1, std::sync::atomic::Ordering::SeqCst);
                        if i >= ndb || start.elapsed().as_secs_f64() > sql_deadline {
                            break;
                        }
                        let rep = wk.run_database(seed, i);
                        if tx.send((i, rep)).is_err() {
                            break;
                        }
                    }
                });
            }
            drop(tx);
            run_component_level(&mut ctx, a, &scratch, comp_deadline);
            let mut reports: Vec<(u64, Report)> = rx.iter().collect();
            reports.sort_by_key(|r| r.0);
            if (reports.len() as u64) < ndb {
                ctx.count("sql_stopped_at_wall_budget", 1);
            }
            for (_, rep) in reports {
                merge_report(&mut ctx, &mut agg, rep);
            }
        });
        finish_sql(&mut ctx, agg);
    }
    ctx.assumptions.push("text keys compare bytewise; join equality never matches NULL; DATE/TIMESTAMP values are inserted as ISO string literals and compared after rendering the returned day/microsecond counts back to ISO text; no ORDER BY/LIMIT/DISTINCT/aggregates are generated (other properties); a swapped StreamingHashJoin is only driven for INNER and FULL (the planner only builds it for INNER)".into());
    ctx.finish()
}

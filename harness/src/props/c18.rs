//! C18: subqueries ([NOT] IN, [NOT] EXISTS, scalar, derived tables; correlated or not, nesting <= 3) and set
//! operations (UNION/INTERSECT/EXCEPT [ALL], chains, trailing ORDER BY/LIMIT) follow SQL semantics.
//! Differential check against the sqlm reference evaluator; every mismatch is shrunk (query structure, table
//! rows, NULL cells) while the same sub-assertion keeps failing; the signature is built from the minimal case.
use crate::report::Ctx;
use crate::rng::{fnv, Rng};
use crate::sqlm::cmp::compare;
use crate::sqlm::db::{is_panic, panic_tag, Db, Scratch};
use crate::sqlm::expr::{bin, AggFn, BinOp, MErr, E};
use crate::sqlm::gen::{ColSpec, ScopeCol, TableSpec, Ty};
use crate::sqlm::query::{run_model, FromItem, Item, Join, JoinKind, MTable, OrderKey, Query, Select, SetKind};
use crate::sqlm::val::{row_key, rows_json, Row, V};
use crate::Args;
use serde_json::{json, Value as J};
use std::collections::{BTreeMap, BTreeSet};

// ---------------------------------------------------------------------------------------------
// tables
// ---------------------------------------------------------------------------------------------

const TEXTS: &[&str] = &["a", "b", "ab", "c", "ba"];

fn make_spec(rng: &mut Rng, name: &str) -> TableSpec {
    let sfx = name[name.len() - 1..].to_string();
    let np = |rng: &mut Rng| *rng.pick(&[0u64, 200, 200, 400]);
    let mut cols = vec![ColSpec { name: format!("i1{}", sfx), ty: Ty::Int, null_pm: np(rng) }, ColSpec { name: format!("t2{}", sfx), ty: Ty::Text, null_pm: np(rng) }];
    match rng.below(3) {
        0 => cols.push(ColSpec { name: format!("i3{}", sfx), ty: Ty::Int, null_pm: np(rng) }),
        1 => cols.push(ColSpec { name: format!("f3{}", sfx), ty: Ty::Float, null_pm: np(rng) }),
        _ => {}
    }
    TableSpec { name: name.to_string(), cols, with_pk: true }
}

fn gen_val(rng: &mut Rng, ty: Ty, null_pm: u64) -> V {
    if rng.below(1000) < null_pm {
        return V::Null;
    }
    match ty {
        Ty::Int => {
            if rng.chance(4, 5) {
                V::Int(rng.range(0, 4))
            } else {
                V::Int(rng.range(-3, 9))
            }
        }
        Ty::Float => V::Float(rng.range(0, 8) as f64 / 4.0),
        Ty::Text => V::Text(rng.pick(TEXTS).to_string()),
        Ty::Bool => V::Bool(rng.chance(1, 2)),
    }
}

fn gen_rows(rng: &mut Rng, spec: &TableSpec, n: usize) -> Vec<Row> {
    (0..n)
        .map(|i| {
            let mut r = vec![V::Int(i as i64 + 1)];
            for c in &spec.cols {
                r.push(gen_val(rng, c.ty, c.null_pm));
            }
            r
        })
        .collect()
}

#[derive(Clone)]
struct Case {
    specs: Vec<TableSpec>,
    rows: Vec<Vec<Row>>,
}

impl Case {
    fn tables(&self) -> BTreeMap<String, MTable> {
        let mut m = BTreeMap::new();
        for (s, r) in self.specs.iter().zip(self.rows.iter()) {
            m.insert(s.name.to_lowercase(), s.to_mtable(r.clone()));
        }
        m
    }
    fn setup_sql(&self, only: Option<&BTreeSet<String>>) -> Vec<String> {
        let mut v = vec![];
        for (s, r) in self.specs.iter().zip(self.rows.iter()) {
            if let Some(o) = only {
                if !o.contains(&s.name) {
                    continue;
                }
            }
            v.push(s.create_sql());
            v.extend(s.insert_sql(r));
        }
        v
    }
    fn build(&self, scratch: &Scratch, name: &str, only: Option<&BTreeSet<String>>) -> Result<Db, String> {
        let mut db = Db::create(&scratch.dir(name))?;
        let _ = db.exec("PRAGMA synchronous = OFF");
        for s in self.setup_sql(only) {
            db.exec(&s).map_err(|e| format!("{}: {}", s, e))?;
        }
        Ok(db)
    }
    fn data_hash(&self) -> u64 {
        let mut s = String::new();
        for r in self.rows.iter().flatten() {
            s.push_str(&row_key(r, false));
            s.push('\n');
        }
        fnv(s.as_bytes())
    }
}

// ---------------------------------------------------------------------------------------------
// query generator
// ---------------------------------------------------------------------------------------------

/// naming style of one generated statement
#[derive(Clone, Copy, PartialEq, Eq, Debug)]
enum Style {
    /// no aliases, no qualifiers (every base table occurs at most once in the statement)
    Bare,
    /// no aliases, columns qualified by the table name (every base table at most once)
    TableQual,
    /// every base table aliased, every column qualified
    Aliased,
    /// aliases; own columns unqualified, outer columns qualified (the README style)
    Mixed,
}

/// one query level: how its columns are written at the level itself / from inside a subquery
#[derive(Clone, Debug)]
struct Lvl {
    local: Vec<ScopeCol>,
    outer: Vec<ScopeCol>,
}

fn ce(c: &ScopeCol) -> E {
    E::Col { tbl: c.tbl.clone(), name: c.name.clone() }
}
fn of_ty(cols: &[ScopeCol], ty: Ty) -> Vec<ScopeCol> {
    cols.iter().filter(|c| c.ty == ty).cloned().collect()
}
fn and_all(v: Vec<E>) -> Option<E> {
    let mut it = v.into_iter();
    let first = it.next()?;
    Some(it.fold(first, |a, b| bin(BinOp::And, a, b)))
}
fn ex(e: E) -> Item {
    Item::Expr { e, alias: None }
}
fn flip(op: BinOp) -> BinOp {
    match op {
        BinOp::Lt => BinOp::Gt,
        BinOp::Gt => BinOp::Lt,
        BinOp::Le => BinOp::Ge,
        BinOp::Ge => BinOp::Le,
        o => o,
    }
}
const CMPS: &[BinOp] = &[BinOp::Eq, BinOp::Ne, BinOp::Lt, BinOp::Le, BinOp::Gt, BinOp::Ge];

struct Gen<'a> {
    rng: &'a mut Rng,
    specs: &'a [TableSpec],
    nrows: Vec<usize>,
    style: Style,
    n_alias: usize,
    n_col: usize,
    used: Vec<usize>,
}

impl<'a> Gen<'a> {
    fn from_table(&mut self) -> Option<(FromItem, Lvl, usize)> {
        let once = matches!(self.style, Style::Bare | Style::TableQual);
        let cands: Vec<usize> = (0..self.specs.len()).filter(|i| !(once && self.used.contains(i))).collect();
        if cands.is_empty() {
            return None;
        }
        let ti = *self.rng.pick(&cands);
        self.used.push(ti);
        let specs: &'a [TableSpec] = self.specs;
        let spec = &specs[ti];
        let alias = match self.style {
            Style::Aliased | Style::Mixed => {
                self.n_alias += 1;
                Some(format!("q{}", self.n_alias))
            }
            _ => None,
        };
        let qual = alias.clone().unwrap_or_else(|| spec.name.clone());
        let mk = |q: bool| -> Vec<ScopeCol> { spec.col_names().into_iter().zip(spec.col_types()).map(|(name, ty)| ScopeCol { tbl: if q { Some(qual.clone()) } else { None }, name, ty }).collect() };
        let (lq, oq) = match self.style {
            Style::Bare => (false, false),
            Style::TableQual | Style::Aliased => (true, true),
            Style::Mixed => (false, true),
        };
        Some((FromItem::Table { name: spec.name.clone(), alias }, Lvl { local: mk(lq), outer: mk(oq) }, ti))
    }

    fn lit_for(&mut self, ty: Ty) -> E {
        E::Lit(match ty {
            Ty::Int => V::Int(self.rng.range(0, 4)),
            Ty::Float => V::Float(self.rng.range(0, 8) as f64 / 4.0),
            Ty::Text => V::Text(self.rng.pick(TEXTS).to_string()),
            Ty::Bool => V::Bool(self.rng.chance(1, 2)),
        })
    }

    /// simple predicate over one column
    fn atom(&mut self, cols: &[ScopeCol]) -> E {
        let c = self.rng.pick(cols).clone();
        let r = self.rng.below(100);
        if r < 12 {
            return E::IsNull(Box::new(ce(&c)), self.rng.chance(1, 2));
        }
        let cmp = *self.rng.pick(CMPS);
        match c.ty {
            Ty::Int if c.name == "id" => bin(cmp, ce(&c), E::Lit(V::Int(self.rng.range(1, 8)))),
            Ty::Int | Ty::Text if r < 30 => {
                let n = self.rng.usize(1, 3);
                let l: Vec<E> = (0..n).map(|_| self.lit_for(c.ty)).collect();
                E::InList(Box::new(ce(&c)), l, self.rng.chance(1, 3))
            }
            Ty::Int if r < 42 => {
                let lo = self.rng.range(0, 3);
                let hi = lo + self.rng.range(0, 3);
                E::Between(Box::new(ce(&c)), Box::new(E::Lit(V::Int(lo))), Box::new(E::Lit(V::Int(hi))), self.rng.chance(1, 4))
            }
            Ty::Bool => bin(BinOp::Eq, ce(&c), E::Lit(V::Bool(self.rng.chance(1, 2)))),
            ty => {
                let l = self.lit_for(ty);
                bin(cmp, ce(&c), l)
            }
        }
    }

    fn local_pred(&mut self, cols: &[ScopeCol]) -> E {
        let r = self.rng.below(100);
        if r < 60 {
            self.atom(cols)
        } else if r < 78 {
            let (a, b) = (self.atom(cols), self.atom(cols));
            bin(BinOp::And, a, b)
        } else if r < 92 {
            let (a, b) = (self.atom(cols), self.atom(cols));
            bin(BinOp::Or, a, b)
        } else {
            E::Not(Box::new(self.atom(cols)))
        }
    }

    /// correlation predicate between an inner level and one of the enclosing levels
    fn corr(&mut self, inner: &[ScopeCol], stack: &[Lvl]) -> Option<E> {
        if stack.is_empty() {
            return None;
        }
        let li = if stack.len() > 1 && self.rng.chance(1, 4) { self.rng.usize(0, stack.len() - 2) } else { stack.len() - 1 };
        let ty = if self.rng.chance(2, 3) { Ty::Int } else { Ty::Text };
        let ic = of_ty(inner, ty);
        let oc = of_ty(&stack[li].outer, ty);
        if ic.is_empty() || oc.is_empty() {
            return None;
        }
        let a = ce(self.rng.pick(&ic));
        let b = ce(self.rng.pick(&oc));
        let op = if self.rng.chance(3, 4) { BinOp::Eq } else { *self.rng.pick(&[BinOp::Lt, BinOp::Gt, BinOp::Ne, BinOp::Le]) };
        Some(if self.rng.chance(1, 2) { bin(op, a, b) } else { bin(flip(op), b, a) })
    }

    /// WHERE clause of a subquery: optional correlation, optional local filter, optional nested subquery predicate
    fn inner_where(&mut self, stack: &mut Vec<Lvl>, lvl: &Lvl, depth_left: u32, p_corr: u64, p_local: u64) -> Option<E> {
        let mut conj = vec![];
        if self.rng.below(100) < p_corr {
            if let Some(c) = self.corr(&lvl.local, &stack[..]) {
                conj.push(c);
            }
        }
        if self.rng.below(100) < p_local {
            conj.push(self.local_pred(&lvl.local));
        }
        if depth_left > 0 && self.rng.chance(2, 5) {
            stack.push(lvl.clone());
            if let Some(p) = self.subq_pred(stack, depth_left - 1) {
                conj.push(p);
            }
            stack.pop();
        }
        if conj.len() > 1 && self.rng.chance(1, 2) {
            conj.reverse();
        }
        and_all(conj)
    }

    fn pick_setop(&mut self) -> (SetKind, bool) {
        *self.rng.pick(&[
            (SetKind::Union, false),
            (SetKind::Union, false),
            (SetKind::Union, true),
            (SetKind::Union, true),
            (SetKind::Intersect, false),
            (SetKind::Intersect, false),
            (SetKind::Except, false),
            (SetKind::Except, false),
            (SetKind::Intersect, true),
            (SetKind::Except, true),
        ])
    }

    /// subquery predicate for the level on top of `stack`
    fn subq_pred(&mut self, stack: &mut Vec<Lvl>, depth_left: u32) -> Option<E> {
        let r = self.rng.below(100);
        if r < 23 {
            self.in_sub(stack, depth_left, false)
        } else if r < 48 {
            self.in_sub(stack, depth_left, true)
        } else if r < 64 {
            self.exists(stack, depth_left, false)
        } else if r < 80 {
            self.exists(stack, depth_left, true)
        } else {
            self.scalar_cmp(stack, depth_left)
        }
    }

    fn in_sub(&mut self, stack: &mut Vec<Lvl>, depth_left: u32, neg: bool) -> Option<E> {
        let cur = stack.last().unwrap().clone();
        let ty = if self.rng.chance(3, 5) { Ty::Int } else { Ty::Text };
        let r = self.rng.below(100);
        let lc = of_ty(&cur.local, ty);
        let left = if r < 86 && !lc.is_empty() {
            ce(self.rng.pick(&lc))
        } else if r < 95 {
            self.lit_for(ty)
        } else {
            E::Lit(V::Null)
        };
        let q = self.one_col_query(stack, depth_left, ty)?;
        Some(E::InSub(Box::new(left), Box::new(q), neg))
    }

    /// a query producing one column of type `ty`
    fn one_col_query(&mut self, stack: &mut Vec<Lvl>, depth_left: u32, ty: Ty) -> Option<Query> {
        let r = self.rng.below(100);
        if r < 7 {
            let a = self.one_col_select(stack, depth_left, ty, false)?;
            let b = self.one_col_select(stack, depth_left, ty, false)?;
            let (kind, all) = self.pick_setop();
            return Some(Query::SetOp { kind, all, left: Box::new(Query::Select(a)), right: Box::new(Query::Select(b)), order_by: vec![], limit: None, offset: None });
        }
        Some(Query::Select(self.one_col_select(stack, depth_left, ty, r < 16)?))
    }

    fn one_col_select(&mut self, stack: &mut Vec<Lvl>, depth_left: u32, ty: Ty, agg: bool) -> Option<Select> {
        let (from, lvl) = if depth_left > 0 && self.rng.chance(1, 8) {
            self.derived_item(depth_left - 1)?
        } else {
            let (f, l, _) = self.from_table()?;
            (f, l)
        };
        let cands = of_ty(&lvl.local, ty);
        if cands.is_empty() {
            return None;
        }
        let c = self.rng.pick(&cands).clone();
        let where_ = self.inner_where(stack, &lvl, depth_left, 45, 50);
        if agg {
            let g = self.rng.pick(&lvl.local).clone();
            let f = *self.rng.pick(&[AggFn::Max, AggFn::Min]);
            return Some(Select { items: vec![ex(E::Agg(f, Some(Box::new(ce(&c)))))], from: vec![from], where_, group_by: vec![ce(&g)], ..Default::default() });
        }
        Some(Select { distinct: self.rng.chance(1, 10), items: vec![ex(ce(&c))], from: vec![from], where_, ..Default::default() })
    }

    fn exists(&mut self, stack: &mut Vec<Lvl>, depth_left: u32, neg: bool) -> Option<E> {
        let (from, lvl, _) = self.from_table()?;
        let where_ = self.inner_where(stack, &lvl, depth_left, 65, 45);
        let r = self.rng.below(100);
        let items = if r < 50 {
            vec![ex(E::Lit(V::Int(1)))]
        } else if r < 75 {
            vec![Item::Star]
        } else {
            vec![ex(ce(self.rng.pick(&lvl.local)))]
        };
        Some(E::Exists(Box::new(Query::Select(Select { items, from: vec![from], where_, ..Default::default() })), neg))
    }

    /// scalar subquery and the type class of its value
    fn scalar(&mut self, stack: &mut Vec<Lvl>, depth_left: u32, want: Option<Ty>) -> Option<(E, Ty)> {
        let (from, lvl, ti) = self.from_table()?;
        let r = self.rng.below(100);
        // MIN/MAX over text, COUNT(col), SUM, AVG are C16's subject: kept rare here
        if r < 45 && !(want == Some(Ty::Text) && r >= 8) {
            // aggregate without GROUP BY: exactly one row
            let mut opts: Vec<(AggFn, Option<ScopeCol>, Ty)> = vec![];
            for c in &lvl.local {
                let not_id = c.name != "id";
                match c.ty {
                    Ty::Int => {
                        if want.is_none() || want == Some(Ty::Int) {
                            opts.push((AggFn::Count, Some(c.clone()), Ty::Int));
                            for _ in 0..3 {
                                opts.push((AggFn::Max, Some(c.clone()), Ty::Int));
                                opts.push((AggFn::Min, Some(c.clone()), Ty::Int));
                            }
                            if not_id {
                                opts.push((AggFn::Sum, Some(c.clone()), Ty::Int));
                            }
                        }
                        if want == Some(Ty::Float) && not_id {
                            opts.push((AggFn::Avg, Some(c.clone()), Ty::Float));
                        }
                    }
                    Ty::Float => {
                        if want.is_none() || want == Some(Ty::Float) {
                            opts.push((AggFn::Max, Some(c.clone()), Ty::Float));
                            opts.push((AggFn::Min, Some(c.clone()), Ty::Float));
                            opts.push((AggFn::Avg, Some(c.clone()), Ty::Float));
                        }
                    }
                    Ty::Text => {
                        if want.is_none() || want == Some(Ty::Text) {
                            opts.push((AggFn::Max, Some(c.clone()), Ty::Text));
                            opts.push((AggFn::Min, Some(c.clone()), Ty::Text));
                        }
                        if want.is_none() || want == Some(Ty::Int) {
                            opts.push((AggFn::Count, Some(c.clone()), Ty::Int));
                        }
                    }
                    Ty::Bool => {}
                }
            }
            if want.is_none() || want == Some(Ty::Int) {
                for _ in 0..10 {
                    opts.push((AggFn::CountStar, None, Ty::Int));
                }
            }
            if opts.is_empty() {
                return None;
            }
            let (f, c, ty) = self.rng.pick(&opts).clone();
            let where_ = self.inner_where(stack, &lvl, depth_left, 60, 40);
            let sel = Select { items: vec![ex(E::Agg(f, c.map(|c| Box::new(ce(&c)))))], from: vec![from], where_, ..Default::default() };
            return Some((E::Scalar(Box::new(Query::Select(sel))), ty));
        }
        let ty = want.unwrap_or(if self.rng.chance(1, 2) { Ty::Int } else { Ty::Text });
        let cands = of_ty(&lvl.local, ty);
        if cands.is_empty() {
            return None;
        }
        let c = self.rng.pick(&cands).clone();
        let where_ = if r < 80 {
            // lookup by primary key: zero or one row
            let id = lvl.local.iter().find(|c| c.name == "id")?.clone();
            let outer_ints: Vec<ScopeCol> = stack.iter().flat_map(|l| of_ty(&l.outer, Ty::Int)).collect();
            let k = self.rng.below(100);
            let key = if k < 50 && !outer_ints.is_empty() {
                ce(self.rng.pick(&outer_ints))
            } else if k < 95 {
                E::Lit(V::Int(self.rng.range(0, self.nrows[ti] as i64 + 2)))
            } else {
                E::Lit(V::Null)
            };
            Some(bin(BinOp::Eq, ce(&id), key))
        } else {
            // arbitrary filter: zero, one or several rows (several: an error is expected)
            self.inner_where(stack, &lvl, depth_left, 50, 85)
        };
        let sel = Select { items: vec![ex(ce(&c))], from: vec![from], where_, ..Default::default() };
        Some((E::Scalar(Box::new(Query::Select(sel))), ty))
    }

    fn scalar_cmp(&mut self, stack: &mut Vec<Lvl>, depth_left: u32) -> Option<E> {
        let cur = stack.last().unwrap().clone();
        let has_float = !of_ty(&cur.local, Ty::Float).is_empty();
        let r = self.rng.below(100);
        let ty = if r < 60 {
            Ty::Int
        } else if r < 85 || !has_float {
            Ty::Text
        } else {
            Ty::Float
        };
        let lc = of_ty(&cur.local, ty);
        let left = if !lc.is_empty() && self.rng.chance(9, 10) { ce(self.rng.pick(&lc)) } else { self.lit_for(ty) };
        let (s, _) = self.scalar(stack, depth_left, Some(ty))?;
        let op = *self.rng.pick(CMPS);
        Some(if self.rng.chance(4, 5) { bin(op, left, s) } else { bin(flip(op), s, left) })
    }

    fn new_col(&mut self) -> String {
        self.n_col += 1;
        format!("c{}", self.n_col)
    }

    fn agg_item(&mut self, cols: &[ScopeCol]) -> (E, Ty) {
        // mostly COUNT(*) and MIN/MAX over numbers: the other aggregates are C16's subject and are kept rare here
        let r = self.rng.below(100);
        if r < 45 {
            return (E::Agg(AggFn::CountStar, None), Ty::Int);
        }
        let nums: Vec<ScopeCol> = cols.iter().filter(|c| matches!(c.ty, Ty::Int | Ty::Float)).cloned().collect();
        if r < 85 && !nums.is_empty() {
            let c = self.rng.pick(&nums).clone();
            return (E::Agg(if self.rng.chance(1, 2) { AggFn::Min } else { AggFn::Max }, Some(Box::new(ce(&c)))), c.ty);
        }
        let c = self.rng.pick(cols).clone();
        let col = Some(Box::new(ce(&c)));
        if r < 90 {
            return (E::Agg(AggFn::Count, col), Ty::Int);
        }
        match c.ty {
            Ty::Int if r < 95 && c.name != "id" => (E::Agg(AggFn::Sum, col), Ty::Int),
            Ty::Float if r < 95 => (E::Agg(AggFn::Sum, col), Ty::Float),
            Ty::Float | Ty::Int if r < 97 && c.name != "id" => (E::Agg(AggFn::Avg, col), Ty::Float),
            ty => (E::Agg(if self.rng.chance(1, 2) { AggFn::Min } else { AggFn::Max }, col), ty),
        }
    }

    /// a derived table: FROM item + the columns it exposes
    fn derived_item(&mut self, depth_left: u32) -> Option<(FromItem, Lvl)> {
        let (src, lvl) = if depth_left > 0 && self.rng.chance(1, 3) {
            self.derived_item(depth_left - 1)?
        } else {
            let (f, l, _) = self.from_table()?;
            (f, l)
        };
        self.n_alias += 1;
        let alias = format!("d{}", self.n_alias);
        let always_qualified = matches!(self.style, Style::Aliased | Style::TableQual);
        let kind = self.rng.below(100);
        let mut out: Vec<(String, Ty)> = vec![];
        let mut sel = Select { from: vec![src], ..Default::default() };
        let non_id: Vec<ScopeCol> = lvl.local.iter().filter(|c| c.name != "id").cloned().collect();
        let non_id = if non_id.is_empty() { lvl.local.clone() } else { non_id };
        if kind < 45 {
            // projection + filter
            let mut cs = lvl.local.clone();
            self.rng.shuffle(&mut cs);
            let n = self.rng.usize(1, 3).min(cs.len());
            for c in cs.into_iter().take(n) {
                if always_qualified && self.rng.chance(1, 4) {
                    out.push((c.name.clone(), c.ty));
                    sel.items.push(ex(ce(&c)));
                } else {
                    let a = self.new_col();
                    out.push((a.clone(), c.ty));
                    sel.items.push(Item::Expr { e: ce(&c), alias: Some(a) });
                }
            }
            let mut conj = vec![];
            if self.rng.chance(7, 10) {
                conj.push(self.local_pred(&lvl.local));
            }
            if depth_left > 0 && self.rng.chance(1, 4) {
                let mut st = vec![lvl.clone()];
                if let Some(p) = self.subq_pred(&mut st, depth_left - 1) {
                    conj.push(p);
                }
            }
            sel.where_ = and_all(conj);
            sel.distinct = self.rng.chance(1, 10);
            if !sel.distinct && self.rng.chance(1, 12) {
                if let Some(id) = lvl.local.iter().find(|c| c.name == "id") {
                    sel.order_by = vec![OrderKey::Expr(ce(id), self.rng.chance(1, 3))];
                    sel.limit = Some(self.rng.range(1, 6) as u64);
                }
            }
        } else if kind < 80 {
            // GROUP BY one column with aggregates
            let g = self.rng.pick(&non_id).clone();
            let a = self.new_col();
            out.push((a.clone(), g.ty));
            sel.items.push(Item::Expr { e: ce(&g), alias: Some(a) });
            for _ in 0..self.rng.usize(1, 2) {
                let (e, ty) = self.agg_item(&lvl.local);
                let a = self.new_col();
                out.push((a.clone(), ty));
                sel.items.push(Item::Expr { e, alias: Some(a) });
            }
            sel.group_by = vec![ce(&g)];
            if self.rng.chance(2, 5) {
                sel.where_ = Some(self.local_pred(&lvl.local));
            }
            if self.rng.chance(3, 20) {
                sel.having = Some(bin(*self.rng.pick(&[BinOp::Gt, BinOp::Ge, BinOp::Eq]), E::Agg(AggFn::CountStar, None), E::Lit(V::Int(self.rng.range(1, 2)))));
            }
        } else if kind < 90 {
            // aggregate without GROUP BY: one row
            for _ in 0..self.rng.usize(1, 2) {
                let (e, ty) = self.agg_item(&lvl.local);
                let a = self.new_col();
                out.push((a.clone(), ty));
                sel.items.push(Item::Expr { e, alias: Some(a) });
            }
            if self.rng.chance(3, 5) {
                sel.where_ = Some(self.local_pred(&lvl.local));
            }
        } else {
            // DISTINCT projection
            sel.distinct = true;
            let mut cs = non_id.clone();
            self.rng.shuffle(&mut cs);
            let n = self.rng.usize(1, 2).min(cs.len());
            for c in cs.into_iter().take(n) {
                let a = self.new_col();
                out.push((a.clone(), c.ty));
                sel.items.push(Item::Expr { e: ce(&c), alias: Some(a) });
            }
        }
        Some((FromItem::Sub { query: Box::new(Query::Select(sel)), alias: alias.clone() }, self.derived_lvl(&alias, out)))
    }

    fn derived_lvl(&self, alias: &str, out: Vec<(String, Ty)>) -> Lvl {
        let (lq, oq) = match self.style {
            Style::Bare => (false, false),
            Style::TableQual | Style::Aliased => (true, true),
            Style::Mixed => (false, true),
        };
        let mk = |q: bool| -> Vec<ScopeCol> { out.iter().map(|(n, ty)| ScopeCol { tbl: if q { Some(alias.to_string()) } else { None }, name: n.clone(), ty: *ty }).collect() };
        Lvl { local: mk(lq), outer: mk(oq) }
    }

    // ---- outer statements ----

    /// SELECT .. FROM o WHERE <subquery predicates>
    fn q_filter(&mut self, depth: u32) -> Option<Query> {
        let (from, lvl, _) = self.from_table()?;
        let mut stack = vec![lvl.clone()];
        let p1 = self.subq_pred(&mut stack, depth - 1)?;
        let r = self.rng.below(100);
        let where_ = if r < 40 {
            p1
        } else if r < 70 {
            let l = self.local_pred(&lvl.local);
            if self.rng.chance(1, 2) {
                bin(BinOp::And, l, p1)
            } else {
                bin(BinOp::And, p1, l)
            }
        } else if r < 80 {
            match self.subq_pred(&mut stack, 0) {
                Some(p2) => bin(BinOp::And, p1, p2),
                None => p1,
            }
        } else if r < 92 {
            let l = self.local_pred(&lvl.local);
            bin(BinOp::Or, l, p1)
        } else {
            E::Not(Box::new(p1))
        };
        let mut sel = Select { from: vec![from], where_: Some(where_), ..Default::default() };
        let id = lvl.local.iter().find(|c| c.name == "id").cloned();
        let others: Vec<ScopeCol> = lvl.local.iter().filter(|c| c.name != "id").cloned().collect();
        let r = self.rng.below(100);
        if r < 40 || id.is_none() {
            sel.items = vec![Item::Star];
        } else if r < 86 {
            sel.items = vec![ex(ce(id.as_ref().unwrap()))];
            let mut cs = others.clone();
            self.rng.shuffle(&mut cs);
            for c in cs.into_iter().take(self.rng.usize(0, 2)) {
                sel.items.push(ex(ce(&c)));
            }
            if self.rng.chance(1, 4) {
                sel.order_by = vec![OrderKey::Expr(ce(id.as_ref().unwrap()), self.rng.chance(1, 3))];
                if self.rng.chance(1, 3) {
                    sel.limit = Some(self.rng.range(1, 4) as u64);
                    if self.rng.chance(1, 4) {
                        sel.offset = Some(self.rng.range(1, 2) as u64);
                    }
                }
            }
        } else {
            sel.items = vec![ex(ce(self.rng.pick(&others)))];
            sel.distinct = self.rng.chance(1, 3);
        }
        Some(Query::Select(sel))
    }

    /// SELECT id, (subquery) .. FROM o
    fn q_select_list(&mut self, depth: u32) -> Option<Query> {
        let (from, lvl, _) = self.from_table()?;
        let mut stack = vec![lvl.clone()];
        let id = lvl.local.iter().find(|c| c.name == "id")?.clone();
        let mut sel = Select { from: vec![from], items: vec![ex(ce(&id))], ..Default::default() };
        if self.rng.chance(1, 3) {
            let others: Vec<ScopeCol> = lvl.local.iter().filter(|c| c.name != "id").cloned().collect();
            sel.items.push(ex(ce(self.rng.pick(&others))));
        }
        let n = if self.rng.chance(1, 5) { 2 } else { 1 };
        for _ in 0..n {
            let r = self.rng.below(100);
            let e = if r < 76 {
                let (s, ty) = self.scalar(&mut stack, depth - 1, None)?;
                let w = self.rng.below(100);
                if w < 12 {
                    let l = self.lit_for(ty);
                    E::Func("COALESCE".into(), vec![s, l])
                } else if w < 20 && ty == Ty::Int {
                    bin(BinOp::Add, s, E::Lit(V::Int(1)))
                } else {
                    s
                }
            } else if r < 89 {
                let neg = self.rng.chance(1, 2);
                self.in_sub(&mut stack, depth - 1, neg)?
            } else {
                let neg = self.rng.chance(1, 2);
                self.exists(&mut stack, depth - 1, neg)?
            };
            let alias = if self.rng.chance(1, 2) { Some(self.new_col()) } else { None };
            sel.items.push(Item::Expr { e, alias });
        }
        if self.rng.chance(3, 10) {
            sel.where_ = Some(self.local_pred(&lvl.local));
        }
        if self.rng.chance(1, 5) {
            sel.order_by = vec![OrderKey::Expr(ce(&id), self.rng.chance(1, 3))];
        }
        Some(Query::Select(sel))
    }

    /// SELECT .. FROM (SELECT ..) AS d ..
    fn q_derived(&mut self, depth: u32) -> Option<Query> {
        let r = self.rng.below(100);
        if r < 8 {
            // derived table over a set operation
            let tys: Vec<Ty> = if self.rng.chance(1, 2) { vec![Ty::Int] } else { vec![Ty::Int, Ty::Text] };
            let a = self.setop_branch(&tys, 1)?;
            let b = self.setop_branch(&tys, 1)?;
            let (kind, all) = self.pick_setop();
            let names: Vec<(String, Ty)> = a.items.iter().zip(tys.iter()).filter_map(|(it, ty)| if let Item::Expr { e: E::Col { name, .. }, .. } = it { Some((name.clone(), *ty)) } else { None }).collect();
            self.n_alias += 1;
            let alias = format!("d{}", self.n_alias);
            let dl = self.derived_lvl(&alias, names);
            let q = Query::SetOp { kind, all, left: Box::new(Query::Select(a)), right: Box::new(Query::Select(b)), order_by: vec![], limit: None, offset: None };
            let mut sel = Select { items: vec![Item::Star], from: vec![FromItem::Sub { query: Box::new(q), alias }], ..Default::default() };
            if self.rng.chance(2, 5) {
                sel.where_ = Some(self.atom(&dl.local));
            }
            return Some(Query::Select(sel));
        }
        let (d, dl) = self.derived_item(depth - 1)?;
        if r < 26 {
            // base table joined with the derived table
            let (from, lvl, _) = self.from_table()?;
            let ty = if !of_ty(&dl.local, Ty::Int).is_empty() && self.rng.chance(3, 4) { Ty::Int } else { Ty::Text };
            let (bc, dc) = (of_ty(&lvl.local, ty), of_ty(&dl.local, ty));
            if bc.is_empty() || dc.is_empty() {
                return None;
            }
            let on = bin(BinOp::Eq, ce(self.rng.pick(&bc)), ce(self.rng.pick(&dc)));
            let kind = if self.rng.chance(7, 10) { JoinKind::Inner } else { JoinKind::Left };
            let id = lvl.local.iter().find(|c| c.name == "id")?.clone();
            let mut items = vec![ex(ce(&id))];
            for c in &dl.local {
                items.push(ex(ce(c)));
            }
            let mut sel = Select { items, from: vec![from], joins: vec![Join { kind, item: d, on: Some(on) }], ..Default::default() };
            if self.rng.chance(3, 10) {
                sel.where_ = Some(self.atom(&lvl.local));
            }
            return Some(Query::Select(sel));
        }
        if r < 38 {
            // aggregate over the derived table
            let mut items = vec![ex(E::Agg(AggFn::CountStar, None))];
            let (e, _) = self.agg_item(&dl.local);
            items.push(ex(e));
            return Some(Query::Select(Select { items, from: vec![d], ..Default::default() }));
        }
        let mut sel = Select { from: vec![d], ..Default::default() };
        let explicit = self.rng.chance(7, 10);
        if explicit {
            let mut cs = dl.local.clone();
            if cs.len() > 1 && self.rng.chance(1, 3) {
                cs.pop();
            }
            sel.items = cs.iter().map(|c| ex(ce(c))).collect();
        } else {
            sel.items = vec![Item::Star];
        }
        let w = self.rng.below(100);
        if w < 50 {
            sel.where_ = Some(self.local_pred(&dl.local));
        } else if w < 62 && depth > 1 {
            let mut st = vec![dl.clone()];
            sel.where_ = self.subq_pred(&mut st, 0);
        }
        if explicit && self.rng.chance(1, 5) {
            sel.order_by = vec![OrderKey::Expr(ce(&dl.local[0]), self.rng.chance(1, 3))];
        }
        Some(Query::Select(sel))
    }

    fn setop_branch(&mut self, tys: &[Ty], depth: u32) -> Option<Select> {
        self.used.clear();
        let (from, lvl) = if depth > 1 && self.rng.chance(1, 10) {
            self.derived_item(depth - 2)?
        } else {
            let (f, l, _) = self.from_table()?;
            (f, l)
        };
        let mut items = vec![];
        let mut taken: Vec<String> = vec![];
        for ty in tys {
            let cands: Vec<ScopeCol> = of_ty(&lvl.local, *ty).into_iter().filter(|c| !taken.contains(&c.name)).collect();
            if cands.is_empty() {
                return None;
            }
            let c = self.rng.pick(&cands).clone();
            taken.push(c.name.clone());
            items.push(ex(ce(&c)));
        }
        let r = self.rng.below(100);
        let where_ = if r < 50 {
            Some(self.local_pred(&lvl.local))
        } else if r < 58 && depth > 1 {
            let mut st = vec![lvl.clone()];
            self.subq_pred(&mut st, depth - 2)
        } else {
            None
        };
        Some(Select { distinct: self.rng.chance(1, 16), items, from: vec![from], where_, ..Default::default() })
    }

    fn q_setop(&mut self, depth: u32) -> Option<Query> {
        let r = self.rng.below(100);
        let tys: Vec<Ty> = if r < 35 {
            vec![Ty::Int]
        } else if r < 60 {
            vec![Ty::Text]
        } else if r < 85 {
            vec![Ty::Int, Ty::Text]
        } else {
            vec![Ty::Int, Ty::Int]
        };
        let a = self.setop_branch(&tys, depth)?;
        let b = self.setop_branch(&tys, depth)?;
        let first_name = match &a.items[0] {
            Item::Expr { e: E::Col { name, .. }, .. } => name.clone(),
            _ => return None,
        };
        let (k1, all1) = self.pick_setop();
        let mut left = Query::SetOp { kind: k1, all: all1, left: Box::new(Query::Select(a)), right: Box::new(Query::Select(b)), order_by: vec![], limit: None, offset: None };
        if self.rng.chance(3, 10) {
            // second operation, only where the flat rendering has one reading under the standard precedence
            // (INTERSECT binds tighter, otherwise left to right)
            let c = self.setop_branch(&tys, depth)?;
            let (k2, all2) = loop {
                let (k, a) = self.pick_setop();
                if k != SetKind::Intersect || k1 == SetKind::Intersect {
                    break (k, a);
                }
            };
            left = Query::SetOp { kind: k2, all: all2, left: Box::new(left), right: Box::new(Query::Select(c)), order_by: vec![], limit: None, offset: None };
        }
        if let Query::SetOp { order_by, limit, offset, .. } = &mut left {
            if self.rng.chance(3, 10) {
                let n = tys.len();
                let k = self.rng.below(100);
                let all_cols;
                if k < 50 {
                    for i in 0..n {
                        order_by.push(OrderKey::Ordinal(i + 1, self.rng.chance(3, 10)));
                    }
                    all_cols = true;
                } else if k < 75 {
                    order_by.push(OrderKey::Ordinal(1, self.rng.chance(3, 10)));
                    all_cols = n == 1;
                } else {
                    order_by.push(OrderKey::Expr(E::Col { tbl: None, name: first_name }, self.rng.chance(3, 10)));
                    all_cols = n == 1;
                }
                if all_cols && self.rng.chance(2, 5) {
                    *limit = Some(self.rng.range(1, 5) as u64);
                    if self.rng.chance(1, 5) {
                        *offset = Some(self.rng.range(1, 2) as u64);
                    }
                }
            }
        }
        Some(left)
    }
}

/// one generated statement: (query, family, style)
fn gen_query(rng: &mut Rng, specs: &[TableSpec], nrows: &[usize]) -> Option<(Query, &'static str)> {
    let style = match rng.below(100) {
        0..=29 => Style::Bare,
        30..=44 => Style::TableQual,
        45..=74 => Style::Aliased,
        _ => Style::Mixed,
    };
    let depth = match rng.below(100) {
        0..=54 => 1,
        55..=84 => 2,
        _ => 3,
    };
    let fam = rng.below(100);
    let mut g = Gen { rng, specs, nrows: nrows.to_vec(), style, n_alias: 0, n_col: 0, used: vec![] };
    if fam < 38 {
        g.q_filter(depth).map(|q| (q, "filter"))
    } else if fam < 55 {
        g.q_select_list(depth).map(|q| (q, "select_list"))
    } else if fam < 75 {
        g.q_derived(depth).map(|q| (q, "derived"))
    } else {
        g.q_setop(depth).map(|q| (q, "setop"))
    }
}

// ---------------------------------------------------------------------------------------------
// traversal helpers
// ---------------------------------------------------------------------------------------------

/// direct subqueries of an expression (not the ones nested inside them)
fn each_subquery(e: &E, f: &mut dyn FnMut(&Query)) {
    match e {
        E::InSub(l, q, _) => {
            each_subquery(l, f);
            f(q);
        }
        E::Exists(q, _) | E::Scalar(q) => f(q),
        E::Neg(x) | E::Not(x) | E::IsNull(x, _) => each_subquery(x, f),
        E::Bin(_, a, b) | E::Like(a, b, _) => {
            each_subquery(a, f);
            each_subquery(b, f);
        }
        E::InList(x, l, _) => {
            each_subquery(x, f);
            for y in l {
                each_subquery(y, f);
            }
        }
        E::Between(x, a, b, _) => {
            each_subquery(x, f);
            each_subquery(a, f);
            each_subquery(b, f);
        }
        E::Case { whens, els } => {
            for (w, t) in whens {
                each_subquery(w, f);
                each_subquery(t, f);
            }
            if let Some(x) = els {
                each_subquery(x, f);
            }
        }
        E::Func(_, args) => {
            for x in args {
                each_subquery(x, f);
            }
        }
        E::Agg(_, Some(x)) => each_subquery(x, f),
        _ => {}
    }
}

fn select_exprs(s: &Select) -> Vec<&E> {
    let mut v: Vec<&E> = vec![];
    for it in &s.items {
        if let Item::Expr { e, .. } = it {
            v.push(e);
        }
    }
    v.extend(s.where_.iter());
    v.extend(s.having.iter());
    v.extend(s.group_by.iter());
    for j in &s.joins {
        v.extend(j.on.iter());
    }
    for k in &s.order_by {
        if let OrderKey::Expr(e, _) = k {
            v.push(e);
        }
    }
    v
}

/// every SELECT block anywhere in the query
fn each_select(q: &Query, f: &mut dyn FnMut(&Select)) {
    match q {
        Query::Select(s) => {
            f(s);
            for it in s.from.iter().chain(s.joins.iter().map(|j| &j.item)) {
                if let FromItem::Sub { query, .. } = it {
                    each_select(query, f);
                }
            }
            for e in select_exprs(s) {
                each_subquery(e, &mut |q| each_select(q, f));
            }
        }
        Query::SetOp { left, right, .. } => {
            each_select(left, f);
            each_select(right, f);
        }
    }
}

fn tables_used(q: &Query) -> Vec<String> {
    let mut v = vec![];
    each_select(q, &mut |s| {
        for it in s.from.iter().chain(s.joins.iter().map(|j| &j.item)) {
            if let FromItem::Table { name, .. } = it {
                v.push(name.clone());
            }
        }
    });
    v
}

fn mut_expr(e: &mut E, fe: &mut dyn FnMut(&mut E), ff: &mut dyn FnMut(&mut FromItem)) {
    fe(e);
    match e {
        E::InSub(l, q, _) => {
            mut_expr(l, fe, ff);
            mut_query(q, fe, ff);
        }
        E::Exists(q, _) | E::Scalar(q) => mut_query(q, fe, ff),
        E::Neg(x) | E::Not(x) | E::IsNull(x, _) => mut_expr(x, fe, ff),
        E::Bin(_, a, b) | E::Like(a, b, _) => {
            mut_expr(a, fe, ff);
            mut_expr(b, fe, ff);
        }
        E::InList(x, l, _) => {
            mut_expr(x, fe, ff);
            for y in l.iter_mut() {
                mut_expr(y, fe, ff);
            }
        }
        E::Between(x, a, b, _) => {
            mut_expr(x, fe, ff);
            mut_expr(a, fe, ff);
            mut_expr(b, fe, ff);
        }
        E::Case { whens, els } => {
            for (w, t) in whens.iter_mut() {
                mut_expr(w, fe, ff);
                mut_expr(t, fe, ff);
            }
            if let Some(x) = els {
                mut_expr(x, fe, ff);
            }
        }
        E::Func(_, args) => {
            for x in args.iter_mut() {
                mut_expr(x, fe, ff);
            }
        }
        E::Agg(_, Some(x)) => mut_expr(x, fe, ff),
        _ => {}
    }
}

fn mut_query(q: &mut Query, fe: &mut dyn FnMut(&mut E), ff: &mut dyn FnMut(&mut FromItem)) {
    match q {
        Query::Select(s) => {
            for it in s.from.iter_mut().chain(s.joins.iter_mut().map(|j| &mut j.item)) {
                ff(it);
                if let FromItem::Sub { query, .. } = it {
                    mut_query(query, fe, ff);
                }
            }
            for j in s.joins.iter_mut() {
                if let Some(on) = &mut j.on {
                    mut_expr(on, fe, ff);
                }
            }
            for it in s.items.iter_mut() {
                if let Item::Expr { e, .. } = it {
                    mut_expr(e, fe, ff);
                }
            }
            for e in s.where_.iter_mut().chain(s.having.iter_mut()).chain(s.group_by.iter_mut()) {
                mut_expr(e, fe, ff);
            }
            for k in s.order_by.iter_mut() {
                if let OrderKey::Expr(e, _) = k {
                    mut_expr(e, fe, ff);
                }
            }
        }
        Query::SetOp { left, right, order_by, .. } => {
            mut_query(left, fe, ff);
            mut_query(right, fe, ff);
            for k in order_by.iter_mut() {
                if let OrderKey::Expr(e, _) = k {
                    mut_expr(e, fe, ff);
                }
            }
        }
    }
}

/// the same statement without aliases and qualifiers; None if a base table occurs twice or nothing would change
fn strip_qualifiers(q: &Query) -> Option<Query> {
    let used = tables_used(q);
    let distinct: BTreeSet<&String> = used.iter().collect();
    if distinct.len() != used.len() {
        return None;
    }
    let mut changed = false;
    let mut q2 = q.clone();
    {
        let ch = std::cell::Cell::new(false);
        mut_query(
            &mut q2,
            &mut |e| {
                if let E::Col { tbl, .. } = e {
                    if tbl.is_some() {
                        *tbl = None;
                        ch.set(true);
                    }
                }
            },
            &mut |f| {
                if let FromItem::Table { alias, .. } = f {
                    if alias.is_some() {
                        *alias = None;
                        ch.set(true);
                    }
                }
            },
        );
        if ch.get() {
            changed = true;
        }
    }
    if changed {
        Some(q2)
    } else {
        None
    }
}

/// output column names of a query, as the model names them
fn output_names(q: &Query, specs: &[TableSpec]) -> Vec<String> {
    match q {
        Query::SetOp { left, .. } => output_names(left, specs),
        Query::Select(s) => {
            let mut v = vec![];
            for it in &s.items {
                match it {
                    Item::Star => {
                        for f in s.from.iter().chain(s.joins.iter().map(|j| &j.item)) {
                            v.extend(from_cols(f, specs).1);
                        }
                    }
                    Item::Expr { alias: Some(a), .. } => v.push(a.clone()),
                    Item::Expr { e: E::Col { name, .. }, .. } => v.push(name.clone()),
                    Item::Expr { e, .. } => v.push(e.sql()),
                }
            }
            v
        }
    }
}

fn from_cols(f: &FromItem, specs: &[TableSpec]) -> (String, Vec<String>) {
    match f {
        FromItem::Table { name, alias } => (alias.clone().unwrap_or_else(|| name.clone()), specs.iter().find(|s| s.name.eq_ignore_ascii_case(name)).map(|s| s.col_names()).unwrap_or_default()),
        FromItem::Sub { query, alias } => (alias.clone(), output_names(query, specs)),
    }
}

type Scope = Vec<(String, Vec<String>)>;

fn resolves(scopes: &[Scope], tbl: &Option<String>, name: &str) -> bool {
    scopes.iter().any(|sc| sc.iter().any(|(a, cols)| tbl.as_ref().map(|t| t.eq_ignore_ascii_case(a)).unwrap_or(true) && cols.iter().any(|c| c.eq_ignore_ascii_case(name))))
}

fn expr_free(e: &E, specs: &[TableSpec], scopes: &mut Vec<Scope>, aliases: &[String]) -> bool {
    let mut free = false;
    // column references at this level
    let mut cols: Vec<(Option<String>, String)> = vec![];
    e.visit(&mut |x| {
        if let E::Col { tbl, name } = x {
            cols.push((tbl.clone(), name.clone()));
        }
    });
    for (t, n) in cols {
        if t.is_none() && aliases.iter().any(|a| a.eq_ignore_ascii_case(&n)) {
            continue;
        }
        if !resolves(scopes, &t, &n) {
            free = true;
        }
    }
    let mut subs: Vec<Query> = vec![];
    each_subquery(e, &mut |q| subs.push(q.clone()));
    for q in subs {
        if query_free(&q, specs, scopes) {
            free = true;
        }
    }
    free
}

/// does the query reference a column that is bound outside of it (given the scopes opened since the root)?
fn query_free(q: &Query, specs: &[TableSpec], scopes: &mut Vec<Scope>) -> bool {
    match q {
        Query::SetOp { left, right, .. } => {
            let a = query_free(left, specs, scopes);
            let b = query_free(right, specs, scopes);
            a || b
        }
        Query::Select(s) => {
            let mut free = false;
            let mut sc: Scope = vec![];
            for f in s.from.iter().chain(s.joins.iter().map(|j| &j.item)) {
                if let FromItem::Sub { query, .. } = f {
                    if query_free(query, specs, scopes) {
                        free = true;
                    }
                }
                sc.push(from_cols(f, specs));
            }
            scopes.push(sc);
            let aliases: Vec<String> = s.items.iter().filter_map(|i| if let Item::Expr { alias: Some(a), .. } = i { Some(a.clone()) } else { None }).collect();
            for e in select_exprs(s) {
                if expr_free(e, specs, scopes, &aliases) {
                    free = true;
                }
            }
            scopes.pop();
            free
        }
    }
}

fn is_correlated(q: &Query, specs: &[TableSpec]) -> bool {
    query_free(q, specs, &mut vec![])
}

// ---------------------------------------------------------------------------------------------
// description of a (minimal) statement: forms + context features
// ---------------------------------------------------------------------------------------------

#[derive(Default, Debug)]
struct Desc {
    forms: BTreeSet<String>,
    ctx: BTreeSet<String>,
    max_depth: u32,
    qualified: bool,
}

fn pfx(depth: u32) -> &'static str {
    if depth == 0 {
        ""
    } else {
        "sub."
    }
}

fn desc_expr(e: &E, depth: u32, pos: &str, d: &mut Desc, specs: &[TableSpec]) {
    let p = pfx(depth);
    let sub_form = |name: &str, q: &Query| -> String {
        let mut f = if pos == "select_list" { format!("{}select_list/{}", p, name) } else { format!("{}{}", p, name) };
        if pos != "select_list" && name == "scalar_subquery" {
            f.push_str("/where");
        }
        if is_correlated(q, specs) {
            f.push_str(":correlated");
        }
        f
    };
    match e {
        E::Col { tbl, .. } => {
            if tbl.is_some() {
                d.qualified = true;
            }
        }
        E::Lit(V::Null) => {
            d.ctx.insert(format!("{}null_literal", p));
        }
        E::Lit(_) => {}
        E::Agg(f, arg) => {
            d.ctx.insert(format!("{}agg:{:?}", p, f).to_lowercase());
            if let Some(a) = arg {
                desc_expr(a, depth, pos, d, specs);
            }
        }
        E::Not(x) => {
            d.ctx.insert(format!("{}not", p));
            desc_expr(x, depth, pos, d, specs);
        }
        E::Neg(x) => desc_expr(x, depth, pos, d, specs),
        E::IsNull(x, _) => {
            d.ctx.insert(format!("{}filter", p));
            desc_expr(x, depth, pos, d, specs);
        }
        E::InList(x, l, _) => {
            d.ctx.insert(format!("{}filter", p));
            desc_expr(x, depth, pos, d, specs);
            for y in l {
                desc_expr(y, depth, pos, d, specs);
            }
        }
        E::Between(x, a, b, _) => {
            d.ctx.insert(format!("{}filter", p));
            for y in [x, a, b] {
                desc_expr(y, depth, pos, d, specs);
            }
        }
        E::Like(a, b, _) => {
            d.ctx.insert(format!("{}filter", p));
            desc_expr(a, depth, pos, d, specs);
            desc_expr(b, depth, pos, d, specs);
        }
        E::Case { whens, els } => {
            d.ctx.insert(format!("{}case", p));
            for (w, t) in whens {
                desc_expr(w, depth, pos, d, specs);
                desc_expr(t, depth, pos, d, specs);
            }
            if let Some(x) = els {
                desc_expr(x, depth, pos, d, specs);
            }
        }
        E::Func(n, args) => {
            d.ctx.insert(format!("{}fn:{}", p, n.to_lowercase()));
            for x in args {
                desc_expr(x, depth, pos, d, specs);
            }
        }
        E::Bin(op, a, b) => {
            match op {
                BinOp::And => {
                    d.ctx.insert(format!("{}and", p));
                }
                BinOp::Or => {
                    d.ctx.insert(format!("{}or", p));
                }
                o if o.is_arith() => {
                    d.ctx.insert(format!("{}arith", p));
                }
                _ => {
                    let is_sub = |x: &E| matches!(x, E::Scalar(_));
                    let is_pk = |x: &E| matches!(x, E::Col { name, .. } if name == "id");
                    if !is_sub(a) && !is_sub(b) {
                        match (&**a, &**b) {
                            (E::Col { .. }, E::Col { .. }) => {
                                d.ctx.insert(format!("{}filter", p));
                            }
                            _ if (is_pk(a) || is_pk(b)) && *op == BinOp::Eq => {
                                d.ctx.insert(format!("{}pk_eq", p));
                            }
                            _ => {
                                d.ctx.insert(format!("{}filter", p));
                            }
                        }
                    }
                }
            }
            desc_expr(a, depth, pos, d, specs);
            desc_expr(b, depth, pos, d, specs);
        }
        E::InSub(l, q, neg) => {
            d.forms.insert(sub_form(if *neg { "not_in_subquery" } else { "in_subquery" }, q));
            d.max_depth = d.max_depth.max(depth + 1);
            desc_expr(l, depth, pos, d, specs);
            desc_query(q, depth + 1, d, specs);
        }
        E::Exists(q, neg) => {
            d.forms.insert(sub_form(if *neg { "not_exists" } else { "exists" }, q));
            d.max_depth = d.max_depth.max(depth + 1);
            desc_query(q, depth + 1, d, specs);
        }
        E::Scalar(q) => {
            d.forms.insert(sub_form("scalar_subquery", q));
            d.max_depth = d.max_depth.max(depth + 1);
            desc_query(q, depth + 1, d, specs);
        }
    }
}

fn desc_query(q: &Query, depth: u32, d: &mut Desc, specs: &[TableSpec]) {
    let p = pfx(depth);
    match q {
        Query::SetOp { kind, all, left, right, order_by, limit, offset } => {
            d.forms.insert(format!("{}setop:{:?}{}", p, kind, if *all { "_all" } else { "" }).to_lowercase());
            if matches!(**left, Query::SetOp { .. }) || matches!(**right, Query::SetOp { .. }) {
                d.ctx.insert(format!("{}chain", p));
            }
            if !order_by.is_empty() {
                d.ctx.insert(format!("{}order_by", p));
                if order_by.iter().any(|k| matches!(k, OrderKey::Expr(..))) {
                    d.ctx.insert(format!("{}order_by_name", p));
                }
            }
            if limit.is_some() || offset.is_some() {
                d.ctx.insert(format!("{}limit", p));
            }
            desc_query(left, depth, d, specs);
            desc_query(right, depth, d, specs);
        }
        Query::Select(s) => {
            if s.distinct {
                d.ctx.insert(format!("{}distinct", p));
            }
            if !s.group_by.is_empty() {
                d.ctx.insert(format!("{}group_by", p));
            }
            if s.having.is_some() {
                d.ctx.insert(format!("{}having", p));
            }
            if !s.order_by.is_empty() {
                d.ctx.insert(format!("{}order_by", p));
            }
            if s.limit.is_some() || s.offset.is_some() {
                d.ctx.insert(format!("{}limit", p));
            }
            if s.items.iter().any(|i| matches!(i, Item::Star)) {
                d.ctx.insert(format!("{}star", p));
            }
            for j in &s.joins {
                d.ctx.insert(format!("{}join:{:?}", p, j.kind).to_lowercase());
            }
            for f in s.from.iter().chain(s.joins.iter().map(|j| &j.item)) {
                match f {
                    FromItem::Table { alias, .. } => {
                        if alias.is_some() {
                            d.qualified = true;
                        }
                    }
                    FromItem::Sub { query, .. } => {
                        d.forms.insert(format!("{}derived_table", p));
                        d.max_depth = d.max_depth.max(depth + 1);
                        desc_query(query, depth + 1, d, specs);
                    }
                }
            }
            for it in &s.items {
                if let Item::Expr { e, .. } = it {
                    desc_expr(e, depth, "select_list", d, specs);
                }
            }
            if let Some(w) = &s.where_ {
                desc_expr(w, depth, "where", d, specs);
            }
            if let Some(h) = &s.having {
                desc_expr(h, depth, "where", d, specs);
            }
            for g in &s.group_by {
                desc_expr(g, depth, "where", d, specs);
            }
            for j in &s.joins {
                if let Some(on) = &j.on {
                    desc_expr(on, depth, "where", d, specs);
                }
            }
        }
    }
}

fn describe(q: &Query, specs: &[TableSpec]) -> Desc {
    let mut d = Desc::default();
    desc_query(q, 0, &mut d, specs);
    if d.max_depth >= 2 {
        d.ctx.insert(format!("nest{}", d.max_depth));
    }
    d
}

// ---------------------------------------------------------------------------------------------
// data facts of a (minimal) case, evaluated in the model
// ---------------------------------------------------------------------------------------------

fn set_first_alias(q: &mut Query, a: &str) -> bool {
    match q {
        Query::SetOp { left, .. } => set_first_alias(left, a),
        Query::Select(s) => match s.items.first_mut() {
            Some(Item::Expr { alias, .. }) => {
                *alias = Some(a.to_string());
                true
            }
            _ => false,
        },
    }
}

/// subquery expressions directly inside `e` (not those nested in other subqueries)
fn direct_sub_exprs(e: &E, out: &mut Vec<E>) {
    match e {
        E::InSub(..) | E::Exists(..) | E::Scalar(..) => out.push(e.clone()),
        E::Neg(x) | E::Not(x) | E::IsNull(x, _) => direct_sub_exprs(x, out),
        E::Bin(_, a, b) => {
            direct_sub_exprs(a, out);
            direct_sub_exprs(b, out);
        }
        E::Func(_, args) => {
            for x in args {
                direct_sub_exprs(x, out);
            }
        }
        _ => {}
    }
}

fn count_scalar(sq: &Query, only_null: bool) -> E {
    let mut s = Select { items: vec![ex(E::Agg(AggFn::CountStar, None))], from: vec![FromItem::Sub { query: Box::new(sq.clone()), alias: "zz".into() }], ..Default::default() };
    if only_null {
        s.where_ = Some(E::IsNull(Box::new(E::Col { tbl: Some("zz".into()), name: "zc".into() }), false));
    }
    E::Scalar(Box::new(Query::Select(s)))
}

fn as_int(v: &V) -> i64 {
    match v {
        V::Int(i) => *i,
        _ => -1,
    }
}

fn facts(q: &Query, tables: &BTreeMap<String, MTable>) -> BTreeSet<String> {
    let mut out = BTreeSet::new();
    match q {
        Query::SetOp { .. } => {
            let mut leaves: Vec<Query> = vec![];
            fn collect(q: &Query, v: &mut Vec<Query>) {
                match q {
                    Query::SetOp { left, right, .. } => {
                        collect(left, v);
                        collect(right, v);
                    }
                    s => v.push(s.clone()),
                }
            }
            collect(q, &mut leaves);
            for l in &leaves {
                if let Ok(m) = run_model(l, tables) {
                    if m.rows.iter().any(|r| r.iter().any(|v| v.is_null())) {
                        out.insert("null_rows".to_string());
                    }
                    let keys: BTreeSet<String> = m.rows.iter().map(|r| row_key(r, true)).collect();
                    if keys.len() < m.rows.len() {
                        out.insert("dup_rows".to_string());
                    }
                }
            }
        }
        Query::Select(s) => {
            let mut subs: Vec<E> = vec![];
            for it in &s.items {
                if let Item::Expr { e, .. } = it {
                    direct_sub_exprs(e, &mut subs);
                }
            }
            if let Some(w) = &s.where_ {
                direct_sub_exprs(w, &mut subs);
            }
            for e in subs {
                let mut aux = Select { from: s.from.clone(), joins: s.joins.clone(), ..Default::default() };
                match &e {
                    E::InSub(l, sq, _) => {
                        let mut sq2 = (**sq).clone();
                        if !set_first_alias(&mut sq2, "zc") {
                            continue;
                        }
                        aux.items = vec![ex((**l).clone()), ex(count_scalar(&sq2, false)), ex(count_scalar(&sq2, true))];
                        if let Ok(m) = run_model(&Query::Select(aux), tables) {
                            for r in &m.rows {
                                if r[0].is_null() {
                                    out.insert("null_left_operand".to_string());
                                    if as_int(&r[1]) == 0 {
                                        out.insert("empty_subquery_result".to_string());
                                    }
                                }
                                if as_int(&r[2]) > 0 {
                                    out.insert("null_in_subquery_result".to_string());
                                }
                            }
                        }
                    }
                    E::Scalar(sq) => {
                        aux.items = vec![ex(count_scalar(sq, false))];
                        if let Ok(m) = run_model(&Query::Select(aux), tables) {
                            for r in &m.rows {
                                match as_int(&r[0]) {
                                    0 => {
                                        out.insert("zero_rows".to_string());
                                    }
                                    n if n > 1 => {
                                        out.insert("multi_rows".to_string());
                                    }
                                    _ => {}
                                }
                            }
                        }
                    }
                    _ => {}
                }
            }
            for f in s.from.iter().chain(s.joins.iter().map(|j| &j.item)) {
                if let FromItem::Sub { query, .. } = f {
                    if let Query::Select(ds) = &**query {
                        if !ds.group_by.is_empty() {
                            if let Ok(m) = run_model(query, tables) {
                                if m.rows.iter().any(|r| r.first().map(|v| v.is_null()).unwrap_or(false)) {
                                    out.insert("null_group_key".to_string());
                                }
                            }
                        }
                    }
                }
            }
        }
    }
    out
}

// ---------------------------------------------------------------------------------------------
// the oracle for one statement
// ---------------------------------------------------------------------------------------------

struct Failure {
    /// full sub-assertion incl. cause class, e.g. "bag", "ok_vs_err:expected_error", "ok_vs_err:unexpected_error:<class>"
    assertion: String,
    detail: J,
}

enum Checked {
    Judged,
    Dropped(&'static str),
    Fail(Failure),
}

/// stable class of an error message: its first words, without identifiers of the generated schema
fn err_class(e: &str) -> String {
    e.split(|c: char| !(c.is_ascii_alphanumeric() || c == '_'))
        .filter(|w| !w.is_empty() && w.chars().all(|c| c.is_ascii_alphabetic() || c == '_'))
        .map(|w| w.to_lowercase())
        .filter(|w| !matches!(w.as_str(), "ta" | "tb" | "tc" | "id"))
        .take(7)
        .collect::<Vec<_>>()
        .join("_")
}

fn simple_operand(e: &E) -> bool {
    match e {
        E::Col { .. } | E::Lit(_) => true,
        E::Scalar(q) => {
            // the scalar subquery itself must not contain further subqueries (their errors would be order dependent)
            let mut n = 0;
            each_select(q, &mut |_| n += 1);
            n == 1
        }
        E::Bin(op, a, b) if op.is_arith() || op.is_cmp() => simple_operand(a) && simple_operand(b),
        E::Func(n, args) if n.eq_ignore_ascii_case("COALESCE") => args.iter().all(simple_operand),
        _ => false,
    }
}

/// a "more than one row" error of the model cannot be avoided by any evaluation order: the scalar subqueries sit
/// directly in the select list or are the sole WHERE comparison of a single-table statement
fn error_unavoidable(q: &Query) -> bool {
    match q {
        Query::Select(s) => {
            s.joins.is_empty()
                && s.from.len() == 1
                && matches!(s.from[0], FromItem::Table { .. })
                && s.group_by.is_empty()
                && s.having.is_none()
                && s.limit.is_none()
                && s.offset.is_none()
                && s.where_.as_ref().map(|w| matches!(w, E::Bin(op, ..) if op.is_cmp()) && simple_operand(w)).unwrap_or(true)
                && s.items.iter().all(|i| match i {
                    Item::Star => true,
                    Item::Expr { e, .. } => simple_operand(e),
                })
        }
        _ => false,
    }
}

fn check(db: &mut Db, tables: &BTreeMap<String, MTable>, q: &Query) -> Checked {
    let sql = q.sql();
    let model = match run_model(q, tables) {
        Ok(m) => Some(m),
        Err(MErr::Unsupported(_)) => return Checked::Dropped("model_unsupported"),
        Err(MErr::Error(msg)) => {
            if !msg.contains("more than one row") {
                return Checked::Dropped("model_error_other");
            }
            if !error_unavoidable(q) {
                return Checked::Dropped("model_error_order_dependent");
            }
            None
        }
    };
    let got = db.query(&sql);
    match (model, got) {
        (_, Err(e)) if is_panic(&e) => Checked::Fail(Failure { assertion: format!("no_panic:{}", panic_tag(&e)), detail: json!({"sql": sql, "panic": e}) }),
        (None, Err(_)) => Checked::Judged,
        (None, Ok(rows)) => Checked::Fail(Failure { assertion: "ok_vs_err:expected_error".into(), detail: json!({"sql": sql, "model": "error: scalar subquery returned more than one row", "got": rows_json(&rows, 8)}) }),
        (Some(_), Err(e)) => Checked::Fail(Failure { assertion: format!("ok_vs_err:unexpected_error:{}", err_class(&e)), detail: json!({"sql": sql, "error": e}) }),
        (Some(m), Ok(rows)) => {
            let fails = compare(&rows, &m);
            if fails.is_empty() {
                return Checked::Judged;
            }
            let windowed = m.pre_window.is_some();
            let class = |a: &str| -> (u8, &'static str) {
                match a {
                    "width" => (0, "width"),
                    "bag" => (1, "bag"),
                    "cardinality" if !windowed => (1, "bag"),
                    "cardinality" | "window_rows_from_input" | "window_keys" => (2, "window"),
                    _ => (3, "sorted"),
                }
            };
            let best = fails.iter().min_by_key(|f| class(f.assertion).0).unwrap();
            Checked::Fail(Failure { assertion: class(best.assertion).1.to_string(), detail: json!({"sql": sql, "fail": best.detail, "got": rows_json(&rows, 10), "want": rows_json(&m.rows, 10)}) })
        }
    }
}

fn same_fail(c: Checked, a0: &str) -> bool {
    matches!(c, Checked::Fail(f) if f.assertion == a0)
}

// ---------------------------------------------------------------------------------------------
// shrinking
// ---------------------------------------------------------------------------------------------

/// canonicalising rewrites on/off (off while a closed inner query is minimised on its own: there a bare
/// `SELECT COUNT(*) FROM t` would run into the header fast path of the DML-churned working database)
static CANON: std::sync::atomic::AtomicBool = std::sync::atomic::AtomicBool::new(true);

fn e_rewrites(e: &E) -> Vec<E> {
    let bx = |x: &E| Box::new(x.clone());
    let mut out = vec![];
    match e {
        E::Bin(op @ (BinOp::And | BinOp::Or), a, b) => {
            out.push((**a).clone());
            out.push((**b).clone());
            out.extend(e_rewrites(a).into_iter().map(|x| E::Bin(*op, Box::new(x), bx(b))));
            out.extend(e_rewrites(b).into_iter().map(|x| E::Bin(*op, bx(a), Box::new(x))));
        }
        E::Not(x) => {
            out.push((**x).clone());
            out.extend(e_rewrites(x).into_iter().map(|y| E::Not(Box::new(y))));
        }
        E::Bin(op, a, b) => {
            if op.is_arith() {
                out.push((**a).clone());
            }
            out.extend(e_rewrites(a).into_iter().map(|x| E::Bin(*op, Box::new(x), bx(b))));
            out.extend(e_rewrites(b).into_iter().map(|x| E::Bin(*op, bx(a), Box::new(x))));
        }
        E::Func(n, args) => {
            if n.eq_ignore_ascii_case("COALESCE") && !args.is_empty() {
                out.push(args[0].clone());
            }
            for i in 0..args.len() {
                for x in e_rewrites(&args[i]) {
                    let mut a2 = args.clone();
                    a2[i] = x;
                    out.push(E::Func(n.clone(), a2));
                }
            }
        }
        E::IsNull(x, n) => out.extend(e_rewrites(x).into_iter().map(|y| E::IsNull(Box::new(y), *n))),
        E::InSub(l, q, n) => out.extend(q_rewrites(q, true).into_iter().map(|c| E::InSub(bx(l), Box::new(c), *n))),
        E::Exists(q, n) => out.extend(q_rewrites(q, true).into_iter().map(|c| E::Exists(Box::new(c), *n))),
        E::Scalar(q) => out.extend(q_rewrites(q, true).into_iter().map(|c| E::Scalar(Box::new(c)))),
        _ => {}
    }
    // canonicalising rewrites (not smaller, but towards one canonical variant, so that a feature stays in the minimal
    // statement only if the failure needs it)
    if !CANON.load(std::sync::atomic::Ordering::Relaxed) {
        return out;
    }
    match e {
        E::Agg(f, _) if *f != AggFn::CountStar => out.push(E::Agg(AggFn::CountStar, None)),
        E::Exists(q, n) => {
            if *n {
                out.push(E::Exists(q.clone(), false));
            }
            if let Query::Select(s) = &**q {
                let canonical = s.items.len() == 1 && matches!(&s.items[0], Item::Expr { e: E::Lit(V::Int(1)), alias: None });
                if !canonical && s.group_by.is_empty() && !s.distinct {
                    let mut s2 = s.clone();
                    s2.items = vec![ex(E::Lit(V::Int(1)))];
                    out.push(E::Exists(Box::new(Query::Select(s2)), *n));
                }
            }
        }
        E::Bin(BinOp::Eq, a, b) => {
            if let (E::Col { name, .. }, E::Lit(V::Int(_))) = (&**a, &**b) {
                if name == "id" {
                    out.push(E::Bin(BinOp::Le, a.clone(), b.clone()));
                    out.push(E::Bin(BinOp::Ge, a.clone(), b.clone()));
                }
            }
        }
        _ => {}
    }
    out
}

fn sel_rewrites(s: &Select, keep_items: bool) -> Vec<Select> {
    let mut out = vec![];
    let mut push = |f: &dyn Fn(&mut Select)| {
        let mut c = s.clone();
        f(&mut c);
        out.push(c);
    };
    if s.where_.is_some() {
        push(&|c| c.where_ = None);
    }
    if s.limit.is_some() || s.offset.is_some() {
        push(&|c| {
            c.limit = None;
            c.offset = None;
        });
    }
    if !s.order_by.is_empty() {
        push(&|c| {
            c.order_by.clear();
            c.limit = None;
            c.offset = None;
        });
    }
    if s.having.is_some() {
        push(&|c| c.having = None);
    }
    if s.distinct {
        push(&|c| c.distinct = false);
    }
    for ji in 0..s.joins.len() {
        push(&|c| {
            c.joins.remove(ji);
        });
    }
    if let Some(w) = &s.where_ {
        for x in e_rewrites(w) {
            push(&|c| c.where_ = Some(x.clone()));
        }
    }
    if !keep_items && s.order_by.is_empty() && s.items.len() > 1 {
        for i in 0..s.items.len() {
            push(&|c| {
                c.items.remove(i);
            });
        }
    }
    for (i, it) in s.items.iter().enumerate() {
        if let Item::Expr { e, alias } = it {
            for x in e_rewrites(e) {
                push(&|c| c.items[i] = Item::Expr { e: x.clone(), alias: alias.clone() });
            }
        }
    }
    if !keep_items && s.items.len() == 1 && matches!(s.items[0], Item::Star) {
        if let Some(FromItem::Table { alias, .. }) = s.from.first() {
            let tbl = alias.clone();
            push(&|c| c.items = vec![ex(E::Col { tbl: tbl.clone(), name: "id".into() })]);
        }
    }
    for (i, j) in s.joins.iter().enumerate() {
        if j.kind == JoinKind::Left {
            push(&|c| c.joins[i].kind = JoinKind::Inner);
        }
    }
    for (i, f) in s.from.iter().enumerate() {
        if let FromItem::Sub { query, alias } = f {
            for x in q_rewrites(query, true) {
                push(&|c| c.from[i] = FromItem::Sub { query: Box::new(x.clone()), alias: alias.clone() });
            }
        }
    }
    for (i, j) in s.joins.iter().enumerate() {
        if let FromItem::Sub { query, alias } = &j.item {
            for x in q_rewrites(query, true) {
                push(&|c| c.joins[i].item = FromItem::Sub { query: Box::new(x.clone()), alias: alias.clone() });
            }
        }
    }
    out
}

fn drop_col(q: &Query, i: usize) -> Option<Query> {
    match q {
        Query::Select(s) => {
            if s.items.len() <= i || s.items.len() < 2 || s.items.iter().any(|it| matches!(it, Item::Star)) || !s.order_by.is_empty() {
                return None;
            }
            let mut c = s.clone();
            c.items.remove(i);
            Some(Query::Select(c))
        }
        Query::SetOp { kind, all, left, right, order_by, limit, offset } => {
            if !order_by.is_empty() {
                return None;
            }
            Some(Query::SetOp { kind: *kind, all: *all, left: Box::new(drop_col(left, i)?), right: Box::new(drop_col(right, i)?), order_by: vec![], limit: *limit, offset: *offset })
        }
    }
}

fn width(q: &Query) -> usize {
    match q {
        Query::Select(s) => s.items.len(),
        Query::SetOp { left, .. } => width(left),
    }
}

/// single-step simplifications of a query; `keep_items`: the select list is referenced from outside
fn q_rewrites(q: &Query, keep_items: bool) -> Vec<Query> {
    match q {
        Query::Select(s) => sel_rewrites(s, keep_items).into_iter().map(Query::Select).collect(),
        Query::SetOp { kind, all, left, right, order_by, limit, offset } => {
            let mut out = vec![(**left).clone(), (**right).clone()];
            let mk = |l: Query, r: Query, ob: Vec<OrderKey>, li: Option<u64>, of: Option<u64>| Query::SetOp { kind: *kind, all: *all, left: Box::new(l), right: Box::new(r), order_by: ob, limit: li, offset: of };
            if limit.is_some() || offset.is_some() {
                out.push(mk((**left).clone(), (**right).clone(), order_by.clone(), None, None));
            }
            if !order_by.is_empty() {
                out.push(mk((**left).clone(), (**right).clone(), vec![], None, None));
            }
            for c in q_rewrites(left, true) {
                out.push(mk(c, (**right).clone(), order_by.clone(), *limit, *offset));
            }
            for c in q_rewrites(right, true) {
                out.push(mk((**left).clone(), c, order_by.clone(), *limit, *offset));
            }
            if !(*kind == SetKind::Union && *all) {
                out.push(Query::SetOp { kind: SetKind::Union, all: true, left: left.clone(), right: right.clone(), order_by: order_by.clone(), limit: *limit, offset: *offset });
            }
            if !keep_items && order_by.is_empty() {
                for i in 0..width(q) {
                    if let Some(c) = drop_col(q, i) {
                        out.push(c);
                    }
                }
            }
            out
        }
    }
}

fn shrink_query(q: &Query, fails: &mut dyn FnMut(&Query) -> bool, budget: &mut usize) -> Query {
    let mut cur = q.clone();
    'outer: loop {
        for cand in q_rewrites(&cur, false) {
            if *budget == 0 {
                break 'outer;
            }
            *budget -= 1;
            if fails(&cand) {
                cur = cand;
                continue 'outer;
            }
        }
        break;
    }
    cur
}

fn shrink_rows(case: &Case, fails: &mut dyn FnMut(&Case) -> bool, budget: &mut usize) -> Case {
    let mut cur = case.clone();
    for ti in 0..cur.specs.len() {
        let mut chunk = cur.rows[ti].len();
        while chunk >= 1 {
            let mut start = 0;
            while start < cur.rows[ti].len() {
                if *budget == 0 {
                    return cur;
                }
                let end = (start + chunk).min(cur.rows[ti].len());
                let mut cand = cur.clone();
                cand.rows[ti].drain(start..end);
                *budget -= 1;
                if fails(&cand) {
                    cur = cand;
                } else {
                    start = end;
                }
            }
            if chunk == 1 {
                break;
            }
            chunk = (chunk + 1) / 2;
        }
    }
    cur
}

/// replace NULL cells by fresh non-NULL values while the failure persists (so that NULL facts are necessary ones)
fn shrink_nulls(case: &Case, fails: &mut dyn FnMut(&Case) -> bool, budget: &mut usize) -> Case {
    let mut cur = case.clone();
    for ti in 0..cur.specs.len() {
        let tys = cur.specs[ti].col_types();
        for ri in 0..cur.rows[ti].len() {
            for ci in 0..tys.len() {
                if !cur.rows[ti][ri][ci].is_null() || *budget == 0 {
                    continue;
                }
                let mut cand = cur.clone();
                cand.rows[ti][ri][ci] = match tys[ci] {
                    Ty::Int => V::Int(77),
                    Ty::Float => V::Float(7.75),
                    Ty::Text => V::Text("zz".into()),
                    Ty::Bool => V::Bool(true),
                };
                *budget -= 1;
                if fails(&cand) {
                    cur = cand;
                }
            }
        }
    }
    cur
}

// ---------------------------------------------------------------------------------------------
// failure handling: shrink, describe, report
// ---------------------------------------------------------------------------------------------

struct Minimal {
    sig: String,
    detail: J,
}

fn closed_inner_queries(q: &Query, specs: &[TableSpec]) -> Vec<Query> {
    let mut v = vec![];
    match q {
        Query::SetOp { left, right, .. } => {
            v.push((**left).clone());
            v.push((**right).clone());
        }
        Query::Select(s) => {
            for f in s.from.iter().chain(s.joins.iter().map(|j| &j.item)) {
                if let FromItem::Sub { query, .. } = f {
                    v.push((**query).clone());
                }
            }
            for e in select_exprs(s) {
                each_subquery(e, &mut |sq| {
                    let has_star = matches!(sq, Query::Select(x) if x.items.iter().any(|i| matches!(i, Item::Star)));
                    if !is_correlated(sq, specs) && !has_star {
                        v.push(sq.clone());
                    }
                });
            }
        }
    }
    v
}

/// working database for row shrinking: the tables are created once (CREATE TABLE costs ~60 ms here) and their
/// content is moved from candidate to candidate with DELETE/INSERT; the minimal case is confirmed on a fresh database
struct Work {
    db: Db,
    cur: Vec<Vec<Row>>,
    dml: u64,
}

impl Work {
    fn new(scratch: &Scratch, case: &Case) -> Result<Work, String> {
        Ok(Work { db: case.build(scratch, "work", None)?, cur: case.rows.clone(), dml: 0 })
    }
    /// make the tables hold exactly `case.rows`; false if a statement failed or affected an unexpected number of rows
    fn set(&mut self, case: &Case) -> bool {
        for ti in 0..case.specs.len() {
            let spec = &case.specs[ti];
            let want: BTreeMap<i64, String> = case.rows[ti].iter().map(|r| (as_int(&r[0]), row_key(r, false))).collect();
            let have: BTreeMap<i64, String> = self.cur[ti].iter().map(|r| (as_int(&r[0]), row_key(r, false))).collect();
            let del: Vec<i64> = have.iter().filter(|(k, v)| want.get(*k) != Some(*v)).map(|(k, _)| *k).collect();
            let ins: Vec<Row> = case.rows[ti].iter().filter(|r| have.get(&as_int(&r[0])) != Some(&row_key(r, false))).cloned().collect();
            if !del.is_empty() {
                self.dml += 1;
                let sql = format!("DELETE FROM {} WHERE id IN ({})", spec.name, del.iter().map(|i| i.to_string()).collect::<Vec<_>>().join(", "));
                if self.db.exec(&sql).is_err() {
                    return false;
                }
            }
            for s in spec.insert_sql(&ins) {
                self.dml += 1;
                if self.db.exec(&s).is_err() {
                    return false;
                }
            }
            if !del.is_empty() || !ins.is_empty() {
                // rows_affected of DELETE is not trusted (it is C05's subject); the content is read back instead
                match self.db.query(&format!("SELECT * FROM {}", spec.name)) {
                    Ok(rows) if crate::sqlm::cmp::bag_diff(&rows, &case.rows[ti]).is_none() => {}
                    _ => return false,
                }
            }
            self.cur[ti] = case.rows[ti].clone();
        }
        true
    }
}

fn minimise(scratch: &Scratch, case: &Case, db: &mut Db, work: &mut Option<Work>, q: &Query, f: &Failure, ctx: &mut Ctx, seen: &mut BTreeSet<String>) -> Minimal {
    let a0 = f.assertion.clone();
    let tables = case.tables();
    // 1. structure of the statement, on the database at hand
    let mut bq = 160usize;
    let specs = &case.specs;
    // a candidate must keep at least one subquery / derived table / set operation (otherwise the shrinker would slide into unrelated defects)
    let has_form = |c: &Query| !describe(c, specs).forms.is_empty();
    let q1 = shrink_query(q, &mut |c| has_form(c) && same_fail(check(db, &tables, c), &a0), &mut bq);
    // 2. table rows and NULL cells, on the working database
    if work.is_none() {
        *work = Work::new(scratch, case).ok();
        ctx.count("shrink_work_db_builds", 1);
    }
    let mut case2 = case.clone();
    let mut q2 = q1.clone();
    let mut work_ok = false;
    let mut needs_q = false;
    if let Some(w) = work.as_mut() {
        let dml0 = w.dml;
        if w.set(case) && same_fail(check(&mut w.db, &tables, &q1), &a0) {
            work_ok = true;
            let mut br = 110usize;
            let case1 = shrink_rows(case, &mut |c| w.set(c) && same_fail(check(&mut w.db, &c.tables(), &q1), &a0), &mut br);
            let mut bn = 40usize;
            case2 = shrink_nulls(&case1, &mut |c| w.set(c) && same_fail(check(&mut w.db, &c.tables(), &q1), &a0), &mut bn);
            // 3. structure again, on the small tables
            let tables2 = case2.tables();
            if w.set(&case2) && same_fail(check(&mut w.db, &tables2, &q1), &a0) {
                let mut bq2 = 120usize;
                q2 = shrink_query(&q1, &mut |c| has_form(c) && same_fail(check(&mut w.db, &tables2, c), &a0), &mut bq2);
                if let Some(q3) = strip_qualifiers(&q2) {
                    if same_fail(check(&mut w.db, &tables2, &q3), &a0) {
                        q2 = q3;
                    } else {
                        needs_q = true;
                    }
                }
            } else {
                case2 = case.clone();
                let _ = w.set(case);
            }
        }
        ctx.count("shrink_work_db_dml", w.dml - dml0);
    }
    if !work_ok {
        ctx.count("shrink_without_row_reduction", 1);
        if a0.starts_with("no_panic") {
            *work = None;
        }
    }
    let case_f = case2;
    let tables_f = case_f.tables();
    // 4. attribution: does a closed inner query already fail on its own?
    let mut fct = facts(&q2, &tables_f);
    let mut inner_fail: Vec<String> = vec![];
    let mut inner_first: Option<(Query, String)> = None;
    if work_ok {
        if let Some(w) = work.as_mut() {
            for iq in closed_inner_queries(&q2, &case_f.specs) {
                if let Checked::Fail(x) = check(&mut w.db, &tables_f, &iq) {
                    inner_fail.push(format!("{} => {}", iq.sql(), x.assertion));
                    if inner_first.is_none() {
                        // minimise the inner query on its own (its own sub-assertion)
                        let ia = x.assertion.clone();
                        let mut bi = 60usize;
                        CANON.store(false, std::sync::atomic::Ordering::Relaxed);
                        let small = shrink_query(&iq, &mut |c| same_fail(check(&mut w.db, &tables_f, c), &ia), &mut bi);
                        CANON.store(true, std::sync::atomic::Ordering::Relaxed);
                        inner_first = Some((small, ia));
                    }
                }
            }
        }
    }
    if !inner_fail.is_empty() {
        fct.insert("inner_query_fails_alone".into());
    }
    let mut d = describe(&q2, &case_f.specs);
    if needs_q {
        d.ctx.insert("needs_qualifiers".into());
    }
    let join = |s: &BTreeSet<String>| s.iter().cloned().collect::<Vec<_>>().join("+");
    let mut sig = format!("C18/{}/{}", a0, if d.forms.is_empty() { "plain".to_string() } else { join(&d.forms) });
    if !fct.is_empty() {
        sig.push('/');
        sig.push_str(&join(&fct));
    }
    if !d.ctx.is_empty() {
        sig.push_str(&format!("[{}]", join(&d.ctx)));
    }
    if let Some((iq, ia)) = inner_first.as_ref() {
        // the defect is inside a closed inner query (it fails when run on its own): attribute by that query alone
        let di = describe(iq, &case_f.specs);
        let mut all = di.forms.clone();
        all.extend(di.ctx.iter().cloned());
        sig = format!("C18/{}/inner_query_fails_alone:{}[{}]", a0, ia, join(&all));
    }
    // 5. repro: for the first case of a signature, confirm on a fresh database holding only the tables the
    //    minimal statement uses (falling back to all tables)
    let used: BTreeSet<String> = tables_used(&q2).into_iter().collect();
    let mut setup = case_f.setup_sql(None);
    let mut confirmed: Option<bool> = None;
    let mut min_detail = None;
    let mut explain = None;
    if seen.insert(sig.clone()) {
        confirmed = Some(false);
        for only in [Some(&used), None] {
            ctx.count("shrink_fresh_db_builds", 1);
            if let Ok(mut d2) = case_f.build(scratch, "rep", only) {
                if let Checked::Fail(x) = check(&mut d2, &tables_f, &q2) {
                    if x.assertion == a0 {
                        confirmed = Some(true);
                        setup = case_f.setup_sql(only);
                        min_detail = Some(x.detail);
                        explain = d2.explain(&q2.sql());
                        break;
                    }
                }
            }
        }
        if confirmed == Some(false) {
            ctx.count("minimal_case_not_confirmed_on_fresh_db", 1);
        }
    }
    Minimal {
        sig,
        detail: json!({
            "minimal": {"setup": setup, "sql": q2.sql(), "detail": min_detail, "explain": explain, "facts": fct.iter().collect::<Vec<_>>(), "inner_queries_failing_standalone": inner_fail, "confirmed_on_fresh_db": confirmed},
            "original": {"setup": case.setup_sql(None), "sql": q.sql(), "detail": f.detail},
        }),
    }
}

/// did the statement really exercise the mechanism (result depends on the subquery / both set-operation inputs non-empty)?
fn exercised(q: &Query, tables: &BTreeMap<String, MTable>) -> bool {
    let m = match run_model(q, tables) {
        Ok(m) => m,
        Err(_) => return true, // an expected error is a judged, non-trivial case
    };
    match q {
        Query::SetOp { left, right, .. } => {
            let l = run_model(left, tables).map(|r| r.rows.len()).unwrap_or(0);
            let r = run_model(right, tables).map(|r| r.rows.len()).unwrap_or(0);
            l > 0 && r > 0
        }
        Query::Select(s) => {
            if m.rows.is_empty() && m.pre_window.is_none() {
                return false;
            }
            let mut w: Vec<E> = vec![];
            if let Some(x) = &s.where_ {
                direct_sub_exprs(x, &mut w);
            }
            if w.is_empty() {
                return true;
            }
            // the subquery predicate must have removed something
            let mut s2 = s.clone();
            s2.where_ = None;
            s2.limit = None;
            s2.offset = None;
            let all = run_model(&Query::Select(s2), tables).map(|r| r.rows.len()).unwrap_or(0);
            let kept = m.pre_window.as_ref().map(|p| p.len()).unwrap_or(m.rows.len());
            kept < all || s.distinct
        }
    }
}

fn plan_ops(plan: &str, out: &mut BTreeMap<String, u64>) {
    for line in plan.lines() {
        if let Some(i) = line.find("-> ") {
            let name: String = line[i + 3..].chars().take_while(|c| c.is_ascii_alphanumeric()).collect();
            if !name.is_empty() {
                *out.entry(name).or_insert(0) += 1;
            }
        }
    }
}

const RULE: &str = "per database 2-3 generated tables (id PK + int/text[/int|float] columns, small overlapping value domains, NULL strata 0/20/40%, 3..25 rows, duplicates) and generated statements of four families: WHERE with [NOT] IN (subquery) / [NOT] EXISTS / comparison with a scalar subquery (correlated by = < > <> or not, NULL left operands, NULL-bearing and empty subquery results, combined by AND/OR/NOT with plain filters); subqueries in the select list (scalar: aggregate, primary-key lookup with zero/one row, multi-row => error expected; IN/EXISTS as truth values); derived tables in FROM (projection+filter, GROUP BY with aggregates/HAVING, aggregate-only, DISTINCT, nested, joined with a base table, over a set operation); UNION/INTERSECT/EXCEPT [ALL] over duplicate- and NULL-bearing inputs, chains of two operations (only where the flat text has one reading under standard precedence), trailing ORDER BY/LIMIT; nesting depth <= 3; four naming styles (bare, table-qualified, aliased, README-mixed). Each statement runs on TurDB and on the sqlm reference evaluator: sub-assertions bag / sorted / window / width / ok_vs_err (model error => TurDB must error, only where no evaluation order can avoid the error; model rows => TurDB must not error) / no_panic. A failing case is shrunk (drop WHERE/conjuncts/subquery filters/select items/set-operation branches, reduce nesting, delete table rows and replace NULL cells on a working database, strip qualifiers, canonicalise aggregate / set-operation kind / EXISTS select list / SELECT * where the failure does not need them; the first minimal case of every signature is confirmed on a fresh database) while the same sub-assertion fails; signature = sub-assertion / subquery forms of the minimal statement / data facts evaluated in the model (null_in_subquery_result, null_left_operand, zero_rows, multi_rows, null_rows, dup_rows, null_group_key) [context features]; when a closed inner query already fails on its own the signature is inner_query_fails_alone:<its sub-assertion>[its features]. distinct_nontrivial = distinct (statement text, table data) pairs judged whose model result depends on the mechanism (subquery predicate removed rows / non-empty result / both set-operation inputs non-empty / expected error)";

pub fn run(a: &Args) -> i32 {
    let mut ctx = Ctx::new("C18", &a.tier, a.seed, "exploration", RULE);
    let mut rng = Rng::derive(a.seed, 18);
    let quick = ctx.quick();
    let (ndb, per_db, wall_cap) = if cfg!(miri) {
        (1, 4, 60.0)
    } else if quick {
        (60, 30, 45.0)
    } else {
        (1200, 40, 510.0)
    };
    let scratch = Scratch::new("c18");
    let mut by_form: BTreeMap<String, u64> = BTreeMap::new();
    let mut by_family: BTreeMap<String, u64> = BTreeMap::new();
    let mut ops: BTreeMap<String, u64> = BTreeMap::new();
    let mut sig_counts: BTreeMap<String, u64> = BTreeMap::new();
    let mut depth_counts: BTreeMap<String, u64> = BTreeMap::new();
    let names = ["ta", "tb", "tc"];
    let mut seen: BTreeSet<String> = BTreeSet::new();
    'dbs: for dbi in 0..ndb {
        if ctx.elapsed() > wall_cap {
            ctx.count("stopped_at_wall_cap_after_databases", dbi as u64);
            break;
        }
        let nt = rng.usize(2, 3);
        let specs: Vec<TableSpec> = names[..nt].iter().map(|n| make_spec(&mut rng, n)).collect();
        let rows: Vec<Vec<Row>> = specs
            .iter()
            .map(|s| {
                let n = if rng.chance(1, 3) { rng.usize(3, 6) } else { rng.usize(5, 25) };
                gen_rows(&mut rng, s, n)
            })
            .collect();
        let case = Case { specs, rows };
        let nrows: Vec<usize> = case.rows.iter().map(|r| r.len()).collect();
        let tables = case.tables();
        let dhash = case.data_hash();
        let mut work: Option<Work> = None;
        let mut db = match case.build(&scratch, "main", None) {
            Ok(d) => d,
            Err(e) => {
                ctx.violation("setup", "C18/setup_failed", json!({"error": e, "setup": case.setup_sql(None)}));
                continue;
            }
        };
        for _ in 0..per_db {
            if ctx.elapsed() > wall_cap + 8.0 {
                break 'dbs;
            }
            let mut gq = None;
            for _ in 0..6 {
                gq = gen_query(&mut rng, &case.specs, &nrows);
                if gq.is_some() {
                    break;
                }
                ctx.count("generator_retries", 1);
            }
            let (q, family) = match gq {
                Some(x) => x,
                None => continue,
            };
            ctx.eval();
            match check(&mut db, &tables, &q) {
                Checked::Judged => {
                    let d = describe(&q, &case.specs);
                    for f in &d.forms {
                        *by_form.entry(f.clone()).or_insert(0) += 1;
                    }
                    *by_family.entry(family.to_string()).or_insert(0) += 1;
                    *depth_counts.entry(format!("depth{}", d.max_depth)).or_insert(0) += 1;
                    ctx.count("judged", 1);
                    if exercised(&q, &tables) {
                        ctx.nontrivial(fnv(q.sql().as_bytes()) ^ dhash.rotate_left(17));
                    }
                    if let Some(p) = db.explain(&q.sql()) {
                        plan_ops(&p, &mut ops);
                    }
                    if ctx.samples.len() < 6 && (d.max_depth >= 2 || family == "setop") && ctx.evaluations % 7 == 0 {
                        ctx.sample(json!({"family": family, "sql": q.sql()}));
                    }
                }
                Checked::Dropped(why) => ctx.count(&format!("dropped:{}", why), 1),
                Checked::Fail(f) => {
                    *by_family.entry(format!("{}(failed)", family)).or_insert(0) += 1;
                    if let Some(p) = db.explain(&q.sql()) {
                        plan_ops(&p, &mut ops);
                    }
                    let m = minimise(&scratch, &case, &mut db, &mut work, &q, &f, &mut ctx, &mut seen);
                    if *sig_counts.entry(m.sig.clone()).or_insert(0) == 0 {
                        if let Ok(path) = std::env::var("C18_DUMP") {
                            use std::io::Write;
                            if let Ok(mut fh) = std::fs::OpenOptions::new().create(true).append(true).open(&path) {
                                let _ = writeln!(fh, "{}", json!({"sig": m.sig, "minimal": m.detail["minimal"], "original_sql": m.detail["original"]["sql"]}));
                            }
                        }
                    }
                    *sig_counts.entry(m.sig.clone()).or_insert(0) += 1;
                    let kind = f.assertion.split(':').next().unwrap_or("bag").to_string();
                    ctx.violation(&kind, &m.sig, m.detail);
                    if kind == "no_panic" {
                        // a statement panicked inside TurDB: continue on a fresh handle
                        match case.build(&scratch, "main", None) {
                            Ok(d) => db = d,
                            Err(_) => continue 'dbs,
                        }
                    }
                }
            }
        }
    }
    ctx.extra.insert("judged_by_form".into(), json!(by_form));
    ctx.extra.insert("statements_by_family".into(), json!(by_family));
    ctx.extra.insert("judged_by_nesting_depth".into(), json!(depth_counts));
    ctx.extra.insert("plan_operators_seen".into(), json!(ops));
    ctx.extra.insert("failure_signatures".into(), json!(sig_counts));
    ctx.assumptions.push("set-operation chains are generated only where SQL-standard precedence (INTERSECT first, otherwise left to right) and plain left-to-right reading agree; ORDER BY on a set operation uses ordinals or the first branch's column names; no LIMIT without a total ORDER BY; numeric types are not mixed across set-operation branches; a 'more than one row' error is demanded only for scalar subqueries placed directly in the select list or as the sole WHERE comparison".into());
    ctx.finish()
}
